#!/bin/sh
# Run the repository's own suite with the guard OFF and print the summary lines.
cd /repo && cargo test --workspace --no-fail-fast --offline 2>&1 | grep -E "^test result|FAILED|failed|panicked" | head -40
