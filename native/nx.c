// nx — native-CPU oracle for single-instruction cases (stand-alone process, line protocol).
//
// The guest instruction is executed on the real CPU of this machine with exactly the guest's
// 16 GPRs (incl. RSP), RFLAGS status bits, XMM0-15, GS base and memory layout.  It is entered
// with IRETQ (which loads RIP, RSP and RFLAGS atomically) with the trap flag set, so the CPU
// raises #DB right after the one instruction; the SIGTRAP/SIGSEGV/SIGFPE/SIGILL/SIGBUS handler
// captures the complete register context (RIP included) and resumes the host.
//
// Commands understood (everything else answers "-"):
//   new <codehex> <start> <rip>     map code page, reset
//   area <start> <datahex> <name>   map whole pages (start must be page aligned, else "skip")
//   prot <start> <mask>
//   setregs v0..v15,rip   setflags f   setseg fs|gs v   setxmms v0..v15
//   step            -> ok | sig<N> <fault-addr> | skip
//   regs  state  xmms  mrb <addr> <len>
#define _GNU_SOURCE
#include <stdio.h>
#include <stdlib.h>
#include <string.h>
#include <stdint.h>
#include <signal.h>
#include <ucontext.h>
#include <sys/mman.h>
#include <unistd.h>
#include <asm/prctl.h>
#include <sys/syscall.h>
#include <sys/time.h>
#include <sys/auxv.h>

typedef struct {
  uint64_t gpr[16];       // rax rcx rdx rbx rsp rbp rsi rdi r8..r15      0..127
  uint64_t rip;           // 128
  uint64_t rflags;        // 136
  uint64_t sig, fault;    // 144, 152
  uint64_t cs, ss;        // 160, 168
  uint8_t xmm[16][16];    // 176
} ctx_t;
ctx_t guest __attribute__((aligned(64)));
uint64_t host_rsp;
// FS base switching (needs FSGSBASE in user mode): the guest value is loaded right before IRETQ and the host value is
// restored as the first thing in the signal handler; nothing in between touches thread-local storage
uint64_t switch_fs = 0, host_fs = 0;
static int have_fsgsbase = 0;
extern void enter_guest(void);
extern void recover(void);
static uint8_t altstack[1 << 17];
static int skip_case = 0;

__asm__(
".text\n.globl enter_guest\nenter_guest:\n"
"  push %rbx; push %rbp; push %r12; push %r13; push %r14; push %r15\n"
"  mov %rsp, host_rsp(%rip)\n"
"  lea guest(%rip), %rax\n"
"  movdqu 176(%rax), %xmm0; movdqu 192(%rax), %xmm1; movdqu 208(%rax), %xmm2; movdqu 224(%rax), %xmm3\n"
"  movdqu 240(%rax), %xmm4; movdqu 256(%rax), %xmm5; movdqu 272(%rax), %xmm6; movdqu 288(%rax), %xmm7\n"
"  movdqu 304(%rax), %xmm8; movdqu 320(%rax), %xmm9; movdqu 336(%rax), %xmm10; movdqu 352(%rax), %xmm11\n"
"  movdqu 368(%rax), %xmm12; movdqu 384(%rax), %xmm13; movdqu 400(%rax), %xmm14; movdqu 416(%rax), %xmm15\n"
/* IRETQ frame on the host stack: SS, RSP, RFLAGS, CS, RIP */
"  pushq 168(%rax)\n"
"  pushq 32(%rax)\n"
"  pushq 136(%rax)\n"
"  pushq 160(%rax)\n"
"  pushq 128(%rax)\n"
"  mov switch_fs(%rip), %rcx; test %rcx, %rcx; jz 1f; wrfsbase %rcx; 1:\n"
"  mov 8(%rax), %rcx; mov 16(%rax), %rdx; mov 24(%rax), %rbx; mov 40(%rax), %rbp; mov 48(%rax), %rsi; mov 56(%rax), %rdi\n"
"  mov 64(%rax), %r8; mov 72(%rax), %r9; mov 80(%rax), %r10; mov 88(%rax), %r11; mov 96(%rax), %r12; mov 104(%rax), %r13; mov 112(%rax), %r14; mov 120(%rax), %r15\n"
"  mov 0(%rax), %rax\n"
"  iretq\n"
".globl recover\nrecover:\n"
"  pop %r15; pop %r14; pop %r13; pop %r12; pop %rbp; pop %rbx\n"
"  ret\n"
);

static void on_sig(int s, siginfo_t *si, void *uc_) {
  if (have_fsgsbase) __asm__ volatile("wrfsbase %0" :: "r"(host_fs));
  ucontext_t *uc = uc_;
  greg_t *g = uc->uc_mcontext.gregs;
  guest.gpr[0]=g[REG_RAX]; guest.gpr[1]=g[REG_RCX]; guest.gpr[2]=g[REG_RDX]; guest.gpr[3]=g[REG_RBX];
  guest.gpr[4]=g[REG_RSP]; guest.gpr[5]=g[REG_RBP]; guest.gpr[6]=g[REG_RSI]; guest.gpr[7]=g[REG_RDI];
  guest.gpr[8]=g[REG_R8]; guest.gpr[9]=g[REG_R9]; guest.gpr[10]=g[REG_R10]; guest.gpr[11]=g[REG_R11];
  guest.gpr[12]=g[REG_R12]; guest.gpr[13]=g[REG_R13]; guest.gpr[14]=g[REG_R14]; guest.gpr[15]=g[REG_R15];
  guest.rflags = g[REG_EFL]; guest.rip = g[REG_RIP]; guest.sig = s; guest.fault = (uint64_t)si->si_addr;
  if (uc->uc_mcontext.fpregs) memcpy(guest.xmm, uc->uc_mcontext.fpregs->_xmm, 256);
  g[REG_RIP] = (greg_t)recover;
  g[REG_RSP] = host_rsp;
  g[REG_EFL] &= ~0x100UL;   // clear TF
  g[REG_EFL] &= ~0x400UL;   // clear DF
}

// ---- guest memory bookkeeping (page granular) ----
#define MAXMAP 16
static struct { uint64_t start, len; int prot; } maps[MAXMAP];
static int nmaps = 0;
static uint64_t code_start = 0, code_len = 0;

static void unmap_all(void) {
  for (int i = 0; i < nmaps; i++) munmap((void*)maps[i].start, maps[i].len);
  nmaps = 0;
}
static int map_pages(uint64_t start, uint64_t len, int prot) {
  if (nmaps >= MAXMAP) return -1;
  if (start < 0x10000 || start + len > 0x700000000000ULL || start + len < start) return -1;
  void *p = mmap((void*)start, len, prot, MAP_PRIVATE|MAP_ANONYMOUS|MAP_FIXED_NOREPLACE, -1, 0);
  if (p == MAP_FAILED || (uint64_t)p != start) { if (p != MAP_FAILED) munmap(p, len); return -1; }
  maps[nmaps].start = start; maps[nmaps].len = len; maps[nmaps].prot = prot; nmaps++;
  return 0;
}
static int is_mapped(uint64_t a, uint64_t n) {
  for (int i = 0; i < nmaps; i++) if (a >= maps[i].start && a + n <= maps[i].start + maps[i].len) return 1;
  return 0;
}

static int hexv(int c){ return c<='9'?c-'0':(c|32)-'a'+10; }
static size_t unhex(const char*h, uint8_t*out, size_t max){ size_t n=0; if(h[0]=='-') return 0; while(h[0]&&h[1]&&n<max){ out[n++]=hexv(h[0])*16+hexv(h[1]); h+=2;} return n; }
static void parse128(const char *r, size_t n, uint8_t *v) { memset(v,0,16); for(size_t k=0;k<n&&k<32;k++){ int nib=hexv(r[n-1-k]); v[k/2] |= nib<<(4*(k%2)); } }
static void print128(const uint8_t *v) { int started=0; for(int k=15;k>=0;k--){ if(started) printf("%02x",v[k]); else if(v[k]||k==0){ printf("%x",v[k]); started=1; } } }

static uint64_t guest_gs = 0, guest_fs = 0, host_gs = 0;
static int stepped = 0;

int main(void) {
  stack_t ss = { .ss_sp = altstack, .ss_size = sizeof altstack, .ss_flags = 0 }; sigaltstack(&ss, 0);
  struct sigaction sa; memset(&sa,0,sizeof sa); sa.sa_sigaction = on_sig; sa.sa_flags = SA_SIGINFO|SA_ONSTACK|SA_NODEFER; sigemptyset(&sa.sa_mask);
  sigaction(SIGSEGV,&sa,0); sigaction(SIGFPE,&sa,0); sigaction(SIGILL,&sa,0); sigaction(SIGBUS,&sa,0); sigaction(SIGTRAP,&sa,0);
  uint64_t cs, ssr; __asm__ volatile("mov %%cs, %0" : "=r"(cs)); __asm__ volatile("mov %%ss, %0" : "=r"(ssr));
  syscall(SYS_arch_prctl, ARCH_GET_GS, &host_gs);
  if (getauxval(AT_HWCAP2) & 2) { have_fsgsbase = 1; __asm__ volatile("rdfsbase %0" : "=r"(host_fs)); }
  static char line[1<<20];
  static uint8_t buf[1<<19];
  while (fgets(line, sizeof line, stdin)) {
    size_t L = strlen(line); while (L && (line[L-1]=='\n'||line[L-1]=='\r')) line[--L]=0;
    char *w[8]; int nw=0; char *q=line; while (*q && nw<8) { while(*q==' ')q++; if(!*q)break; w[nw++]=q; while(*q&&*q!=' ')q++; if(*q){*q=0;q++;} }
    if (nw==0) { printf("-\n"); fflush(stdout); continue; }
    if (!strcmp(w[0],"new") && nw==4) {
      unmap_all(); memset(&guest,0,sizeof guest); guest.cs=cs; guest.ss=ssr; skip_case=0; stepped=0; guest_gs=guest_fs=0;
      size_t n = unhex(w[1], buf, sizeof buf);
      code_start = strtoull(w[2],0,16); code_len = n;
      uint64_t pg = code_start & ~0xfffUL;
      uint64_t plen = ((code_start + n + 0xfff) & ~0xfffUL) - pg;
      if (n == 0 || map_pages(pg, plen, PROT_READ|PROT_WRITE|PROT_EXEC)) { skip_case=1; printf("skip\n"); }
      else { memset((void*)pg, 0xcc, plen); memcpy((void*)code_start, buf, n); guest.rip = strtoull(w[3],0,16); printf("ok\n"); }
    } else if (!strcmp(w[0],"area") && nw>=3) {
      uint64_t start = strtoull(w[1],0,16); size_t n = unhex(w[2], buf, sizeof buf);
      if (skip_case) printf("skip\n");
      else if ((start & 0xfff) || (n & 0xfff) || n == 0 || map_pages(start, n, PROT_READ|PROT_WRITE)) { skip_case=1; printf("skip\n"); }
      else { memcpy((void*)start, buf, n); printf("ok\n"); }
    } else if (!strcmp(w[0],"areaz") && nw>=4) {
      uint64_t start = strtoull(w[1],0,16), n = strtoull(w[2],0,16), x = strtoull(w[3],0,16);
      if (skip_case) printf("skip\n");
      else if ((start & 0xfff) || (n & 0xfff) || n == 0 || n > (1<<20) || map_pages(start, n, PROT_READ|PROT_WRITE)) { skip_case=1; printf("skip\n"); }
      else { uint8_t *p=(uint8_t*)start; for (uint64_t k=0;k<n;k++){ x = x*6364136223846793005ULL + 1442695040888963407ULL; p[k]=x>>56; } printf("ok\n"); }
    } else if (!strcmp(w[0],"mwb") && nw==3) {
      uint64_t a = strtoull(w[1],0,16); size_t n = unhex(w[2], buf, sizeof buf);
      if (skip_case) printf("skip\n");
      else if (n == 0 || !is_mapped(a, n)) { skip_case=1; printf("skip\n"); }
      else { memcpy((void*)a, buf, n); printf("ok\n"); }
    } else if (!strcmp(w[0],"nonative")) {
      skip_case=1; printf("skip\n");
    } else if (!strcmp(w[0],"prot") && nw==3) {
      uint64_t start = strtoull(w[1],0,16); unsigned p = strtoul(w[2],0,16);
      int done=0; for (int i=0;i<nmaps;i++) if (maps[i].start==start) { int pr=0; if(p&1)pr|=PROT_READ; if(p&2)pr|=PROT_WRITE|PROT_READ; if(p&4)pr|=PROT_EXEC; mprotect((void*)start, maps[i].len, pr); maps[i].prot=pr; done=1; }
      printf(done?"ok\n":"skip\n");
    } else if (!strcmp(w[0],"setregs") && nw==2) {
      char *r=w[1]; for(int i=0;i<16;i++){ guest.gpr[i]=strtoull(r,&r,16); if(*r==',') r++; } guest.rip = strtoull(r,0,16); printf("-\n");
    } else if (!strcmp(w[0],"setflags") && nw==2) {
      guest.rflags = strtoull(w[1],0,16); printf("-\n");
    } else if (!strcmp(w[0],"setseg") && nw==3) {
      uint64_t v=strtoull(w[2],0,16); if (w[1][0]=='g') guest_gs=v; else guest_fs=v; printf("-\n");
    } else if (!strcmp(w[0],"setxmms") && nw==2) {
      char *r=w[1]; for(int i=0;i<16;i++){ char *e=r; while(*e&&*e!=',') e++; parse128(r, e-r, guest.xmm[i]); r=e; if(*r==',') r++; } printf("-\n");
    } else if (!strcmp(w[0],"step")) {
      // never execute an instruction that enters the host kernel (SYSCALL, SYSENTER, INT n, INTO, INT1): with arbitrary
      // registers that is an arbitrary system call of this process (exit, fork, write to the protocol stream …)
      if (!skip_case && guest.rip >= code_start && guest.rip < code_start + code_len) {
        const uint8_t *c = (const uint8_t*)guest.rip; size_t left = code_start + code_len - guest.rip;
        for (size_t k = 0; k < left && k < 15; k++) {
          if (c[k] == 0xcd || c[k] == 0xce || c[k] == 0xf1 || (c[k] == 0x0f && k + 1 < left && (c[k+1] == 0x05 || c[k+1] == 0x34 || c[k+1] == 0x07 || c[k+1] == 0x35))) { skip_case = 1; break; }
        }
      }
      if (skip_case || (guest_fs && !have_fsgsbase)) { skip_case=1; printf("skip\n"); }
      else {
        guest.rflags = (guest.rflags & 0xcd5) | 0x202 | 0x100;   // status flags + DF, IF, reserved bit 1, TF
        guest.sig = 0; guest.fault = 0;
        if (guest_gs) syscall(SYS_arch_prctl, ARCH_SET_GS, guest_gs);
        switch_fs = guest_fs;
        struct itimerval tv = { {0,0}, {2,0} }; setitimer(ITIMER_REAL, &tv, 0);
        enter_guest();
        struct itimerval z = { {0,0}, {0,0} }; setitimer(ITIMER_REAL, &z, 0);
        switch_fs = 0;
        if (guest_gs) syscall(SYS_arch_prctl, ARCH_SET_GS, host_gs);
        stepped = 1;
        if (guest.sig == SIGTRAP) printf("ok\n"); else printf("sig%lu %lx\n", guest.sig, guest.fault);
      }
    } else if (!strcmp(w[0],"regs")) {
      if (skip_case) printf("skip\n"); else { for(int i=0;i<16;i++) printf("%lx ", guest.gpr[i]); printf("%lx\n", guest.rip); }
    } else if (!strcmp(w[0],"state")) {
      if (skip_case) printf("skip\n"); else printf("flags=%lx\n", guest.rflags & 0xcd5);
    } else if (!strcmp(w[0],"xmms")) {
      if (skip_case) printf("skip\n"); else { for(int i=0;i<16;i++){ if(i) printf(" "); print128(guest.xmm[i]); } printf("\n"); }
    } else if (!strcmp(w[0],"mrb") && nw==3) {
      uint64_t a=strtoull(w[1],0,16), n=strtoull(w[2],0,16);
      if (skip_case) printf("skip\n");
      else if (n==0 || !is_mapped(a,n)) printf("err\n");
      else {
        // the observation is the emulator's API read, which needs read permission: a page the guest may not read answers
        // "err" here too (reading it would also fault in this process itself)
        int unreadable = 0;
        for (int i=0;i<nmaps;i++) if (!(maps[i].prot & PROT_READ) && a < maps[i].start + maps[i].len && maps[i].start < a + n) unreadable = 1;
        if (unreadable) printf("err\n");
        else { printf("ok "); for (uint64_t k=0;k<n;k++) printf("%02x", ((uint8_t*)a)[k]); printf("\n"); } }
    } else printf("-\n");
    fflush(stdout);
  }
  return 0;
}
