#!/usr/bin/env python3
"""Regenerate MANIFEST.json from checklib/props.py (claimed) and manifest_meta.py (texts)."""
import json, sys, os, subprocess
sys.path.insert(0, os.path.join(os.path.dirname(os.path.abspath(__file__)), "checklib"))
import props, manifest_meta as M

ids = [json.loads(l)["id"] for l in open("/verif/properties.jsonl")]
hook_commits = subprocess.run(["git", "-C", "/repo", "log", "--format=%H %s"], capture_output=True, text=True).stdout.splitlines()
hook_commits = [l.split()[0] for l in hook_commits if " verif hook:" in l]
checks, na = [], []
for pid in ids:
    if pid in props.PROPS and pid in M.CLAIMS:
        c = M.CLAIMS[pid]
        checks.append({
            "property_id": pid,
            "quick_cmd": f"./check {pid} --tier quick",
            "thorough_cmd": f"./check {pid} --tier thorough",
            "evidence_file": f"evidence/{pid}.json",
            "replay_cmd_template": f"./check {pid} --replay {{path}}",
            "engine": "lean4-model+correspondence",
            "level_claimed": {"category": c.get("category", "proof"), "text": c["text"], "design_ref": c["design_ref"]},
            "level_note": c["note"],
            "technique": c["technique"],
        })
    else:
        na.append({"property_id": pid, "reason": M.NOT_YET.get(pid, "not claimed yet: model and correspondence for this property are still being built (see DESIGN.md section 11)")})
man = {
    "version": 1,
    "setup_cmd": "./setup.sh",
    "hooks": {
        "guard": "ax_verif",
        "enable": "RUSTFLAGS=--cfg ax_verif (set in harness/.cargo/config.toml; the harness crate depends on /repo by path and is rebuilt by every check)",
        "baseline_off_cmd": "cd /repo && cargo test --workspace --no-fail-fast --offline",
        "source_commits": hook_commits,
        "add_only": True,
    },
    "engines": [
        {"name": "lean4-model+correspondence", "path": "lean/ harness/ checklib/ check",
         "serves_properties": [c["property_id"] for c in checks],
         "kind_free_text": "hand-written executable Lean 4 model + abstract specs + machine-checked theorems (lake build, #print axioms audit, leanchecker); tied to /repo by a differential correspondence harness (Rust, in-process against the working tree built with --cfg ax_verif) speaking a line protocol with the compiled Lean driver; native CPU oracle for instruction-level properties"},
    ],
    "checks": checks,
    "not_applicable": na,
    "notes": "All checks: exit 0 = held, exit 1 + VIOLATION line = violation (suffix no-failing-input-found when only a theorem/correspondence broke), exit 2 + CHECK-ERROR = the check itself is broken. VERIF_SEED and VERIF_TIER honoured.",
}
json.dump(man, open("/verif/MANIFEST.json", "w"), indent=1)
print("claimed:", [c["property_id"] for c in checks])
