/-
  axdriver — line-protocol driver of the executable model.
  One command per input line, exactly one output line per command.
-/
import AxVerif.Model.Parse
open Ax

structure DState where
  regs : Regs := Regs.zero

def regsLine (r : Regs) : String :=
  " ".intercalate ((List.finRange 16).map fun i => toHex (r.get i).toNat) ++ " " ++ toHex r.rip.toNat

def handle (st : DState) (ws : List String) : DState × String :=
  match ws with
  | ["new"] => ({}, "-")
  | ["setregs", v] =>
    -- 17 comma separated hex values: 16 GPR in encoding order, RIP
    match (v.splitOn ",").mapM parseHex? with
    | some vals =>
      if vals.length = 17 then
        let r : Regs := { st.regs with
          gpr := Vector.ofFn fun i => BitVec.ofNat 64 (vals.getD i.val 0),
          rip := BitVec.ofNat 64 (vals.getD 16 0) }
        ({ st with regs := r }, "-")
      else (st, "bad-op")
    | none => (st, "bad-op")
  | ["rw", w, r, v] =>
    match w.toNat?, parseReg? r, parseHex? v with
    | some w, some r, some v =>
      if v < U64 then
        let (s', res) := regStep st.regs (.write w r (BitVec.ofNat 64 v))
        ({ st with regs := s' }, match res with
          | .wrote => "ok" | .rejected => "err" | .crashed => "panic" | .value _ => "bad")
      else (st, "bad-op")
    | _, _, _ => (st, "bad-op")
  | ["rr", w, r] =>
    match w.toNat?, parseReg? r with
    | some w, some r =>
      let (s', res) := regStep st.regs (.read w r)
      ({ st with regs := s' }, match res with
        | .value v => "ok " ++ toHex v.toNat | .rejected => "err" | .crashed => "panic" | .wrote => "bad")
    | _, _ => (st, "bad-op")
  | ["regs"] => (st, regsLine st.regs)
  | _ => (st, "bad-op")

partial def loop (h : IO.FS.Stream) (out : IO.FS.Stream) (st : DState) : IO Unit := do
  let line ← h.getLine
  if line.isEmpty then return ()
  let ws := (line.trimAscii.toString.splitOn " ").filter (· ≠ "")
  let (st', o) := handle st ws
  out.putStrLn o
  out.flush
  loop h out st'

def main : IO Unit := do
  let stdin ← IO.getStdin
  let stdout ← IO.getStdout
  loop stdin stdout {}
