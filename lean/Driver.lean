/-
  axdriver — line-protocol driver of the executable model.
  One command per input line, exactly one output line per command.
-/
import AxVerif.Model.Parse
import AxVerif.Model.Step
import AxVerif.Model.Elf
open Ax

/-- driver state: the machine, the hook table, the decode facts supplied by the harness -/
structure DState where
  m : Machine := {}
  hooks : HookTable := []
  dec : List (Nat × List Byte × DecodeRes) := []
  /-- the real machine may hold partial effects of a failed instruction: state is unspecified -/
  poisoned : Bool := false
  /-- `nomodel`: the rest of this case is not answered by the model (histories of tens of thousands of steps, judged by the
      generator's expectations and the crash oracle alone) -/
  muted : Bool := false
  /-- start addresses of the areas the case created itself (`area`, `areaz`, `zero`, `any`, `anyz`); every other area — stack,
      argument strings, heap, ELF segments — is the emulator's own, and so is its name -/
  userStarts : List Nat := []
  /-- did the last `step` succeed, as far as the model knows (`none`: not known) -/
  lastStepOk : Option Bool := none
  /-- a failed instruction may have updated the flags before its write-back failed -/
  flagsUnknown : Bool := false
  builtin : Bool := false
  /-- descriptor numbers for the next pipe() call, fed back from the implementation's run -/
  fds : Nat × Nat := (0, 0)

def regsLine (r : Regs) : String :=
  " ".intercalate ((List.finRange 16).map fun i => toHex (r.get i).toNat) ++ " " ++ toHex r.rip.toNat

def areaLine (ar : Area) : String :=
  s!"{optName ar.name},{toHex ar.start},{toHex ar.len},{ar.access},{toHex ar.data.length},{toHex (fnv64 ar.data)}"

def unitOut : Out Unit → String := outStr (fun _ => "ok")

def memRes (st : DState) (r : Out Mem) : DState × String :=
  match r with
  | .ok m => ({ st with m := { st.m with mem := m } }, "ok")
  | .err => (st, "err")
  | .panic => (st, "panic")

/-- a successful creation appends exactly one area: remember its start as the case's own -/
def userCreated (st : DState) (p : DState × String) : DState × String :=
  if p.1.m.mem.length = st.m.mem.length + 1 then
    match p.1.m.mem.getLast? with
    | some ar => ({ p.1 with userStarts := ar.start :: p.1.userStarts }, p.2)
    | none => p
  else p

def addrRes (st : DState) (r : Out (Nat × Mem)) : DState × String :=
  match r with
  | .ok (a, m) => ({ st with m := { st.m with mem := m } }, "ok " ++ toHex a)
  | .err => (st, "err")
  | .panic => (st, "panic")

def handleReg (st : DState) (ws : List String) : Option (DState × String) :=
  match ws with
  | ["setregs", v] =>
    match (v.splitOn ",").mapM parseHex? with
    | some vals =>
      if vals.length = 17 then
        let r : Regs := { st.m.regs with
          gpr := Vector.ofFn fun i => BitVec.ofNat 64 (vals.getD i.val 0),
          rip := BitVec.ofNat 64 (vals.getD 16 0) }
        some ({ st with m := { st.m with regs := r } }, "-")
      else none
    | none => none
  | ["rw", w, r, v] =>
    match w.toNat?, parseReg? r, parseHex? v with
    | some w, some r, some v =>
      if v < U64 then
        let (s', res) := regStep st.m.regs (.write w r (BitVec.ofNat 64 v))
        some ({ st with m := { st.m with regs := s' } }, match res with
          | .wrote => "ok" | .rejected => "err" | .crashed => "panic" | .value _ => "bad")
      else none
    | _, _, _ => none
  | ["rrok", w, r] =>
    match st.lastStepOk with
    | none => some (st, "unspecified")
    | some false => some (st, "step-failed")
    | some true =>
      if st.poisoned then some (st, "unspecified") else
      match w.toNat?, parseReg? r with
      | some w, some r =>
        let (_, res) := regStep st.m.regs (.read w r)
        some (st, match res with
          | .value v => "ok " ++ toHex v.toNat | .rejected => "err" | .crashed => "panic" | .wrote => "bad")
      | _, _ => none
  | ["rr", w, r] =>
    match w.toNat?, parseReg? r with
    | some w, some r =>
      let (s', res) := regStep st.m.regs (.read w r)
      some ({ st with m := { st.m with regs := s' } }, match res with
        | .value v => "ok " ++ toHex v.toNat | .rejected => "err" | .crashed => "panic" | .wrote => "bad")
    | _, _ => none
  | ["regs"] => some (st, regsLine st.m.regs)
  | _ => none

def handleMem (st : DState) (ws : List String) : Option (DState × String) :=
  match ws with
  | ["mrb", a, n] => do
    let a ← parseHex? a; let n ← parseHex? n
    pure (st, outStr (fun bs => "ok " ++ bytesToHex bs) (memReadBytes st.m.mem a n))
  | ["mwb", a, d] => do
    let a ← parseHex? a; let d ← parseHexBytes? d
    pure (memRes st (memWriteBytes st.m.mem a d))
  | ["mr", n, a] => do
    let n ← n.toNat?; let a ← parseHex? a
    pure (st, outStr (fun v => "ok " ++ toHex v) (memReadN st.m.mem n a))
  | ["mw", n, a, v] => do
    let n ← n.toNat?; let a ← parseHex? a; let v ← parseHex? v
    pure (memRes st (memWriteN st.m.mem n a v))
  | ["mrx", a] => do
    let a ← parseHex? a
    pure (st, outStr (fun bs => "ok " ++ bytesToHex bs) (memReadExec st.m.mem a))
  | ["area", s, d, nm] => do
    let s ← parseHex? s; let d ← parseHexBytes? d
    pure (userCreated st (memRes st (initArea st.m.mem s d (parseName nm))))
  | ["areaz", s, n, seed, nm] => do
    let s ← parseHex? s; let n ← parseHex? n; let seed ← parseHex? seed
    pure (userCreated st (memRes st (initArea st.m.mem s (lcgBytes seed n) (parseName nm))))
  | ["zero", s, n, nm] => do
    let s ← parseHex? s; let n ← parseHex? n
    pure (userCreated st (memRes st (initZero st.m.mem s n (parseName nm))))
  | ["prot", s, p] => do
    let s ← parseHex? s; let p ← parseHex? p
    pure (memRes st (memProt st.m.mem s p))
  | ["resize", s, n] => do
    let s ← parseHex? s; let n ← parseHex? n
    -- a request above 16 MiB is only answered when the model rejects it before allocating; whether the host can satisfy
    -- a huge allocation is outside the model (the implementation's outcome is judged by the crash oracle)
    if n > 2 ^ 24 then
      let idx := areaIndex st.m.mem s
      -- (2^56 bytes and more no x86-64 host can provide: a definite error)
      if pastEnd s n || collidesOther st.m.mem idx s n || idx.isNone || n ≥ 2 ^ 56 then pure (st, "err")
      else pure ({ st with poisoned := true }, "unspecified")
    else
    pure (memRes st (resizeSection st.m.mem s n))
  | ["anyz", n] => do
    let n ← parseHex? n
    pure (userCreated st (addrRes st (initZeroAnywhere st.m.mem n)))
  | ["any", d, nm] => do
    let d ← parseHexBytes? d
    pure (userCreated st (addrRes st (initAnywhere st.m.mem d (parseName nm))))
  -- names of areas the case did not create itself are marked `!`: they are the emulator's own choice, not compared
  | ["areas"] => some (st, if st.m.mem.isEmpty then "none" else
      " ".intercalate (st.m.mem.map fun ar => (if st.userStarts.contains ar.start then "" else "!") ++ areaLine ar))
  | _ => none

def traceLine (t : List TraceEntry) : String :=
  if t.isEmpty then "none" else
  " ".intercalate (t.map fun e =>
    let v := match e.variant with | .call => "c" | .ret => "r" | .jump => "j"
    s!"{toHex e.instrIp},{toHex e.target},{v},{e.level},{e.count}")

def stateLine (m : Machine) (flagsUnknown : Bool := false) : String :=
  s!"fin={if m.finished then 1 else 0} count={m.count} rip={toHex m.regs.rip.toNat} flags={if flagsUnknown then "?" else toHex m.rflags.toNat} " ++
  s!"codeend={toHex m.codeEnd} stacktop={toHex m.stackTop} running={if m.hooksRunning then 1 else 0} " ++
  s!"fs={toHex m.fs.toNat} gs={toHex m.gs.toNat}"

/-- scripted hook: logs (id, phase, rip, count), optionally edits a register, then reports its outcome -/
def scriptedHook (id phase outcome : String) (edit : Option (Fin 16 × BitVec 64)) : HookFn := fun s =>
  -- "tryreg": the hook tries to register hooks itself; while a hook runs both attempts are refused and change nothing
  let suffix := if outcome == "tryreg" || outcome == "stoptryreg" then (if s.hooksRunning then ":rej11" else ":rej00") else ""
  let s1 := { s with log := s.log ++ [s!"{id}:{phase}:{toHex s.regs.rip.toNat}:{s.count}:{if s.hooksRunning then 1 else 0}{suffix}"] }
  let s2 := match edit with
    | some (i, v) => { s1 with regs := s1.regs.set i v }
    | none => s1
  match outcome with
  | "error" => .err s2
  | "errorempty" => .err s2
  | "stoperror" => .err { s2 with finished := true }
  | "stoptryreg" => .ok .unhandled { s2 with finished := true }
  | "handled" => .ok .handled s2
  | "stop" => .ok .unhandled { s2 with finished := true }
  | "stophandled" => .ok .handled { s2 with finished := true }
  | _ => .ok .unhandled s2

def decodeFn (dec : List (Nat × List Byte × DecodeRes)) : Machine → List Byte → DecodeRes := fun s w =>
  match dec.find? (fun (a, win, _) => a == s.regs.rip.toNat && win == w) with
  | some (_, _, r) => r
  | none => .invalid

def hasDec (dec : List (Nat × List Byte × DecodeRes)) (s : Machine) : Bool :=
  match memReadExec s.mem s.regs.rip.toNat with
  | .ok w => w.isEmpty || (dec.any fun (a, win, _) => a == s.regs.rip.toNat && win == w)
  | _ => true

def stepOutStr : StepOut → String
  | .ok true => "ok 1"
  | .ok false => "ok 0"
  | .err => "err"
  | .panic => "panic"

def parseStrList (s : String) : Option (List (List Byte)) :=
  if s = "-" then some [] else (s.splitOn ",").mapM parseHexBytes?

/-- the pipe hook needs the descriptor numbers of this very call: rebuild the table entry with them -/
def withFds (hooks : HookTable) (registered : List Nat) (fds : Nat × Nat) : HookTable :=
  if !registered.contains 22 then hooks else
  -- replace hooks in registration order: position of the pipe hook among the "before Syscall" hooks
  let idx := (registered.takeWhile (· != 22)).foldl (fun acc n => acc + (if n == 22 then 3 else 1)) 0
  hooks.map fun (k, e) =>
    if k == "Syscall" then (k, { e with before := e.before.set idx (hookPipe fds) }) else (k, e)

def handleMachine (st : DState) (ws : List String) : Option (DState × String) :=
  match ws with
  | "dec" :: a :: w :: rest => do
    let a ← parseHex? a
    let w ← parseHexBytes? w
    let r ← match rest with
      | ["invalid"] => some DecodeRes.invalid
      | toks => (parseInstr toks).map DecodeRes.instr
    pure ({ st with dec := (a, w, r) :: st.dec }, "-")
  | "step" :: fb =>
    -- feedback token from the implementation's run: @fds=r,w
    let fds : Nat × Nat := match fb with
      | [t] => match (t.drop 5).toString.splitOn "," with
        | [r, w] => ((parseHex? r).getD 0, (parseHex? w).getD 0)
        | _ => (0, 0)
      | _ => (0, 0)
    if st.poisoned then some (st, "unspecified") else
    if !hasDec st.dec st.m then some (st, "no-decode-info") else
    -- a brk that asks for more than 16 MiB: whether the host can allocate it is outside the model, and the model does
    -- not materialise such a list; the implementation's outcome is still judged by the crash oracle
    let bigBrk : Bool := st.m.sys.registered.contains 12 && st.m.regs.get RAX == 12#64 &&
      (st.m.regs.get RDI).toNat > st.m.sys.brkStart + st.m.sys.brkLen + 2 ^ 24
    let brkReq : Nat := (st.m.regs.get RDI).toNat
    if bigBrk && brkReq < st.m.sys.brkStart + st.m.sys.brkLen + 2 ^ 56 then some ({ st with poisoned := true }, "unspecified") else
    -- 2^56 bytes and more no x86-64 host can provide: the resize then fails in the allocator exactly as it fails on a
    -- collision (an error before anything is changed). The model shows this with a one-byte area at the far end of the
    -- requested extent, present for the duration of this step only
    let st0 : DState := if bigBrk then
        match initArea st.m.mem (brkReq - 1) [0] (some "__blocker") with
        | .ok m => { st with m := { st.m with mem := m } }
        | _ => st
      else st
    let unblock (m : Machine) : Machine := if bigBrk then { m with mem := m.mem.filter (fun a => a.name != some "__blocker") } else m
    let st := st0
    -- user hooks registered after the syscall handlers come later in the chain; the builtin pipe hook sits at a
    -- fixed index among the builtin ones
    let hooks := withFds st.hooks st.m.sys.registered fds
    -- with unknown flags an instruction that reads them makes everything unknown
    let readsFlags : Bool := match memReadExec st.m.mem st.m.regs.rip.toNat with
      | .ok w => match decodeFn st.dec st.m w with
        | .instr i => i.mnem.startsWith "J" || i.mnem.startsWith "Cmov" || i.mnem.startsWith "Set" || i.mnem == "Adc"
        | .invalid => false
      | _ => false
    if st.flagsUnknown && readsFlags then some ({ st with m := unblock st.m, poisoned := true }, "unspecified") else
    let r := step hooks (decodeFn st.dec) st.m
    -- a failing instruction handler changes nothing but (possibly) the flags; a failing built-in hook may leave more
    let poisoned := r.out == .panic
    some ({ st with m := unblock r.s, poisoned := poisoned, flagsUnknown := st.flagsUnknown || r.errInExec,
                    lastStepOk := some (match r.out with | .ok _ => true | _ => false) }, stepOutStr r.out)
  | ["execute", fuel] => do
    let fuel ← fuel.toNat?
    if st.poisoned then some (st, "unspecified") else
    if st.flagsUnknown then some ({ st with poisoned := true }, "unspecified") else
    let r := execute st.hooks (decodeFn st.dec) fuel st.m
    let poisoned := r.out == .panic
    pure ({ st with m := r.s, poisoned := poisoned, flagsUnknown := r.errInExec }, match r.out with
      | .ok false => "ok" | .ok true => "fuel" | .err => "err" | .panic => "panic")
  | ["maxinstr", n] => do
    let n ← parseHex? n
    pure ({ st with m := setMaxInstr st.m n }, "-")
  | ["setflags", v] => do
    let v ← parseHex? v
    pure ({ st with m := { st.m with rflags := BitVec.ofNat 64 v }, flagsUnknown := false }, "-")
  | ["setseg", which, v] => do
    let v ← parseHex? v
    match which with
    | "fs" => pure ({ st with m := { st.m with fs := BitVec.ofNat 64 v } }, "-")
    | "gs" => pure ({ st with m := { st.m with gs := BitVec.ofNat 64 v } }, "-")
    | _ => none
  | ["setxmm", i, v] => do
    let i ← i.toNat?
    let v ← parseHex? v
    if h : i < 16 then
      pure ({ st with m := { st.m with regs := { st.m.regs with xmm := st.m.regs.xmm.set i (BitVec.ofNat 128 v) } } }, "-")
    else none
  | ["setxmms", v] =>
    match (v.splitOn ",").mapM parseHex? with
    | some vals =>
      if vals.length = 16 then
        some ({ st with m := { st.m with regs := { st.m.regs with xmm := Vector.ofFn fun i => BitVec.ofNat 128 (vals.getD i.val 0) } } }, "-")
      else none
    | none => none
  | ["xmms"] =>
    if st.poisoned then some (st, "unspecified") else
    some (st, " ".intercalate ((List.finRange 16).map fun i => toHex st.m.regs.xmm[i].toNat))
  | ["state"] => if st.poisoned then some (st, "unspecified") else some (st, stateLine st.m st.flagsUnknown)
  | ["trace"] => if st.poisoned then some (st, "unspecified") else some (st, traceLine st.m.trace)
  | ["callstack"] =>
    if st.poisoned then some (st, "unspecified") else
    some (st, if st.m.callStack.isEmpty then "none" else " ".intercalate (st.m.callStack.map toHex))
  -- the renderers never fail (neither by crashing nor by returning an error), whatever the program did
  | ["render"] => some (st, "ok t=ok c=ok")
  | ["tracetail", n] => do
    let n ← parseHex? n
    if st.poisoned then pure (st, "unspecified") else
    let t := st.m.trace
    let tail := t.drop (t.length - n)
    pure (st, toString t.length ++ " " ++ (if tail.isEmpty then "" else traceLine tail))
  | ["xmmok", i] => do
    let i ← i.toNat?
    match st.lastStepOk with
    | none => pure (st, "unspecified")
    | some false => pure (st, "step-failed")
    | some true =>
      if st.poisoned then pure (st, "unspecified") else
      if h : i < 16 then pure (st, toHex st.m.regs.xmm[i].toNat) else none
  | ["xmm", i] => do
    let i ← i.toNat?
    if st.poisoned then pure (st, "unspecified") else
    if h : i < 16 then pure (st, toHex st.m.regs.xmm[i].toNat) else none
  | ["fill", a, n, v] => do
    let a ← parseHex? a; let n ← parseHex? n; let v ← parseHex? v
    pure (memRes st (memWriteBytes st.m.mem a ((List.replicate n (leBytes 8 v)).flatten)))
  | ["nonative"] => some (st, "-")
  | ["errtext", _] => some (st, "-")
  | ["table"] =>
    -- the implemented instruction forms according to the model's dispatch table
    some (st, " ".intercalate ((table.filter fun (_, h) => match h with | .unimplemented => false | _ => true).map (·.1)))
  | ["log"] => if st.poisoned then some (st, "unspecified") else some (st, if st.m.log.isEmpty then "none" else " ".intercalate st.m.log)
  | ["hook", phase, mn, id, outcome, edit] =>
    let e : Option (Fin 16 × BitVec 64) := match edit.splitOn "=" with
      | [r, v] => match findIdx? gprNames64 r 16, parseHex? v with
        | some i, some v => some (i, BitVec.ofNat 64 v)
        | _, _ => none
      | _ => none
    let f := scriptedHook id phase outcome e
    if phase != "before" && phase != "after" then none else
    match registerHook st.m.hooksRunning st.hooks (phase == "before") mn f with
    | some hooks => some ({ st with hooks := hooks }, "ok")
    | none => some (st, "err")
  | ["hookdup", phase, mn, id, label, outcome, edit] =>
    -- the callback of an earlier `hook` line (same id, label phase, outcome, edit) registered once more, in `phase` for `mn`
    let e : Option (Fin 16 × BitVec 64) := match edit.splitOn "=" with
      | [r, v] => match findIdx? gprNames64 r 16, parseHex? v with
        | some i, some v => some (i, BitVec.ofNat 64 v)
        | _, _ => none
      | _ => none
    let f := scriptedHook id label outcome e
    if phase != "before" && phase != "after" then none else
    match registerHook st.m.hooksRunning st.hooks (phase == "before") mn f with
    | some hooks => some ({ st with hooks := hooks }, "ok")
    | none => some (st, "err")
  | ["syscalls", l] => do
    let ns ← (l.splitOn ",").mapM String.toNat?
    match handleSyscalls st.m.hooksRunning st.hooks st.m.sys.registered ns with
    | none => pure (st, "err")
    | some (hooks, reg) =>
      pure ({ st with hooks := hooks, builtin := !reg.isEmpty, m := { st.m with sys := { st.m.sys with registered := reg } } }, "ok")
  | ["stack", n] => do
    let n ← parseHex? n
    -- whether the host can provide a huge stack is outside the model (the implementation's outcome is judged by the crash oracle)
    if n ≥ 2 ^ 56 then pure (st, "err") else
    if n > 2 ^ 24 then pure ({ st with poisoned := true }, "unspecified") else
    match initStack st.m n with
    | .ok (a, m) => pure ({ st with m := m }, "ok " ++ toHex a)
    | .err => pure (st, "err")
    | .panic => pure (st, "panic")
  | ["stackps", n, argv, envp] => do
    let n ← parseHex? n
    let argv ← parseStrList argv
    let envp ← parseStrList envp
    -- a huge request is only answered when the model rejects it before allocating (size arithmetic leaving 64 bits)
    let failed : DState := { st with poisoned := true, m := { st.m with mem := stringsLeftBehind st.m.mem argv envp } }
    if n ≥ 2 ^ 56 && (u64add n ((argv.length + envp.length + 3) * 8 + 48)).isSome then pure (failed, "err") else
    if n > 2 ^ 24 && (u64add n ((argv.length + envp.length + 3) * 8 + 48)).isSome then
      pure (failed, "unspecified") else
    match initStackProgramStart st.m n argv envp with
    | .ok (a, m) => pure ({ st with m := m }, "ok " ++ toHex a)
    | .err => pure (failed, "err")
    | .panic => pure (st, "panic")
  | ["cpreg", dst, src, delta] => do
    let d ← findIdx? gprNames64 dst 16
    let sr ← findIdx? gprNames64 src 16
    let delta ← parseHex? delta
    let v := st.m.regs.get sr + BitVec.ofNat 64 delta
    pure ({ st with m := { st.m with regs := st.m.regs.set d v } }, "ok " ++ toHex v.toNat)
  | ["ldregq", r, a] => do
    let i ← findIdx? gprNames64 r 16
    let a ← parseHex? a
    match memReadN st.m.mem 8 a with
    | .ok v => pure ({ st with m := { st.m with regs := st.m.regs.set i (BitVec.ofNat 64 v) } }, "ok")
    | .err => pure (st, "err")
    | .panic => pure (st, "panic")
  | ["stat", ra, v] => do
    let ia ← findIdx? gprNames64 ra 16
    let v ← parseHex? v
    pure (memRes st (memWriteN st.m.mem 8 (st.m.regs.get ia).toNat v))
  | ["ldat", r, ra] => do
    let i ← findIdx? gprNames64 r 16
    let ia ← findIdx? gprNames64 ra 16
    match memReadN st.m.mem 8 (st.m.regs.get ia).toNat with
    | .ok v => pure ({ st with m := { st.m with regs := st.m.regs.set i (BitVec.ofNat 64 v) } }, "ok " ++ toHex v)
    | .err => pure (st, "err")
    | .panic => pure (st, "panic")
  | ["ldreg", r, a] => do
    let i ← findIdx? gprNames64 r 16
    let a ← parseHex? a
    match memReadN st.m.mem 8 a with
    | .ok v => pure ({ st with m := { st.m with regs := st.m.regs.set i (BitVec.ofNat 64 v) } }, "ok " ++ toHex v)
    | .err => pure (st, "err")
    | .panic => pure (st, "panic")
  | ["sys"] =>
    if st.poisoned then some (st, "unspecified") else
    some (st, s!"brk={toHex st.m.sys.brkStart},{toHex st.m.sys.brkLen} pipes=" ++
      (if st.m.sys.pipes.isEmpty then "none" else
        ";".intercalate (((st.m.sys.pipes.toArray.qsort (fun a b => a.1 < b.1)).toList).map fun (r, w, c) => s!"{toHex r},{toHex w},{bytesToHex c}")))
  | _ => none

/-! ### ELF view (`@view=` feedback of `elfload`) -/

def parseSeg (t : String) : Option ElfSeg :=
  match ((t.drop 1).toString.splitOn ",").mapM parseHex? with
  | some [ty, fl, off, va, fsz, msz] => some { ptype := ty, flags := fl, offset := off, vaddr := va, filesz := fsz, memsz := msz }
  | _ => none

def parseSym (t : String) : Option ElfSym :=
  match (t.drop 1).toString.splitOn "," with
  | [v, u, n] => do
    let v ← parseHex? v
    let name : Option (Option String) :=
      if n == "!" then some none
      else if n == "-" then some (some "")
      else match parseHexBytes? n with
        | some bs => some (some (String.fromUTF8! (ByteArray.mk (bs.map (fun b => UInt8.ofNat b.toNat)).toArray)))
        | none => none
    let name ← name
    pure { value := v, undef := u == "1", name := name }
  | _ => none

/-- `none`: malformed token; `some none`: the crate's `minimal_parse` failed -/
def parseView (t : String) : Option (Option ElfView) :=
  if !t.startsWith "@view=" then none else
  let body := (t.drop 6).toString
  if body == "P" then some none else
  match body.splitOn ";" with
  | e :: rest => do
    let entry ← parseHex? (e.drop 1).toString
    if rest == ["N"] then pure (some { entry := entry, segs := none, syms := none }) else
    let segToks := rest.takeWhile (fun x => x.startsWith "S")
    let tail := rest.dropWhile (fun x => x.startsWith "S")
    let segs ← segToks.mapM parseSeg
    match tail with
    | "U" :: _ => pure (some { entry := entry, segs := some segs, syms := none })
    | "T" :: ys => do
      let ys ← ys.mapM parseSym
      pure (some { entry := entry, segs := some segs, syms := some ys })
    | _ => none
  | _ => none

def poisonable (ws : List String) : Bool :=
  match ws with
  | "dec" :: _ => false
  | _ => true

def handleNew (st : DState) (code start rip : String) : DState × String :=
  match parseHexBytes? code, parseHex? start, parseHex? rip with
  | some c, some s, some r =>
    match Machine.new Regs.zero c s r with
    | .ok m => ({ m := m }, "ok")
    | .err => (st, "err")
    | .panic => (st, "panic")
  | _, _, _ => (st, "bad-op")

def handle (st : DState) (ws : List String) : DState × String :=
  if st.muted && !(match ws with | w :: _ => w == "new" || w == "newraw" | [] => false) then (st, "unspecified") else
  match ws with
  | ["nomodel"] => ({ st with muted := true }, "-")
  | ["new"] =>
    match Machine.new Regs.zero [0x90#8] 0x1000 0x1000 with
    | .ok s => ({ m := s }, "ok")
    | .err => (st, "err")
    | .panic => (st, "panic")
  | ["new", code, start, rip] => handleNew st code start rip
  | ["newraw", code, start, rip] => handleNew st code start rip
  | ["elfload", file, fb] =>
    match parseHexBytes? file, parseView fb with
    | some bytes, some none => (st, "err")
    | some bytes, some (some v) =>
      -- areas of more than 16 MiB are not materialised as lists here (the theorems do not care; the implementation's
      -- outcome is still judged by the crash oracle)
      let big := match v.segs with
        | some segs => segs.any (fun sg => sg.ptype == PT_LOAD && sg.vaddr != 0 && sg.memsz > 2 ^ 24 && sg.memsz ≤ MAX_IMAGE_SIZE)
        | none => false
      if big then ({ st with poisoned := true }, "unspecified") else
      match fromBinary Regs.zero bytes v with
      | .ok m => ({ m := m }, "ok")
      | .err => (st, "err")
      | .panic => (st, "panic")
    | _, _ => (st, "bad-op")
  | ["perm", a] =>
    if st.poisoned then (st, "unspecified") else
    match parseHex? a with
    | some a => (st, match findArea st.m.mem a with | some ar => toHex ar.access | none => "none")
    | none => (st, "bad-op")
  | ["sym", a] =>
    if st.poisoned then (st, "unspecified") else
    match parseHex? a with
    | some a => (st, match symLookup st.m.symbols a with
        | some n => "some " ++ (if n.isEmpty then "-" else bytesToHex (n.toUTF8.toList.map (fun b => BitVec.ofNat 8 b.toNat)))
        | none => "none")
    | none => (st, "bad-op")
  | ["symcount"] =>
    if st.poisoned then (st, "unspecified") else (st, toHex st.m.symbols.length)
  | _ =>
    if st.poisoned && poisonable ws then (st, "unspecified") else
    match handleReg st ws with
    | some r => r
    | none =>
      match handleMem st ws with
      | some r => r
      | none =>
        match handleMachine st ws with
        | some r => r
        | none => (st, "bad-op")

partial def loop (h : IO.FS.Stream) (out : IO.FS.Stream) (st : DState) : IO Unit := do
  let line ← h.getLine
  if line.isEmpty then return ()
  let ws := (line.trimAscii.toString.splitOn " ").filter (· ≠ "")
  let (st', o) := handle st ws
  out.putStrLn o
  out.flush
  loop h out st'

def main : IO Unit := do
  let stdin ← IO.getStdin
  let stdout ← IO.getStdout
  loop stdin stdout {}
