/-
  axdriver — line-protocol driver of the executable model.
  One command per input line, exactly one output line per command.
-/
import AxVerif.Model.Parse
import AxVerif.Model.Machine
open Ax

abbrev DState := Machine

def regsLine (r : Regs) : String :=
  " ".intercalate ((List.finRange 16).map fun i => toHex (r.get i).toNat) ++ " " ++ toHex r.rip.toNat

def areaLine (ar : Area) : String :=
  s!"{optName ar.name},{toHex ar.start},{toHex ar.len},{ar.access},{toHex ar.data.length},{toHex (fnv64 ar.data)}"

def unitOut : Out Unit → String := outStr (fun _ => "ok")

def memRes (st : DState) (r : Out Mem) : DState × String :=
  match r with
  | .ok m => ({ st with mem := m }, "ok")
  | .err => (st, "err")
  | .panic => (st, "panic")

def addrRes (st : DState) (r : Out (Nat × Mem)) : DState × String :=
  match r with
  | .ok (a, m) => ({ st with mem := m }, "ok " ++ toHex a)
  | .err => (st, "err")
  | .panic => (st, "panic")

def handleReg (st : DState) (ws : List String) : Option (DState × String) :=
  match ws with
  | ["setregs", v] =>
    match (v.splitOn ",").mapM parseHex? with
    | some vals =>
      if vals.length = 17 then
        let r : Regs := { st.regs with
          gpr := Vector.ofFn fun i => BitVec.ofNat 64 (vals.getD i.val 0),
          rip := BitVec.ofNat 64 (vals.getD 16 0) }
        some ({ st with regs := r }, "-")
      else none
    | none => none
  | ["rw", w, r, v] =>
    match w.toNat?, parseReg? r, parseHex? v with
    | some w, some r, some v =>
      if v < U64 then
        let (s', res) := regStep st.regs (.write w r (BitVec.ofNat 64 v))
        some ({ st with regs := s' }, match res with
          | .wrote => "ok" | .rejected => "err" | .crashed => "panic" | .value _ => "bad")
      else none
    | _, _, _ => none
  | ["rr", w, r] =>
    match w.toNat?, parseReg? r with
    | some w, some r =>
      let (s', res) := regStep st.regs (.read w r)
      some ({ st with regs := s' }, match res with
        | .value v => "ok " ++ toHex v.toNat | .rejected => "err" | .crashed => "panic" | .wrote => "bad")
    | _, _ => none
  | ["regs"] => some (st, regsLine st.regs)
  | _ => none

def handleMem (st : DState) (ws : List String) : Option (DState × String) :=
  match ws with
  | ["mrb", a, n] => do
    let a ← parseHex? a; let n ← parseHex? n
    pure (st, outStr (fun bs => "ok " ++ bytesToHex bs) (memReadBytes st.mem a n))
  | ["mwb", a, d] => do
    let a ← parseHex? a; let d ← parseHexBytes? d
    pure (memRes st (memWriteBytes st.mem a d))
  | ["mr", n, a] => do
    let n ← n.toNat?; let a ← parseHex? a
    pure (st, outStr (fun v => "ok " ++ toHex v) (memReadN st.mem n a))
  | ["mw", n, a, v] => do
    let n ← n.toNat?; let a ← parseHex? a; let v ← parseHex? v
    pure (memRes st (memWriteN st.mem n a v))
  | ["mrx", a] => do
    let a ← parseHex? a
    pure (st, outStr (fun bs => "ok " ++ bytesToHex bs) (memReadExec st.mem a))
  | ["area", s, d, nm] => do
    let s ← parseHex? s; let d ← parseHexBytes? d
    pure (memRes st (initArea st.mem s d (parseName nm)))
  | ["zero", s, n, nm] => do
    let s ← parseHex? s; let n ← parseHex? n
    pure (memRes st (initZero st.mem s n (parseName nm)))
  | ["prot", s, p] => do
    let s ← parseHex? s; let p ← parseHex? p
    pure (memRes st (memProt st.mem s p))
  | ["resize", s, n] => do
    let s ← parseHex? s; let n ← parseHex? n
    pure (memRes st (resizeSection st.mem s n))
  | ["anyz", n] => do
    let n ← parseHex? n
    pure (addrRes st (initZeroAnywhere st.mem n))
  | ["any", d, nm] => do
    let d ← parseHexBytes? d
    pure (addrRes st (initAnywhere st.mem d (parseName nm)))
  | ["areas"] => some (st, if st.mem.isEmpty then "none" else " ".intercalate (st.mem.map areaLine))
  | _ => none

def handle (st : DState) (ws : List String) : DState × String :=
  match ws with
  | ["new"] =>
    match Machine.new Regs.zero [0x90#8] 0x1000 0x1000 with
    | .ok s => (s, "ok")
    | .err => (st, "err")
    | .panic => (st, "panic")
  | ["new", code, start, rip] =>
    match parseHexBytes? code, parseHex? start, parseHex? rip with
    | some c, some s, some r =>
      match Machine.new Regs.zero c s r with
      | .ok m => (m, "ok")
      | .err => (st, "err")
      | .panic => (st, "panic")
    | _, _, _ => (st, "bad-op")
  | _ =>
    match handleReg st ws with
    | some r => r
    | none =>
      match handleMem st ws with
      | some r => r
      | none => (st, "bad-op")

partial def loop (h : IO.FS.Stream) (out : IO.FS.Stream) (st : DState) : IO Unit := do
  let line ← h.getLine
  if line.isEmpty then return ()
  let ws := (line.trimAscii.toString.splitOn " ").filter (· ≠ "")
  let (st', o) := handle st ws
  out.putStrLn o
  out.flush
  loop h out st'

def main : IO Unit := do
  let stdin ← IO.getStdin
  let stdout ← IO.getStdout
  loop stdin stdout {}
