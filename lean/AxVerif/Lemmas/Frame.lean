/-
  Frame lemmas: which parts of the machine the instruction helpers can change.

  `Machine.ctl` collects everything that is not architectural state (loop control, hook flag,
  syscall bookkeeping, symbols, log): no instruction handler touches it.
-/
import AxVerif.Model.Step
namespace Ax

/-- the non-architectural part of the machine -/
structure Ctl where
  finished : Bool
  count : Nat
  maxInstr : Option Nat
  codeEnd : Nat
  stackTop : Nat
  hooksRunning : Bool
  sys : SysState
  symbols : List (Nat × String)
  log : List String
deriving DecidableEq

def Machine.ctl (s : Machine) : Ctl :=
  ⟨s.finished, s.count, s.maxInstr, s.codeEnd, s.stackTop, s.hooksRunning, s.sys, s.symbols, s.log⟩

/-- `s'` differs from `s` at most in registers, flags, memory, trace (not call stack, not control) -/
def SameCtl (s s' : Machine) : Prop :=
  s'.ctl = s.ctl ∧ s'.callStack = s.callStack ∧ s'.fs = s.fs ∧ s'.gs = s.gs

theorem SameCtl.refl (s : Machine) : SameCtl s s := ⟨rfl, rfl, rfl, rfl⟩

theorem SameCtl.trans {a b c : Machine} (h1 : SameCtl a b) (h2 : SameCtl b c) : SameCtl a c :=
  ⟨h2.1.trans h1.1, h2.2.1.trans h1.2.1, h2.2.2.1.trans h1.2.2.1, h2.2.2.2.trans h1.2.2.2⟩

theorem writeReg_same {s s' : Machine} {w r v} (h : writeReg s w r v = .ok s') :
    SameCtl s s' ∧ s'.mem = s.mem ∧ s'.rflags = s.rflags ∧ s'.trace = s.trace := by
  unfold writeReg at h
  split at h <;> simp only [reduceCtorEq, Out.ok.injEq] at h
  subst h
  exact ⟨⟨rfl, rfl, rfl, rfl⟩, rfl, rfl, rfl⟩

theorem writeMem_same {s s' : Machine} {w a v} (h : writeMem s w a v = .ok s') :
    SameCtl s s' ∧ s'.regs = s.regs ∧ s'.rflags = s.rflags ∧ s'.trace = s.trace ∧
    memWriteN s.mem (w / 8) a.toNat v.toNat = .ok s'.mem := by
  unfold writeMem Machine.withMem at h
  split at h <;> simp only [reduceCtorEq, Out.ok.injEq] at h
  subst h
  rename_i m hm
  exact ⟨⟨rfl, rfl, rfl, rfl⟩, rfl, rfl, rfl, hm⟩

theorem setFlagsW_same {s s' : Machine} {w set clear res} (h : setFlagsW s w set clear res = .ok s') :
    SameCtl s s' ∧ s'.regs = s.regs ∧ s'.mem = s.mem ∧ s'.trace = s.trace := by
  unfold setFlagsW at h
  split at h <;> simp only [reduceCtorEq, Out.ok.injEq] at h
  subst h
  exact ⟨⟨rfl, rfl, rfl, rfl⟩, rfl, rfl, rfl⟩

theorem writeXmm_same {s s' : Machine} {r v} (h : writeXmm s r v = .ok s') :
    SameCtl s s' ∧ s'.mem = s.mem ∧ s'.rflags = s.rflags ∧ s'.trace = s.trace := by
  unfold writeXmm at h
  split at h <;> simp only [reduceCtorEq, Out.ok.injEq] at h
  subst h
  exact ⟨⟨rfl, rfl, rfl, rfl⟩, rfl, rfl, rfl⟩

theorem addTrace_same {s s' : Machine} {i t v} (h : addTrace s i t v = .ok s') :
    SameCtl s s' ∧ s'.regs = s.regs ∧ s'.mem = s.mem ∧ s'.rflags = s.rflags := by
  unfold addTrace at h
  simp only [Out.ok.injEq] at h
  subst h
  exact ⟨⟨rfl, rfl, rfl, rfl⟩, rfl, rfl, rfl⟩

/-- memory after a helper: either untouched or the result of one `memWriteN` on the old memory -/
def MemStep (m m' : Mem) : Prop := m' = m ∨ ∃ n a v, memWriteN m n a v = .ok m' ∨ ∃ bs, memWriteBytes m a bs = .ok m'

theorem MemStep.refl (m : Mem) : MemStep m m := Or.inl rfl

theorem writeRM_same {s s' : Machine} {w o v} (h : writeRM s w o v = .ok s') :
    SameCtl s s' ∧ s'.rflags = s.rflags ∧ s'.trace = s.trace ∧ MemStep s.mem s'.mem := by
  unfold writeRM at h
  split at h
  · have := writeReg_same h
    exact ⟨this.1, this.2.2.1, this.2.2.2, Or.inl this.2.1⟩
  · split at h
    · have := writeMem_same h
      exact ⟨this.1, this.2.2.1, this.2.2.2.1, Or.inr ⟨_, _, _, Or.inl this.2.2.2.2⟩⟩
    · cases h
    · cases h
  · cases h

theorem finish_same {s s' : Machine} {w dest set clear fl res} (h : finish s w dest set clear fl res = .ok s') :
    SameCtl s s' ∧ s'.trace = s.trace ∧ MemStep s.mem s'.mem := by
  unfold finish at h
  split at h
  · rename_i s1 h1
    have f := setFlagsW_same h1
    split at h
    · have g := writeRM_same h
      refine ⟨f.1.trans g.1, g.2.2.1.trans f.2.2.2, ?_⟩
      rw [← f.2.2.1]; exact g.2.2.2
    · simp only [Out.ok.injEq] at h; subst h
      exact ⟨f.1, f.2.2.2, Or.inl f.2.2.1⟩
  · cases h
  · cases h

end Ax

namespace Ax

/-- close a goal `SameCtl s s' ∧ …` once `h` has been split down to a helper call -/
macro "frame_leaves" h:ident : tactic => `(tactic|
  all_goals first
    | (cases $h:ident; done)
    | (simp only [reduceCtorEq] at $h:ident; done)
    | exact (finish_same $h).1
    | exact (setFlagsW_same $h).1
    | exact (writeReg_same $h).1
    | exact (writeRM_same $h).1
    | exact (writeXmm_same $h).1
    | exact (writeMem_same $h).1)

theorem calcRmR_same {s s' : Machine} {i w sw op set clear} (h : calcRmR s i w sw op set clear = .ok s') :
    SameCtl s s' := by
  unfold calcRmR at h
  repeat' split at h
  frame_leaves h

theorem calcRRm_same {s s' : Machine} {i w sw df op set clear} (h : calcRRm s i w sw df op set clear = .ok s') :
    SameCtl s s' := by
  unfold calcRRm at h
  repeat' split at h
  frame_leaves h

theorem calcRmImm_same {s s' : Machine} {i w sw op set clear} (h : calcRmImm s i w sw op set clear = .ok s') :
    SameCtl s s' := by
  unfold calcRmImm at h
  repeat' split at h
  frame_leaves h

theorem calcRm_same {s s' : Machine} {i w op set clear} (h : calcRm s i w op set clear = .ok s') :
    SameCtl s s' := by
  unfold calcRm at h
  repeat' split at h
  frame_leaves h

theorem execTest_same {s s' : Machine} {i w imm} (h : execTest s i w imm = .ok s') : SameCtl s s' := by
  unfold execTest at h
  repeat' split at h
  all_goals try dsimp only at h
  repeat' split at h
  frame_leaves h

end Ax

namespace Ax

/-- control fields and segment bases unchanged (the call stack may differ: CALL/RET) -/
def CtlOnly (s s' : Machine) : Prop := s'.ctl = s.ctl ∧ s'.fs = s.fs ∧ s'.gs = s.gs

theorem SameCtl.ctlOnly {s s' : Machine} (h : SameCtl s s') : CtlOnly s s' := ⟨h.1, h.2.2.1, h.2.2.2⟩

theorem CtlOnly.trans {a b c : Machine} (h1 : CtlOnly a b) (h2 : CtlOnly b c) : CtlOnly a c :=
  ⟨h2.1.trans h1.1, h2.2.1.trans h1.2.1, h2.2.2.trans h1.2.2⟩

theorem setRip_same (s : Machine) (v) : SameCtl s (setRip s v) := ⟨rfl, rfl, rfl, rfl⟩

theorem pushVal_same {s s' : Machine} {n v} (h : pushVal s n v = .ok s') : SameCtl s s' := by
  unfold pushVal at h
  dsimp only at h
  split at h
  · rename_i s1 h1
    simp only [Out.ok.injEq] at h
    subst h
    have := (writeMem_same h1).1
    exact ⟨this.1, this.2.1, this.2.2.1, this.2.2.2⟩
  · cases h
  · cases h

theorem takeBranch_same {s s' : Machine} {i} (h : takeBranch s i = .ok s') : SameCtl s s' := by
  unfold takeBranch at h
  split at h
  · split at h
    · rename_i s1 h1
      simp only [Out.ok.injEq] at h; subst h
      exact (addTrace_same h1).1.trans (setRip_same _ _)
    · cases h
    · cases h
  · cases h

theorem execCallTo_ctl {s s' : Machine} {i t} (h : execCallTo s i t = .ok s') : CtlOnly s s' := by
  unfold execCallTo pushRip at h
  split at h
  · cases h
  · cases h
  · rename_i s1 h1
    split at h
    · cases h
    · cases h
    · rename_i s2 h2
      simp only [Out.ok.injEq] at h; subst h
      have a := (pushVal_same h1).ctlOnly
      have b := (addTrace_same h2).1.ctlOnly
      exact (a.trans b).trans ⟨rfl, rfl, rfl⟩

theorem execRet_ctl {s s' : Machine} {i} (h : execRet s i = .ok s') : CtlOnly s s' := by
  unfold execRet at h
  dsimp only at h
  split at h
  · cases h
  · split at h
    · cases h
    · cases h
    · split at h
      · cases h
      · cases h
      · rename_i s2 h2
        simp only [ExecRes.ok.injEq] at h; subst h
        have b := (addTrace_same h2).1.ctlOnly
        exact CtlOnly.trans (⟨rfl, rfl, rfl⟩ : CtlOnly s { s with callStack := s.callStack.dropLast }) (b.trans ⟨rfl, rfl, rfl⟩)

theorem ofOut_ok {o : Out Machine} {s' : Machine} (h : ExecRes.ofOut o = .ok s') : o = .ok s' := by
  cases o <;> simp [ExecRes.ofOut] at h
  rw [h]

end Ax

namespace Ax

theorem writeProduct_same {s s' : Machine} {w p} (h : writeProduct s w p = .ok s') : SameCtl s s' := by
  unfold writeProduct at h
  split at h
  · exact (writeReg_same h).1
  · split at h
    · rename_i s1 h1
      exact (writeReg_same h1).1.trans (writeReg_same h).1
    · cases h
    · cases h

theorem writeQuotRem_same {s s' : Machine} {w q r} (h : writeQuotRem s w q r = .ok s') : SameCtl s s' := by
  unfold writeQuotRem at h
  split at h
  · rename_i s1 h1
    exact (writeReg_same h1).1.trans (writeReg_same h).1
  · cases h
  · cases h

theorem mulFlags_same {s s' : Machine} {fw ovf} (h : mulFlags s fw ovf = .ok s') : SameCtl s s' :=
  (setFlagsW_same h).1

macro "mul_leaf" h:ident : tactic => `(tactic|
  first
    | (cases $h:ident; done)
    | (simp only [reduceCtorEq] at $h:ident; done)
    | exact (mulFlags_same $h)
    | exact (writeQuotRem_same $h)
    | exact ((writeProduct_same ‹_›).trans (mulFlags_same $h))
    | exact ((writeReg_same ‹_›).1.trans (mulFlags_same $h)))

theorem execMul_same {s s' : Machine} {i w} (h : execMul s i w = .ok s') : SameCtl s s' := by
  unfold execMul at h
  repeat' split at h
  all_goals try dsimp only at h
  repeat' split at h
  all_goals mul_leaf h

theorem execImul1_same {s s' : Machine} {i w} (h : execImul1 s i w = .ok s') : SameCtl s s' := by
  unfold execImul1 at h
  repeat' split at h
  all_goals try dsimp only at h
  repeat' split at h
  all_goals mul_leaf h

theorem execImul2_same {s s' : Machine} {i w} (h : execImul2 s i w = .ok s') : SameCtl s s' := by
  unfold execImul2 at h
  repeat' split at h
  all_goals try dsimp only at h
  repeat' split at h
  all_goals mul_leaf h

theorem execImul3_same {s s' : Machine} {i w} (h : execImul3 s i w = .ok s') : SameCtl s s' := by
  unfold execImul3 at h
  repeat' split at h
  all_goals try dsimp only at h
  repeat' split at h
  all_goals mul_leaf h

theorem execDiv_same {s s' : Machine} {i w} (h : execDiv s i w = .ok s') : SameCtl s s' := by
  unfold execDiv at h
  repeat' split at h
  all_goals try dsimp only at h
  repeat' split at h
  all_goals mul_leaf h

theorem execIdiv_same {s s' : Machine} {i w} (h : execIdiv s i w = .ok s') : SameCtl s s' := by
  unfold execIdiv at h
  repeat' split at h
  all_goals try dsimp only at h
  repeat' split at h
  all_goals mul_leaf h

theorem withMem_same {s s' : Machine} {r : Out Mem} (h : s.withMem r = .ok s') : SameCtl s s' := by
  unfold Machine.withMem at h
  split at h <;> simp only [reduceCtorEq, Out.ok.injEq] at h
  subst h
  exact ⟨rfl, rfl, rfl, rfl⟩

macro "ctl_leaf" h:ident : tactic => `(tactic|
  first
    | (cases $h:ident; done)
    | (simp only [reduceCtorEq] at $h:ident; done)
    | exact (finish_same $h).1.ctlOnly
    | exact (calcRmR_same $h).ctlOnly
    | exact (calcRRm_same $h).ctlOnly
    | exact (calcRmImm_same $h).ctlOnly
    | exact (calcRm_same $h).ctlOnly
    | exact (execTest_same $h).ctlOnly
    | exact (takeBranch_same $h).ctlOnly
    | exact (pushVal_same $h).ctlOnly
    | exact execCallTo_ctl $h
    | exact execRet_ctl $h
    | exact (execMul_same $h).ctlOnly
    | exact (execImul1_same $h).ctlOnly
    | exact (execImul2_same $h).ctlOnly
    | exact (execImul3_same $h).ctlOnly
    | exact (execDiv_same $h).ctlOnly
    | exact (execIdiv_same $h).ctlOnly
    | exact (setFlagsW_same $h).1.ctlOnly
    | exact (writeReg_same $h).1.ctlOnly
    | exact (writeRM_same $h).1.ctlOnly
    | exact (writeXmm_same $h).1.ctlOnly
    | exact (writeMem_same $h).1.ctlOnly
    | exact (withMem_same $h).ctlOnly
    | (simp only [Out.ok.injEq, ExecRes.ok.injEq] at $h:ident; subst $h:ident; exact ⟨rfl, rfl, rfl⟩)
    | (simp only [Out.ok.injEq] at $h:ident; subst $h:ident
       exact ((addTrace_same ‹_›).1.trans (setRip_same _ _)).ctlOnly))

/-- **No instruction touches the control state**: finished, executed count, limit, code end, stack
    top, the hook flag, syscall bookkeeping, symbols — nor the segment bases. -/
theorem exec_ctl {hh : HasHooks} {i : Instr} {s s' : Machine} (h : exec hh i s = .ok s') : CtlOnly s s' := by
  unfold exec at h
  split at h
  · cases h
  · split at h
    all_goals try (replace h := ofOut_ok h)
    all_goals try dsimp only at h
    all_goals repeat' split at h
    all_goals try dsimp only at h
    all_goals repeat' split at h
    all_goals try (replace h := ofOut_ok h)
    all_goals ctl_leaf h

end Ax
