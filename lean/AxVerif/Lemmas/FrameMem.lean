/-
  AxVerif.Lemmas.FrameMem — the memory effect of every instruction handler: memory is either untouched or the result
  of exactly one store through the write primitive (`MemStep`).  Same proof scheme as `exec_ctl`.
-/
import AxVerif.Lemmas.Frame
namespace Ax
open Ax

/-- memory-effect leaves: after `h` has been split down to one helper call -/
macro "mem_leaves" h:ident : tactic => `(tactic|
  all_goals first
    | (cases $h:ident; done)
    | (simp only [reduceCtorEq] at $h:ident; done)
    | exact (finish_same $h).2.2
    | exact Or.inl (setFlagsW_same $h).2.2.1
    | exact Or.inl (writeReg_same $h).2.1
    | exact (writeRM_same $h).2.2.2
    | exact Or.inl (writeXmm_same $h).2.1
    | exact Or.inr ⟨_, _, _, Or.inl (writeMem_same $h).2.2.2.2⟩)

theorem calcRmR_mem {s s' : Machine} {i w sw op set clear} (h : calcRmR s i w sw op set clear = .ok s') :
    MemStep s.mem s'.mem := by
  unfold calcRmR at h
  repeat' split at h
  mem_leaves h

theorem calcRRm_mem {s s' : Machine} {i w sw df op set clear} (h : calcRRm s i w sw df op set clear = .ok s') :
    MemStep s.mem s'.mem := by
  unfold calcRRm at h
  repeat' split at h
  mem_leaves h

theorem calcRmImm_mem {s s' : Machine} {i w sw op set clear} (h : calcRmImm s i w sw op set clear = .ok s') :
    MemStep s.mem s'.mem := by
  unfold calcRmImm at h
  repeat' split at h
  mem_leaves h

theorem calcRm_mem {s s' : Machine} {i w op set clear} (h : calcRm s i w op set clear = .ok s') :
    MemStep s.mem s'.mem := by
  unfold calcRm at h
  repeat' split at h
  mem_leaves h

theorem execTest_mem {s s' : Machine} {i w imm} (h : execTest s i w imm = .ok s') : MemStep s.mem s'.mem := by
  unfold execTest at h
  repeat' split at h
  all_goals try dsimp only at h
  repeat' split at h
  mem_leaves h
/-! ### helpers that leave memory alone -/

theorem writeProduct_memeq {s s' : Machine} {w p} (h : writeProduct s w p = .ok s') : s'.mem = s.mem := by
  unfold writeProduct at h
  split at h
  · exact (writeReg_same h).2.1
  · split at h
    · rename_i s1 h1
      exact (writeReg_same h).2.1.trans (writeReg_same h1).2.1
    · cases h
    · cases h

theorem writeQuotRem_memeq {s s' : Machine} {w q r} (h : writeQuotRem s w q r = .ok s') : s'.mem = s.mem := by
  unfold writeQuotRem at h
  split at h
  · rename_i s1 h1
    exact (writeReg_same h).2.1.trans (writeReg_same h1).2.1
  · cases h
  · cases h

theorem mulFlags_memeq {s s' : Machine} {fw ovf} (h : mulFlags s fw ovf = .ok s') : s'.mem = s.mem :=
  (setFlagsW_same h).2.2.1

macro "mul_mem_leaf" h:ident : tactic => `(tactic|
  first
    | (cases $h:ident; done)
    | (simp only [reduceCtorEq] at $h:ident; done)
    | exact (mulFlags_memeq $h)
    | exact (writeQuotRem_memeq $h)
    | exact ((mulFlags_memeq $h).trans (writeProduct_memeq ‹_›))
    | exact ((mulFlags_memeq $h).trans (writeReg_same ‹_›).2.1))

theorem execMul_memeq {s s' : Machine} {i w} (h : execMul s i w = .ok s') : s'.mem = s.mem := by
  unfold execMul at h
  repeat' split at h
  all_goals try dsimp only at h
  repeat' split at h
  all_goals mul_mem_leaf h

theorem execImul1_memeq {s s' : Machine} {i w} (h : execImul1 s i w = .ok s') : s'.mem = s.mem := by
  unfold execImul1 at h
  repeat' split at h
  all_goals try dsimp only at h
  repeat' split at h
  all_goals mul_mem_leaf h

theorem execImul2_memeq {s s' : Machine} {i w} (h : execImul2 s i w = .ok s') : s'.mem = s.mem := by
  unfold execImul2 at h
  repeat' split at h
  all_goals try dsimp only at h
  repeat' split at h
  all_goals mul_mem_leaf h

theorem execImul3_memeq {s s' : Machine} {i w} (h : execImul3 s i w = .ok s') : s'.mem = s.mem := by
  unfold execImul3 at h
  repeat' split at h
  all_goals try dsimp only at h
  repeat' split at h
  all_goals mul_mem_leaf h

theorem execDiv_memeq {s s' : Machine} {i w} (h : execDiv s i w = .ok s') : s'.mem = s.mem := by
  unfold execDiv at h
  repeat' split at h
  all_goals try dsimp only at h
  repeat' split at h
  all_goals mul_mem_leaf h

theorem execIdiv_memeq {s s' : Machine} {i w} (h : execIdiv s i w = .ok s') : s'.mem = s.mem := by
  unfold execIdiv at h
  repeat' split at h
  all_goals try dsimp only at h
  repeat' split at h
  all_goals mul_mem_leaf h

theorem takeBranch_memeq {s s' : Machine} {i} (h : takeBranch s i = .ok s') : s'.mem = s.mem := by
  unfold takeBranch at h
  split at h
  · split at h
    · rename_i s1 h1
      simp only [Out.ok.injEq] at h; subst h
      exact (addTrace_same h1).2.2.1
    · cases h
    · cases h
  · cases h

theorem execRet_memeq {s s' : Machine} {i} (h : execRet s i = .ok s') : s'.mem = s.mem := by
  unfold execRet at h
  dsimp only at h
  split at h
  · cases h
  · split at h
    · cases h
    · cases h
    · split at h
      · cases h
      · cases h
      · rename_i s2 h2
        simp only [ExecRes.ok.injEq] at h; subst h
        exact (addTrace_same h2).2.2.1

/-! ### the two stack stores -/

theorem pushVal_mem {s s' : Machine} {n v} (h : pushVal s n v = .ok s') : MemStep s.mem s'.mem := by
  unfold pushVal at h
  dsimp only at h
  split at h
  · rename_i s1 h1
    simp only [Out.ok.injEq] at h
    subst h
    exact Or.inr ⟨_, _, _, Or.inl (writeMem_same h1).2.2.2.2⟩
  · cases h
  · cases h

theorem execCallTo_mem {s s' : Machine} {i t} (h : execCallTo s i t = .ok s') : MemStep s.mem s'.mem := by
  unfold execCallTo pushRip at h
  split at h
  · cases h
  · cases h
  · rename_i s1 h1
    split at h
    · cases h
    · cases h
    · rename_i s2 h2
      simp only [Out.ok.injEq] at h; subst h
      have a := pushVal_mem h1
      have b := (addTrace_same h2).2.2.1
      simp only [setRip]
      rw [b]; exact a

theorem withMem_mem {s s' : Machine} {m n a v} (hm : s.mem = m) (h : s.withMem (memWriteN m n a v) = .ok s') :
    MemStep s.mem s'.mem := by
  unfold Machine.withMem at h
  split at h <;> simp only [reduceCtorEq, Out.ok.injEq] at h
  subst h
  rename_i m' hm'
  exact Or.inr ⟨n, a, v, Or.inl (by rw [hm]; exact hm')⟩

theorem withMem_memB {s s' : Machine} {m a bs} (hm : s.mem = m) (h : s.withMem (memWriteBytes m a bs) = .ok s') :
    MemStep s.mem s'.mem := by
  unfold Machine.withMem at h
  split at h <;> simp only [reduceCtorEq, Out.ok.injEq] at h
  subst h
  rename_i m' hm'
  exact Or.inr ⟨0, a, 0, Or.inr ⟨bs, by rw [hm]; exact hm'⟩⟩

macro "exec_mem_leaf" h:ident : tactic => `(tactic|
  first
    | (cases $h:ident; done)
    | (simp only [reduceCtorEq] at $h:ident; done)
    | exact (finish_same $h).2.2
    | exact calcRmR_mem $h
    | exact calcRRm_mem $h
    | exact calcRmImm_mem $h
    | exact calcRm_mem $h
    | exact execTest_mem $h
    | exact Or.inl (takeBranch_memeq $h)
    | exact pushVal_mem $h
    | exact execCallTo_mem $h
    | exact Or.inl (execRet_memeq $h)
    | exact Or.inl (execMul_memeq $h)
    | exact Or.inl (execImul1_memeq $h)
    | exact Or.inl (execImul2_memeq $h)
    | exact Or.inl (execImul3_memeq $h)
    | exact Or.inl (execDiv_memeq $h)
    | exact Or.inl (execIdiv_memeq $h)
    | exact Or.inl (setFlagsW_same $h).2.2.1
    | exact Or.inl (writeReg_same $h).2.1
    | exact (writeRM_same $h).2.2.2
    | exact Or.inl (writeXmm_same $h).2.1
    | exact Or.inr ⟨_, _, _, Or.inl (writeMem_same $h).2.2.2.2⟩
    | exact withMem_mem rfl $h
    | exact withMem_memB rfl $h
    | (simp only [Out.ok.injEq, ExecRes.ok.injEq] at $h:ident; subst $h:ident; exact Or.inl rfl)
    | (simp only [Out.ok.injEq] at $h:ident; subst $h:ident
       exact Or.inl (addTrace_same ‹_›).2.2.1)
    | (simp only [Out.ok.injEq] at $h:ident; subst $h:ident
       simp only [setRip]
       exact Or.inl (addTrace_same ‹_›).2.2.1))

/-- **Every instruction changes memory by at most one store through the write primitive.** -/
theorem exec_mem {hh : HasHooks} {i : Instr} {s s' : Machine} (h : exec hh i s = .ok s') : MemStep s.mem s'.mem := by
  unfold exec at h
  split at h
  · cases h
  · split at h
    all_goals try (replace h := ofOut_ok h)
    all_goals try dsimp only at h
    all_goals repeat' split at h
    all_goals try dsimp only at h
    all_goals repeat' split at h
    all_goals try (replace h := ofOut_ok h)
    all_goals exec_mem_leaf h

end Ax
