/-
  AxVerif.Lemmas.NoPanic — why an instruction handler can crash.  `exec_crash`: for every form of the dispatch table and
  every state, a crash outcome of the handler has one of six enumerated causes (`CrashCause`): ill-formed memory (excluded
  by the memory invariant), or a decoded instruction whose operands do not have the shape the form expects (missing
  operand or unknown register, a non-register where a register is required, a base/index register of the wrong class, no
  register operand for PUSH/POP r), or a flag mask asking for an unimplemented flag.  No arithmetic, indexing, register or
  memory primitive crashes.  Same proof scheme as `exec_ctl` / `exec_mem`.
-/
import AxVerif.Lemmas.FrameMem
import AxVerif.Props.C08
import AxVerif.Props.C07
namespace Ax
open Ax

/-- a register iced may hand over as base or index of a memory operand in 64-bit mode -/
def AddrRegOk : Reg → Prop
  | .g32 _ | .g64 _ | .rip => True
  | _ => False

def MemOpOk (m : MemOperand) : Prop :=
  (∀ r, m.base = some r → AddrRegOk r) ∧ (∀ r, m.index = some r → AddrRegOk r)

/-- the only ways an instruction handler can crash -/
inductive CrashCause (i : Instr) (s : Machine) : Prop
  /-- ill-formed memory: excluded by the memory invariant of every reachable machine -/
  | memory (h : ¬ s.mem.WF)
  /-- iced delivered fewer operands than the form has, or a register ax does not know -/
  | operand (idx : Nat) (h : instructionOperand i idx = .panic)
  /-- an operand that the form requires to be a register is not one -/
  | notReg (idx : Nat) (o : AxOperand) (h1 : instructionOperand i idx = .ok o) (h2 : o.toReg = .panic)
  /-- base or index of a memory operand is not a 32/64-bit general register or RIP -/
  | addrReg (idx : Nat) (m : MemOperand) (h1 : instructionOperand i idx = .ok (.memory m)) (h2 : ¬ MemOpOk m)
  /-- PUSH r / POP r without a (known) register operand -/
  | op0 (h : ¬ ∃ rs r, i.op0 = some (.reg rs) ∧ rs.toSupported = .ok r)
  /-- a flag mask that asks for a flag `set_flags!` does not implement -/
  | flags (set : BitVec 64) (h : set ≠ FLAGS_UNAFFECTED ∧ set &&& FLAGS_ASSERTED ≠ 0)

theorem readReg_np (s : Machine) (w : Nat) (r : Reg) : readReg s w r ≠ .panic := (C07.never_panics s.regs w r 0).2

theorem writeReg_np (s : Machine) (w : Nat) (r : Reg) (v : BitVec 64) : writeReg s w r v ≠ .panic := by
  unfold writeReg
  have := (C07.never_panics s.regs w r v).1
  split <;> simp_all

theorem addrRegister_np (rs : Regs) (r : Reg) (h : AddrRegOk r) : addrRegister rs r ≠ .panic := by
  cases r <;> simp_all [AddrRegOk, addrRegister]

theorem effectiveAddr_panic (rs : Regs) (m : MemOperand) (h : effectiveAddr rs m = .panic) : ¬ MemOpOk m := by
  intro hok
  unfold effectiveAddr at h
  cases hb : m.base with
  | none =>
    cases hi : m.index with
    | none => simp [hb, hi] at h
    | some r =>
      have := addrRegister_np rs r (hok.2 r hi)
      cases ha : addrRegister rs r with
      | panic => exact this ha
      | err => simp [hb, hi, ha] at h
      | ok p => simp [hb, hi, ha] at h
  | some b =>
    have hbn := addrRegister_np rs b (hok.1 b hb)
    cases hab : addrRegister rs b with
    | panic => exact hbn hab
    | err => simp [hb, hab] at h
    | ok pb =>
      cases hi : m.index with
      | none => simp [hb, hi, hab] at h
      | some r =>
        have := addrRegister_np rs r (hok.2 r hi)
        cases ha : addrRegister rs r with
        | panic => exact this ha
        | err => simp [hb, hi, ha, hab] at h
        | ok p => simp [hb, hi, ha, hab] at h

theorem memAddr_panic (s : Machine) (m : MemOperand) (h : memAddr s m = .panic) : ¬ MemOpOk m := by
  unfold memAddr at h
  split at h
  · cases h
  · cases h
  · exact effectiveAddr_panic s.regs m ‹_›

theorem memReadN_panic (m : Mem) (n a : Nat) (h : memReadN m n a = .panic) : ¬ m.WF := by
  intro hwf
  unfold memReadN at h
  split at h
  · cases h
  · cases h
  · exact C08.read_never_panics m hwf a n ‹_›

theorem readMem_panic (s : Machine) (w : Nat) (a : BitVec 64) (h : readMem s w a = .panic) : ¬ s.mem.WF := by
  unfold readMem at h
  split at h
  · cases h
  · cases h
  · exact memReadN_panic _ _ _ ‹_›

theorem memWriteN_panic (m : Mem) (n a v : Nat) (h : memWriteN m n a v = .panic) : ¬ m.WF := by
  intro hwf
  unfold memWriteN at h
  split at h
  · cases h
  · exact C08.write_never_panics m hwf a _ h

theorem writeMem_panic (s : Machine) (w : Nat) (a v : BitVec 64) (h : writeMem s w a v = .panic) : ¬ s.mem.WF := by
  unfold writeMem Machine.withMem at h
  split at h
  · cases h
  · cases h
  · exact memWriteN_panic _ _ _ _ ‹_›
/-- an operand value a helper works on: operand `idx` of the instruction, or a register operand the helper built -/
def FromInstr (i : Instr) (o : AxOperand) : Prop := (∃ idx, instructionOperand i idx = .ok o) ∨ (∃ r, o = .register r)

theorem ops2_ok {i : Instr} {d sr : AxOperand} (h : instructionOperands2 i = .ok (d, sr)) :
    instructionOperand i 0 = .ok d ∧ instructionOperand i 1 = .ok sr := by
  unfold instructionOperands2 at h
  split at h
  · split at h
    · simp only [Out.ok.injEq, Prod.mk.injEq] at h
      obtain ⟨rfl, rfl⟩ := h
      exact ⟨‹_›, ‹_›⟩
    · cases h
    · cases h
  · cases h
  · cases h

theorem ops2_panic {i : Instr} {s : Machine} (h : instructionOperands2 i = .panic) : CrashCause i s := by
  unfold instructionOperands2 at h
  split at h
  · split at h
    · cases h
    · cases h
    · exact .operand 1 ‹_›
  · cases h
  · exact .operand 0 ‹_›

section
variable {i : Instr} {s : Machine}

theorem readRM_crash (s1 : Machine) (hm : s1.mem = s.mem) (w : Nat) (o : AxOperand) (ho : FromInstr i o)
    (h : readRM s1 w o = .panic) : CrashCause i s := by
  unfold readRM at h
  split at h
  · exact absurd h (readReg_np _ _ _)
  · rename_i m
    split at h
    · exact .memory (by rw [← hm]; exact readMem_panic _ _ _ h)
    · cases h
    · rcases ho with ⟨idx, hidx⟩ | ⟨r, hr⟩
      · exact .addrReg idx m hidx (memAddr_panic _ _ ‹_›)
      · cases hr
  · cases h

theorem writeRM_crash (s1 : Machine) (hm : s1.mem = s.mem) (w : Nat) (o : AxOperand) (v : BitVec 64) (ho : FromInstr i o)
    (h : writeRM s1 w o v = .panic) : CrashCause i s := by
  unfold writeRM at h
  split at h
  · exact absurd h (writeReg_np _ _ _ _)
  · rename_i m
    split at h
    · exact .memory (by rw [← hm]; exact writeMem_panic _ _ _ _ h)
    · cases h
    · rcases ho with ⟨idx, hidx⟩ | ⟨r, hr⟩
      · exact .addrReg idx m hidx (memAddr_panic _ _ ‹_›)
      · cases hr
  · cases h

theorem setFlags_panic {w : Nat} (set clear : BitVec 64) (res : BitVec w) (f : BitVec 64)
    (h : setFlags set clear res f = .panic) : set ≠ FLAGS_UNAFFECTED ∧ set &&& FLAGS_ASSERTED ≠ 0 := by
  unfold setFlags at h
  split at h
  · cases h
  · rename_i hne
    simp only at h
    split at h
    · rename_i ha
      exact ⟨hne, by simpa using ha⟩
    · cases h

theorem setFlagsW_crash (s1 : Machine) (w : Nat) (set clear res : BitVec 64)
    (h : setFlagsW s1 w set clear res = .panic) : CrashCause i s := by
  unfold setFlagsW at h
  split at h
  · cases h
  · cases h
  · exact .flags set (setFlags_panic _ _ _ _ ‹_›)

theorem finish_crash (w : Nat) (dest : AxOperand) (set clear fl res : BitVec 64) (ho : FromInstr i dest)
    (h : finish s w dest set clear fl res = .panic) : CrashCause i s := by
  unfold finish at h
  split at h
  · rename_i s1 h1
    split at h
    · exact writeRM_crash s1 (setFlagsW_same h1).2.2.1 w dest res ho h
    · cases h
  · cases h
  · exact setFlagsW_crash s _ _ _ _ ‹_›

end
namespace Ax
open Ax

/-- close a crash leaf: `h` is either `.panic = .panic` (the culprit is a hypothesis) or a helper call that crashed -/
macro "crash_leaf" h:ident : tactic => `(tactic|
  first
    | (cases $h:ident; done)
    | exact ops2_panic ‹instructionOperands2 _ = Out.panic›
    | exact CrashCause.operand _ ‹instructionOperand _ _ = Out.panic›
    | exact absurd ‹readReg _ _ _ = Out.panic› (readReg_np _ _ _)
    | exact absurd ‹writeReg _ _ _ _ = Out.panic› (writeReg_np _ _ _ _)
    | exact absurd $h (readReg_np _ _ _)
    | exact absurd $h (writeReg_np _ _ _ _)
    | exact CrashCause.notReg 1 _ (ops2_ok ‹instructionOperands2 _ = Out.ok _›).2 ‹AxOperand.toReg _ = Out.panic›
    | exact CrashCause.notReg 0 _ (ops2_ok ‹instructionOperands2 _ = Out.ok _›).1 ‹AxOperand.toReg _ = Out.panic›
    | exact CrashCause.notReg _ _ ‹instructionOperand _ _ = Out.ok _› ‹AxOperand.toReg _ = Out.panic›
    | exact readRM_crash _ rfl _ _ (Or.inl ⟨_, (ops2_ok ‹instructionOperands2 _ = Out.ok _›).1⟩) ‹readRM _ _ _ = Out.panic›
    | exact readRM_crash _ rfl _ _ (Or.inl ⟨_, (ops2_ok ‹instructionOperands2 _ = Out.ok _›).2⟩) ‹readRM _ _ _ = Out.panic›
    | exact readRM_crash _ rfl _ _ (Or.inl ⟨_, ‹instructionOperand _ _ = Out.ok _›⟩) ‹readRM _ _ _ = Out.panic›
    | exact readRM_crash _ rfl _ _ (Or.inl ⟨_, (ops2_ok ‹instructionOperands2 _ = Out.ok _›).1⟩) $h
    | exact readRM_crash _ rfl _ _ (Or.inl ⟨_, (ops2_ok ‹instructionOperands2 _ = Out.ok _›).2⟩) $h
    | exact readRM_crash _ rfl _ _ (Or.inl ⟨_, ‹instructionOperand _ _ = Out.ok _›⟩) $h
    | exact finish_crash _ _ _ _ _ _ (Or.inl ⟨_, (ops2_ok ‹instructionOperands2 _ = Out.ok _›).1⟩) $h
    | exact finish_crash _ _ _ _ _ _ (Or.inl ⟨_, ‹instructionOperand _ _ = Out.ok _›⟩) $h
    | exact finish_crash _ _ _ _ _ _ (Or.inr ⟨_, rfl⟩) $h
    | exact setFlagsW_crash _ _ _ _ _ $h
    | exact writeRM_crash _ rfl _ _ _ (Or.inl ⟨_, (ops2_ok ‹instructionOperands2 _ = Out.ok _›).1⟩) $h
    | exact writeRM_crash _ rfl _ _ _ (Or.inl ⟨_, ‹instructionOperand _ _ = Out.ok _›⟩) $h)

variable {i : Instr} {s : Machine}

theorem calcRmR_crash {w sw op set clear} (h : calcRmR s i w sw op set clear = .panic) : CrashCause i s := by
  unfold calcRmR at h
  repeat' split at h
  all_goals crash_leaf h

theorem calcRRm_crash {w sw df op set clear} (h : calcRRm s i w sw df op set clear = .panic) : CrashCause i s := by
  unfold calcRRm at h
  repeat' split at h
  all_goals crash_leaf h

theorem calcRmImm_crash {w sw op set clear} (h : calcRmImm s i w sw op set clear = .panic) : CrashCause i s := by
  unfold calcRmImm at h
  repeat' split at h
  all_goals crash_leaf h

theorem calcRm_crash {w op set clear} (h : calcRm s i w op set clear = .panic) : CrashCause i s := by
  unfold calcRm at h
  repeat' split at h
  all_goals crash_leaf h

theorem execTest_crash {w imm} (h : execTest s i w imm = .panic) : CrashCause i s := by
  unfold execTest at h
  repeat' split at h
  all_goals try dsimp only at h
  repeat' split at h
  all_goals crash_leaf h

theorem readOp0_crash {w} (h : readOp0 s i w = .panic) : CrashCause i s := by
  unfold readOp0 at h
  repeat' split at h
  all_goals crash_leaf h

theorem writeProduct_np (s1 : Machine) (w p : Nat) : writeProduct s1 w p ≠ .panic := by
  unfold writeProduct
  split
  · exact writeReg_np _ _ _ _
  · split
    · exact writeReg_np _ _ _ _
    · simp
    · rename_i hp; exact absurd hp (writeReg_np _ _ _ _)

theorem writeQuotRem_np (s1 : Machine) (w q r : Nat) : writeQuotRem s1 w q r ≠ .panic := by
  unfold writeQuotRem
  split
  · exact writeReg_np _ _ _ _
  · simp
  · rename_i hp; exact absurd hp (writeReg_np _ _ _ _)

theorem mulFlags_crash (s1 : Machine) {fw ovf} (h : mulFlags s1 fw ovf = .panic) : CrashCause i s :=
  setFlagsW_crash s1 _ _ _ _ h

macro "mul_crash_leaf" h:ident : tactic => `(tactic|
  first
    | (cases $h:ident; done)
    | exact readOp0_crash ‹readOp0 _ _ _ = Out.panic›
    | exact absurd ‹readReg _ _ _ = Out.panic› (readReg_np _ _ _)
    | exact absurd ‹writeProduct _ _ _ = Out.panic› (writeProduct_np _ _ _)
    | exact absurd ‹writeQuotRem _ _ _ _ = Out.panic› (writeQuotRem_np _ _ _ _)
    | exact absurd ‹writeReg _ _ _ _ = Out.panic› (writeReg_np _ _ _ _)
    | exact absurd $h (writeProduct_np _ _ _)
    | exact absurd $h (writeQuotRem_np _ _ _ _)
    | exact absurd $h (writeReg_np _ _ _ _)
    | exact mulFlags_crash _ $h
    | crash_leaf $h)

theorem execMul_crash {w} (h : execMul s i w = .panic) : CrashCause i s := by
  unfold execMul at h
  repeat' split at h
  all_goals try dsimp only at h
  repeat' split at h
  all_goals mul_crash_leaf h

theorem execImul1_crash {w} (h : execImul1 s i w = .panic) : CrashCause i s := by
  unfold execImul1 at h
  repeat' split at h
  all_goals try dsimp only at h
  repeat' split at h
  all_goals mul_crash_leaf h

theorem execImul2_crash {w} (h : execImul2 s i w = .panic) : CrashCause i s := by
  unfold execImul2 at h
  repeat' split at h
  all_goals try dsimp only at h
  repeat' split at h
  all_goals mul_crash_leaf h

theorem execImul3_crash {w} (h : execImul3 s i w = .panic) : CrashCause i s := by
  unfold execImul3 at h
  repeat' split at h
  all_goals try dsimp only at h
  repeat' split at h
  all_goals mul_crash_leaf h

theorem execDiv_crash {w} (h : execDiv s i w = .panic) : CrashCause i s := by
  unfold execDiv at h
  repeat' split at h
  all_goals try dsimp only at h
  repeat' split at h
  all_goals mul_crash_leaf h

theorem execIdiv_crash {w} (h : execIdiv s i w = .panic) : CrashCause i s := by
  unfold execIdiv at h
  repeat' split at h
  all_goals try dsimp only at h
  repeat' split at h
  all_goals mul_crash_leaf h

theorem pushVal_crash {n v} (h : pushVal s n v = .panic) : CrashCause i s := by
  unfold pushVal at h
  dsimp only at h
  split at h
  · cases h
  · cases h
  · exact .memory (writeMem_panic _ _ _ _ ‹_›)

theorem takeBranch_np (s1 : Machine) (i1 : Instr) : takeBranch s1 i1 ≠ .panic := by
  unfold takeBranch addTrace
  repeat' split
  all_goals simp_all

theorem execCallTo_crash {t} (h : execCallTo s i t = .panic) : CrashCause i s := by
  unfold execCallTo pushRip at h
  split at h
  · cases h
  · exact pushVal_crash ‹_›
  · split at h
    · cases h
    · rename_i hp; simp [addTrace] at hp
    · cases h

theorem execRet_crash (h : execRet s i = .panic) : CrashCause i s := by
  unfold execRet at h
  dsimp only at h
  split at h
  · cases h
  · split at h
    · cases h
    · exact .memory (readMem_panic _ _ _ ‹_›)
    · split at h
      · cases h
      · rename_i hp; simp [addTrace] at hp
      · cases h

theorem regRead128_np (rs : Regs) (r : Reg) : regRead128 rs r ≠ .panic := by
  unfold regRead128; split <;> simp

theorem writeXmm_np (s1 : Machine) (r : Reg) (v : BitVec 128) : writeXmm s1 r v ≠ .panic := by
  unfold writeXmm regWrite128
  cases r <;> simp

theorem readMem128_panic (s1 : Machine) (a : BitVec 64) (h : readMem128 s1 a = .panic) : ¬ s1.mem.WF := by
  unfold readMem128 at h
  split at h
  · cases h
  · cases h
  · exact memReadN_panic _ _ _ ‹_›

theorem readXmmRM_crash (o : AxOperand) (ho : ∃ idx, instructionOperand i idx = .ok o) (h : readXmmRM s o = .panic) :
    CrashCause i s := by
  unfold readXmmRM at h
  split at h
  · exact absurd h (regRead128_np _ _)
  · rename_i m
    split at h
    · exact .memory (readMem128_panic _ _ h)
    · cases h
    · obtain ⟨idx, hidx⟩ := ho
      exact .addrReg idx m hidx (memAddr_panic _ _ ‹_›)
  · cases h

theorem withMem_bytes_panic (s1 : Machine) (a : Nat) (bs : List Byte) (h : s1.withMem (memWriteBytes s1.mem a bs) = .panic) :
    ¬ s1.mem.WF := by
  intro hwf
  unfold Machine.withMem at h
  split at h
  · cases h
  · cases h
  · exact C08.write_never_panics _ hwf _ _ ‹_›

theorem addTrace_np (s1 : Machine) (i1 : Instr) (t : BitVec 64) (v : TraceVariant) : addTrace s1 i1 t v ≠ .panic := by
  simp [addTrace]

theorem op0_bad_of_panic {rs : RegSpec} (h1 : i.op0 = some (OpSpec.reg rs)) (h2 : rs.toSupported = Out.panic) :
    CrashCause i s := by
  refine .op0 ?_
  rintro ⟨rs', r, h1', h2'⟩
  rw [h1] at h1'
  simp only [Option.some.injEq, OpSpec.reg.injEq] at h1'
  subst h1'
  rw [h2] at h2'
  cases h2'

theorem op0_bad_of_none (h : ∀ (rs : RegSpec), i.op0 = some (OpSpec.reg rs) → False) : CrashCause i s := by
  refine .op0 ?_
  rintro ⟨rs, r, h1, _⟩
  exact h rs h1

theorem ofOut_panic {o : Out Machine} (h : ExecRes.ofOut o = .panic) : o = .panic := by
  cases o <;> simp [ExecRes.ofOut] at h ⊢

macro "exec_crash_leaf" h:ident : tactic => `(tactic|
  first
    | (cases $h:ident; done)
    | (simp only [reduceCtorEq] at $h:ident; done)
    | exact calcRmR_crash $h
    | exact calcRRm_crash $h
    | exact calcRmImm_crash $h
    | exact calcRm_crash $h
    | exact execTest_crash $h
    | exact execMul_crash $h
    | exact execImul1_crash $h
    | exact execImul2_crash $h
    | exact execImul3_crash $h
    | exact execDiv_crash $h
    | exact execIdiv_crash $h
    | exact pushVal_crash $h
    | exact execCallTo_crash $h
    | exact execRet_crash $h
    | exact absurd $h (takeBranch_np _ _)
    | exact absurd ‹addTrace _ _ _ _ = Out.panic› (addTrace_np _ _ _ _)
    | exact op0_bad_of_panic ‹Instr.op0 _ = some (OpSpec.reg _)› ‹RegSpec.toSupported _ = Out.panic›
    | exact op0_bad_of_none ‹∀ (rs : RegSpec), Instr.op0 _ = some (OpSpec.reg rs) → False›
    | exact absurd $h (writeXmm_np _ _ _)
    | exact absurd ‹regRead128 _ _ = Out.panic› (regRead128_np _ _)
    | exact absurd ‹writeXmm _ _ _ = Out.panic› (writeXmm_np _ _ _)
    | exact CrashCause.memory (withMem_bytes_panic _ _ _ $h)
    | exact CrashCause.memory (readMem_panic _ _ _ ‹readMem _ _ _ = Out.panic›)
    | exact CrashCause.memory (readMem128_panic _ _ ‹readMem128 _ _ = Out.panic›)
    | exact readXmmRM_crash _ ⟨_, (ops2_ok ‹instructionOperands2 _ = Out.ok _›).2⟩ ‹readXmmRM _ _ = Out.panic›
    | exact readXmmRM_crash _ ⟨_, (ops2_ok ‹instructionOperands2 _ = Out.ok _›).1⟩ ‹readXmmRM _ _ = Out.panic›
    | exact CrashCause.addrReg 1 _ (ops2_ok ‹instructionOperands2 _ = Out.ok _›).2 (memAddr_panic _ _ ‹memAddr _ _ = Out.panic›)
    | exact CrashCause.addrReg 0 _ (ops2_ok ‹instructionOperands2 _ = Out.ok _›).1 (memAddr_panic _ _ ‹memAddr _ _ = Out.panic›)
    | exact CrashCause.addrReg 1 _ (ops2_ok ‹instructionOperands2 _ = Out.ok _›).2 (effectiveAddr_panic _ _ ‹effectiveAddr _ _ = Out.panic›)
    | crash_leaf $h)

theorem exec_crash {hh : HasHooks} (h : exec hh i s = .panic) : CrashCause i s := by
  unfold exec at h
  split at h
  · cases h
  · split at h
    all_goals try (replace h := ofOut_panic h)
    all_goals try dsimp only at h
    all_goals repeat' split at h
    all_goals try dsimp only at h
    all_goals repeat' split at h
    all_goals try (replace h := ofOut_panic h)
    all_goals try exec_crash_leaf h
    -- what is left: the source of XORPS (a memory operand is aligned-checked before it is read)
    all_goals (
      rename_i hsv
      split at hsv
      · split at hsv
        · split at hsv
          · cases hsv
          · exact CrashCause.memory (readMem128_panic _ _ hsv)
        · cases hsv
        · exact CrashCause.addrReg 1 _ (ops2_ok ‹instructionOperands2 _ = Out.ok _›).2 (memAddr_panic _ _ ‹memAddr _ _ = Out.panic›)
      · exact readXmmRM_crash _ ⟨1, (ops2_ok ‹instructionOperands2 _ = Out.ok _›).2⟩ hsv)

end Ax
