/-
  AxVerif.Lemmas.RipFrame — the instruction pointer under instruction handlers: `exec_rip`, over the whole dispatch
  table: a handler that is not a jump, call or return leaves RIP alone (provided no explicit register operand is the
  instruction pointer, which iced never produces); `exec_finish_ret`: only RET signals the normal finish.
-/
import AxVerif.Lemmas.NoPanic
namespace Ax
open Ax

/-- no explicit register operand of the instruction is the instruction pointer (iced never produces one) -/
def NoRipOperand (i : Instr) : Prop :=
  (∀ idx r, instructionOperand i idx = .ok (.register r) → r ≠ .rip) ∧
  (∀ rs r, i.op0 = some (.reg rs) → rs.toSupported = .ok r → r ≠ .rip)

/-- a destination operand that is not the instruction pointer -/

theorem regWriteW_rip {rs rs' : Regs} {w r v} (hr : r ≠ .rip) (h : regWriteW rs w r v = .ok rs') : rs'.rip = rs.rip := by
  unfold regWriteW at h
  split at h
  · unfold regWrite8 at h
    split at h
    · cases h
    · split at h <;> first | (cases h; done) | (simp only [Out.ok.injEq] at h; subst h; rfl)
  · unfold regWrite16 at h
    split at h
    · cases h
    · split at h <;> first | (cases h; done) | (simp only [Out.ok.injEq] at h; subst h; rfl)
  · unfold regWrite32 at h
    split at h
    · cases h
    · split at h <;> first | (cases h; done) | (simp only [Out.ok.injEq] at h; subst h; rfl)
  · unfold regWrite64 at h
    split at h <;> first | (cases h; done) | (exact absurd rfl hr) | (simp only [Out.ok.injEq] at h; subst h; rfl)
  · cases h

theorem writeReg_rip {s s' : Machine} {w r v} (hr : r ≠ .rip) (h : writeReg s w r v = .ok s') : s'.regs.rip = s.regs.rip := by
  unfold writeReg at h
  split at h <;> simp only [reduceCtorEq, Out.ok.injEq] at h
  subst h
  exact regWriteW_rip hr ‹_›

theorem writeRM_rip {s s' : Machine} {w o v} (ho : ∀ r, o = .register r → r ≠ .rip) (h : writeRM s w o v = .ok s') :
    s'.regs.rip = s.regs.rip := by
  unfold writeRM at h
  split at h
  · exact writeReg_rip (ho _ rfl) h
  · split at h
    · rw [(writeMem_same h).2.1]
    · cases h
    · cases h
  · cases h

theorem finish_rip {s s' : Machine} {w dest set clear fl res} (ho : ∀ r, dest = .register r → r ≠ .rip)
    (h : finish s w dest set clear fl res = .ok s') : s'.regs.rip = s.regs.rip := by
  unfold finish at h
  split at h
  · rename_i s1 h1
    have f := (setFlagsW_same h1).2.1
    split at h
    · rw [writeRM_rip ho h, f]
    · simp only [Out.ok.injEq] at h; subst h; rw [f]
  · cases h
  · cases h
variable {i : Instr}

theorem dest_ok_of_op (hno : NoRipOperand i) {idx : Nat} {d : AxOperand} (h : instructionOperand i idx = .ok d) :
    ∀ r, d = .register r → r ≠ .rip := fun r hr => hno.1 idx r (hr ▸ h)

theorem dest_ok_of_ops2_0 (hno : NoRipOperand i) {d sr : AxOperand} (h : instructionOperands2 i = .ok (d, sr)) :
    ∀ r, d = .register r → r ≠ .rip := dest_ok_of_op hno (ops2_ok h).1

theorem toReg_ok {o : AxOperand} {r : Reg} (h : o.toReg = .ok r) : o = .register r := by
  cases o <;> simp [AxOperand.toReg] at h
  rw [h]

theorem reg_ok_of_toReg0 (hno : NoRipOperand i) {d sr : AxOperand} {dr : Reg} (h : instructionOperands2 i = .ok (d, sr))
    (ht : d.toReg = .ok dr) : dr ≠ .rip := dest_ok_of_ops2_0 hno h dr (toReg_ok ht)

theorem reg_ok_of_toReg (hno : NoRipOperand i) {idx : Nat} {d : AxOperand} {dr : Reg} (h : instructionOperand i idx = .ok d)
    (ht : d.toReg = .ok dr) : dr ≠ .rip := dest_ok_of_op hno h dr (toReg_ok ht)

theorem writeXmm_rip {s s' : Machine} {r v} (h : writeXmm s r v = .ok s') : s'.regs.rip = s.regs.rip := by
  unfold writeXmm regWrite128 at h
  cases r <;> simp only [reduceCtorEq, Out.ok.injEq] at h
  subst h
  rfl

macro "rip_leaf" hno:ident h:ident : tactic => `(tactic|
  first
    | (cases $h:ident; done)
    | (simp only [reduceCtorEq] at $h:ident; done)
    | exact finish_rip (dest_ok_of_ops2_0 $hno ‹instructionOperands2 _ = Out.ok _›) $h
    | exact finish_rip (dest_ok_of_op $hno ‹instructionOperand _ _ = Out.ok _›) $h
    | exact finish_rip (fun r hr => by
        simp only [AxOperand.register.injEq] at hr; subst hr
        exact reg_ok_of_toReg0 $hno ‹instructionOperands2 _ = Out.ok _› ‹AxOperand.toReg _ = Out.ok _›) $h
    | exact finish_rip (fun r hr => by
        simp only [AxOperand.register.injEq] at hr; subst hr
        exact reg_ok_of_toReg $hno ‹instructionOperand _ _ = Out.ok _› ‹AxOperand.toReg _ = Out.ok _›) $h
    | (rw [(setFlagsW_same $h).2.1]; done)
    | exact writeReg_rip (reg_ok_of_toReg0 $hno ‹instructionOperands2 _ = Out.ok _› ‹AxOperand.toReg _ = Out.ok _›) $h
    | exact writeReg_rip (reg_ok_of_toReg $hno ‹instructionOperand _ _ = Out.ok _› ‹AxOperand.toReg _ = Out.ok _›) $h
    | exact writeRM_rip (dest_ok_of_ops2_0 $hno ‹instructionOperands2 _ = Out.ok _›) $h
    | exact writeRM_rip (dest_ok_of_op $hno ‹instructionOperand _ _ = Out.ok _›) $h
    | exact writeXmm_rip $h
    | (rw [(writeMem_same $h).2.1]; done))

theorem calcRmR_rip {s s' : Machine} {w sw op set clear} (hno : NoRipOperand i) (h : calcRmR s i w sw op set clear = .ok s') :
    s'.regs.rip = s.regs.rip := by
  unfold calcRmR at h
  repeat' split at h
  all_goals rip_leaf hno h

theorem calcRRm_rip {s s' : Machine} {w sw df op set clear} (hno : NoRipOperand i) (h : calcRRm s i w sw df op set clear = .ok s') :
    s'.regs.rip = s.regs.rip := by
  unfold calcRRm at h
  repeat' split at h
  all_goals rip_leaf hno h

theorem calcRmImm_rip {s s' : Machine} {w sw op set clear} (hno : NoRipOperand i) (h : calcRmImm s i w sw op set clear = .ok s') :
    s'.regs.rip = s.regs.rip := by
  unfold calcRmImm at h
  repeat' split at h
  all_goals rip_leaf hno h

theorem calcRm_rip {s s' : Machine} {w op set clear} (hno : NoRipOperand i) (h : calcRm s i w op set clear = .ok s') :
    s'.regs.rip = s.regs.rip := by
  unfold calcRm at h
  repeat' split at h
  all_goals rip_leaf hno h

theorem execTest_rip {s s' : Machine} {w imm} (hno : NoRipOperand i) (h : execTest s i w imm = .ok s') :
    s'.regs.rip = s.regs.rip := by
  unfold execTest at h
  repeat' split at h
  all_goals try dsimp only at h
  repeat' split at h
  all_goals rip_leaf hno h
theorem accLo_ne_rip (w : Nat) : accLo w ≠ .rip := by unfold accLo; split <;> simp
theorem accHi_ne_rip (w : Nat) : accHi w ≠ .rip := by unfold accHi; split <;> simp

theorem writeProduct_rip {s s' : Machine} {w p} (h : writeProduct s w p = .ok s') : s'.regs.rip = s.regs.rip := by
  unfold writeProduct at h
  split at h
  · exact writeReg_rip (by simp) h
  · split at h
    · rename_i s1 h1
      rw [writeReg_rip (accHi_ne_rip w) h, writeReg_rip (accLo_ne_rip w) h1]
    · cases h
    · cases h

theorem writeQuotRem_rip {s s' : Machine} {w q r} (h : writeQuotRem s w q r = .ok s') : s'.regs.rip = s.regs.rip := by
  unfold writeQuotRem at h
  split at h
  · rename_i s1 h1
    rw [writeReg_rip (accHi_ne_rip w) h, writeReg_rip (accLo_ne_rip w) h1]
  · cases h
  · cases h

theorem mulFlags_rip {s s' : Machine} {fw ovf} (h : mulFlags s fw ovf = .ok s') : s'.regs.rip = s.regs.rip := by
  rw [(setFlagsW_same h).2.1]

macro "mul_rip_leaf" hno:ident h:ident : tactic => `(tactic|
  first
    | (cases $h:ident; done)
    | (simp only [reduceCtorEq] at $h:ident; done)
    | exact mulFlags_rip $h
    | exact writeQuotRem_rip $h
    | exact (mulFlags_rip $h).trans (writeProduct_rip ‹writeProduct _ _ _ = Out.ok _›)
    | exact (mulFlags_rip $h).trans (writeReg_rip (reg_ok_of_toReg0 $hno ‹instructionOperands2 _ = Out.ok _› ‹AxOperand.toReg _ = Out.ok _›) ‹writeReg _ _ _ _ = Out.ok _›)
    | exact (mulFlags_rip $h).trans (writeReg_rip (reg_ok_of_toReg $hno ‹instructionOperand _ _ = Out.ok _› ‹AxOperand.toReg _ = Out.ok _›) ‹writeReg _ _ _ _ = Out.ok _›)
    | exact (mulFlags_rip $h).trans (writeReg_rip (dest_ok_of_ops2_0 $hno ‹instructionOperands2 _ = Out.ok _› _ rfl) ‹writeReg _ _ _ _ = Out.ok _›)
    | exact (mulFlags_rip $h).trans (writeReg_rip (dest_ok_of_op $hno ‹instructionOperand _ _ = Out.ok _› _ rfl) ‹writeReg _ _ _ _ = Out.ok _›)
    | rip_leaf $hno $h)

theorem execMul_rip {s s' : Machine} {w} (hno : NoRipOperand i) (h : execMul s i w = .ok s') : s'.regs.rip = s.regs.rip := by
  unfold execMul at h
  repeat' split at h
  all_goals try dsimp only at h
  repeat' split at h
  all_goals mul_rip_leaf hno h

theorem execImul1_rip {s s' : Machine} {w} (hno : NoRipOperand i) (h : execImul1 s i w = .ok s') : s'.regs.rip = s.regs.rip := by
  unfold execImul1 at h
  repeat' split at h
  all_goals try dsimp only at h
  repeat' split at h
  all_goals mul_rip_leaf hno h

theorem execImul2_rip {s s' : Machine} {w} (hno : NoRipOperand i) (h : execImul2 s i w = .ok s') : s'.regs.rip = s.regs.rip := by
  unfold execImul2 at h
  repeat' split at h
  all_goals try dsimp only at h
  repeat' split at h
  all_goals mul_rip_leaf hno h

theorem execImul3_rip {s s' : Machine} {w} (hno : NoRipOperand i) (h : execImul3 s i w = .ok s') : s'.regs.rip = s.regs.rip := by
  unfold execImul3 at h
  repeat' split at h
  all_goals try dsimp only at h
  repeat' split at h
  all_goals mul_rip_leaf hno h

theorem execDiv_rip {s s' : Machine} {w} (hno : NoRipOperand i) (h : execDiv s i w = .ok s') : s'.regs.rip = s.regs.rip := by
  unfold execDiv at h
  repeat' split at h
  all_goals try dsimp only at h
  repeat' split at h
  all_goals mul_rip_leaf hno h

theorem execIdiv_rip {s s' : Machine} {w} (hno : NoRipOperand i) (h : execIdiv s i w = .ok s') : s'.regs.rip = s.regs.rip := by
  unfold execIdiv at h
  repeat' split at h
  all_goals try dsimp only at h
  repeat' split at h
  all_goals mul_rip_leaf hno h

theorem pushVal_rip {s s' : Machine} {n v} (h : pushVal s n v = .ok s') : s'.regs.rip = s.regs.rip := by
  unfold pushVal at h
  dsimp only at h
  split at h
  · rename_i s1 h1
    simp only [Out.ok.injEq] at h
    subst h
    simp only [Regs.rip_set]
    rw [(writeMem_same h1).2.1]
  · cases h
  · cases h

/-- the handlers that transfer control -/
def Handler.isTransfer : Handler → Bool
  | .jcc _ | .jmpNear | .jmpRm | .callNear | .callRm | .ret | .jrcxz | .jecxz => true
  | _ => false
theorem withMem_regs {s s' : Machine} {r : Out Mem} (h : s.withMem r = .ok s') : s'.regs = s.regs := by
  unfold Machine.withMem at h
  split at h <;> simp only [reduceCtorEq, Out.ok.injEq] at h
  subst h
  rfl

macro "exec_rip_leaf" hno:ident h:ident : tactic => `(tactic|
  first
    | (cases $h:ident; done)
    | (simp only [reduceCtorEq] at $h:ident; done)
    | (simp only [Handler.isTransfer, Bool.true_eq_false] at *; done)
    | exact calcRmR_rip $hno $h
    | exact calcRRm_rip $hno $h
    | exact calcRmImm_rip $hno $h
    | exact calcRm_rip $hno $h
    | exact execTest_rip $hno $h
    | exact execMul_rip $hno $h
    | exact execImul1_rip $hno $h
    | exact execImul2_rip $hno $h
    | exact execImul3_rip $hno $h
    | exact execDiv_rip $hno $h
    | exact execIdiv_rip $hno $h
    | exact pushVal_rip $h
    | exact writeXmm_rip $h
    | (rw [withMem_regs $h]; done)
    | exact writeReg_rip (reg_ok_of_toReg0 $hno ‹instructionOperands2 _ = Out.ok _› ‹AxOperand.toReg _ = Out.ok _›) $h
    | exact writeReg_rip (dest_ok_of_ops2_0 $hno ‹instructionOperands2 _ = Out.ok _› _ rfl) $h
    | exact (writeReg_rip (($hno).2 _ _ ‹Instr.op0 _ = some (OpSpec.reg _)› ‹RegSpec.toSupported _ = Out.ok _›) $h).trans (by simp)
    | (simp only [Out.ok.injEq, ExecRes.ok.injEq] at $h:ident; subst $h:ident; simp; done)
    | (simp only [Out.ok.injEq, ExecRes.ok.injEq] at $h:ident; subst $h:ident; rfl)
    | rip_leaf $hno $h)

/-- **An instruction that is not a control transfer leaves RIP alone** (so after the step RIP is `next_ip`) -/
theorem exec_rip {hh : HasHooks} {s s' : Machine} {hd : Handler} (hl : lookup i.code = some hd) (ht : hd.isTransfer = false)
    (hno : NoRipOperand i) (h : exec hh i s = .ok s') : s'.regs.rip = s.regs.rip := by
  unfold exec at h
  rw [hl] at h
  simp only at h
  cases hd
  all_goals try (simp only [Handler.isTransfer, Bool.true_eq_false] at ht; done)
  all_goals simp only at h
  all_goals try (replace h := ofOut_ok h)
  all_goals try dsimp only at h
  all_goals repeat' split at h
  all_goals try dsimp only at h
  all_goals repeat' split at h
  all_goals try (replace h := ofOut_ok h)
  all_goals exec_rip_leaf hno h
theorem ofOut_ne_finish (o : Out Machine) : ExecRes.ofOut o ≠ .finish := by
  cases o <;> simp [ExecRes.ofOut]

/-- only RET signals the normal finish -/
theorem exec_finish_ret {hh : HasHooks} {s : Machine} (h : exec hh i s = .finish) : lookup i.code = some .ret := by
  unfold exec at h
  split at h
  · cases h
  · rename_i hd hl
    cases hd
    all_goals first
      | exact hl
      | (exfalso
         simp only at h
         repeat' split at h
         all_goals first | (cases h; done) | exact absurd h (ofOut_ne_finish _))

end Ax
