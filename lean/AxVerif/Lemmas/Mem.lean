/-
  Helper lemmas about the memory model (area lookup, splice, little-endian conversion).
-/
import AxVerif.Spec.Mem
namespace Ax

theorem contains_iff (ar : Area) (x : Nat) : ar.contains x = true ↔ ar.start ≤ x ∧ x < ar.start + ar.len := by
  simp only [Area.contains, Bool.and_eq_true, decide_eq_true_eq]
  omega

theorem contains_false_iff (ar : Area) (x : Nat) : ar.contains x = false ↔ ¬ (ar.start ≤ x ∧ x < ar.start + ar.len) := by
  rw [← contains_iff]; simp

theorem findArea_cons (ar : Area) (rest : Mem) (x : Nat) :
    findArea (ar :: rest) x = if ar.contains x then some ar else findArea rest x := by
  simp only [findArea, List.find?_cons]
  split <;> simp_all

theorem findArea_some {m : Mem} {x : Nat} {ar : Area} (h : findArea m x = some ar) :
    ar ∈ m ∧ ar.contains x = true := by
  unfold findArea at h
  exact ⟨List.mem_of_find?_eq_some h, by simpa using List.find?_some h⟩

theorem findArea_none {m : Mem} {x : Nat} (h : findArea m x = none) : ∀ ar ∈ m, ar.contains x = false := by
  unfold findArea at h
  intro ar har
  have := List.find?_eq_none.mp h ar har
  simpa using this

theorem disjoint_not_both {a b : Area} (h : a.disjoint b) (x : Nat) :
    ¬ (a.contains x = true ∧ b.contains x = true) := by
  rw [contains_iff, contains_iff]
  unfold Area.disjoint at h
  omega

/-- Under `NoOverlap` the area containing an address is unique, so lookup finds exactly it. -/
theorem findArea_of_mem {m : Mem} (hno : NoOverlap m) {ar : Area} (har : ar ∈ m) {x : Nat}
    (hx : ar.contains x = true) : findArea m x = some ar := by
  induction m with
  | nil => cases har
  | cons b rest ih =>
    rw [findArea_cons]
    have hp := List.pairwise_cons.mp hno
    by_cases hb : b.contains x = true
    · simp only [hb, if_true]
      rcases List.mem_cons.mp har with rfl | hin
      · rfl
      · exact absurd ⟨hb, hx⟩ (disjoint_not_both (hp.1 ar hin) x)
    · simp only [hb]
      rcases List.mem_cons.mp har with rfl | hin
      · exact absurd hx hb
      · exact ih hp.2 hin

/-- `NoOverlap` only depends on the extents. -/
theorem noOverlap_of_extents {m m' : Mem}
    (h : m'.map (fun ar => (ar.start, ar.len)) = m.map (fun ar => (ar.start, ar.len)))
    (hno : NoOverlap m) : NoOverlap m' := by
  induction m generalizing m' with
  | nil =>
    cases m' with
    | nil => exact List.Pairwise.nil
    | cons _ _ => simp at h
  | cons b rest ih =>
    cases m' with
    | nil => simp at h
    | cons b' rest' =>
      simp only [List.map_cons, List.cons.injEq, Prod.mk.injEq] at h
      obtain ⟨⟨hs, hl⟩, hrest⟩ := h
      have hp := List.pairwise_cons.mp hno
      refine List.pairwise_cons.mpr ⟨?_, ih hrest hp.2⟩
      intro c' hc'
      -- c' corresponds to some c in rest with equal extents
      have : (c'.start, c'.len) ∈ rest'.map (fun ar => (ar.start, ar.len)) := List.mem_map.mpr ⟨c', hc', rfl⟩
      rw [hrest] at this
      obtain ⟨c, hc, hce⟩ := List.mem_map.mp this
      simp only [Prod.mk.injEq] at hce
      have hd := hp.1 c hc
      unfold Area.disjoint at hd ⊢
      omega

theorem skeleton_extents {m m' : Mem} (h : skeleton m' = skeleton m) :
    m'.map (fun ar => (ar.start, ar.len)) = m.map (fun ar => (ar.start, ar.len)) := by
  have := congrArg (List.map fun (t : Option String × Nat × Nat × Nat) => (t.2.1, t.2.2.1)) h
  simpa [skeleton, List.map_map, Function.comp_def] using this

/-! ### splice -/

theorem splice_length (d bs : List Byte) (off : Nat) (h : off + bs.length ≤ d.length) :
    (splice d off bs).length = d.length := by
  simp [splice]; omega

theorem splice_getElem? (d bs : List Byte) (off k : Nat) (h : off + bs.length ≤ d.length) :
    (splice d off bs)[k]? = if off ≤ k ∧ k < off + bs.length then bs[k - off]? else d[k]? := by
  unfold splice
  by_cases h1 : k < off
  · have : ¬ (off ≤ k ∧ k < off + bs.length) := by omega
    simp only [this, if_false]
    rw [List.append_assoc, List.getElem?_append_left (by simp; omega)]
    simp [List.getElem?_take, h1]
  · by_cases h2 : k < off + bs.length
    · have : off ≤ k ∧ k < off + bs.length := by omega
      simp only [this, and_self, if_true]
      rw [List.append_assoc, List.getElem?_append_right (by simp; omega)]
      have hl : (List.take off d).length = off := by simp; omega
      rw [hl, List.getElem?_append_left (by omega)]
    · have : ¬ (off ≤ k ∧ k < off + bs.length) := by omega
      simp only [this, if_false]
      rw [List.getElem?_append_right (by simp; omega)]
      have hl : (List.take off d ++ bs).length = off + bs.length := by simp; omega
      rw [hl, List.getElem?_drop]
      congr 1; omega

/-! ### little endian -/

theorem leBytes_length (n v : Nat) : (leBytes n v).length = n := by
  induction n generalizing v with
  | zero => rfl
  | succ n ih => simp [leBytes, ih]

theorem leNat_leBytes (n v : Nat) : leNat (leBytes n v) = v % 2 ^ (8 * n) := by
  induction n generalizing v with
  | zero => simp [leBytes, leNat, Nat.mod_one]
  | succ n ih =>
    simp only [leBytes, leNat, ih, BitVec.toNat_ofNat]
    have h256 : (2:Nat) ^ 8 = 256 := by decide
    have : 2 ^ (8 * (n + 1)) = 256 * 2 ^ (8 * n) := by
      rw [Nat.mul_succ, Nat.pow_add, h256, Nat.mul_comm]
    rw [this, Nat.mod_mul, Nat.mod_mod_of_dvd _ (by decide : 256 ∣ 2 ^ 8)]

theorem leNat_lt (bs : List Byte) : leNat bs < 2 ^ (8 * bs.length) := by
  induction bs with
  | nil => simp [leNat]
  | cons b bs ih =>
    simp only [leNat, List.length_cons]
    have hb := b.isLt
    have : 2 ^ (8 * (bs.length + 1)) = 256 * 2 ^ (8 * bs.length) := by
      rw [Nat.mul_succ, Nat.pow_add]; simp [Nat.mul_comm]
    omega

theorem leBytes_leNat (bs : List Byte) : leBytes bs.length (leNat bs) = bs := by
  induction bs with
  | nil => rfl
  | cons b bs ih =>
    simp only [List.length_cons, leBytes, leNat]
    have hb := b.isLt
    have h1 : (b.toNat + 256 * leNat bs) % 256 = b.toNat := by omega
    have h2 : (b.toNat + 256 * leNat bs) / 256 = leNat bs := by omega
    rw [h1, h2, ih]
    simp

end Ax
