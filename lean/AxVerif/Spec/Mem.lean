/-
  AxVerif.Spec.Mem — what guest memory is supposed to be: a partial byte map over [0, 2^64)
  with a permission per mapped address, backed by areas that never share an address.
-/
import AxVerif.Model.Mem
namespace Ax

/-- The byte an address shows (the first area containing it), `none` if unmapped. -/
def byteAt (m : Mem) (x : Nat) : Option Byte :=
  match findArea m x with
  | some ar => ar.data[x - ar.start]?
  | none => none

/-- The permission mask of the area an address belongs to. -/
def permAt (m : Mem) (x : Nat) : Option Nat := (findArea m x).map (·.access)

/-- Representation invariant of one area: the data vector has the declared length and the
    area ends inside the 64-bit address space. -/
def Area.WF (ar : Area) : Prop := ar.data.length = ar.len ∧ (ar.len = 0 ∨ ar.start + ar.len ≤ U64)

def Mem.WF (m : Mem) : Prop := ∀ ar ∈ m, ar.WF

/-- Two areas share no address (interval form; an empty area contains no address). -/
def Area.disjoint (a b : Area) : Prop :=
  a.len = 0 ∨ b.len = 0 ∨ a.start + a.len ≤ b.start ∨ b.start + b.len ≤ a.start

/-- No two areas of the list share an address. -/
def NoOverlap (m : Mem) : Prop := m.Pairwise Area.disjoint

/-- What stays fixed under byte writes: names, extents, permissions. -/
def skeleton (m : Mem) : List (Option String × Nat × Nat × Nat) :=
  m.map fun ar => (ar.name, ar.start, ar.len, ar.access)

end Ax
