/-
  AxVerif.Spec.Regs — the x86-64 general-purpose register file as the architecture defines it
  (Intel SDM vol. 1, 3.4.1.1): sixteen 64-bit registers; 32-, 16- and 8-bit views alias the
  low bits, AH/CH/DH/BH alias bits 8..15; a 32-bit write zero-extends into the full register,
  16- and 8-bit writes leave all other bits alone.

  Written with slices and concatenation, independent of the mask-and-or arithmetic of the model.
-/
import AxVerif.Model.Regs
namespace Ax.Spec

/-- A view of a general-purpose register. -/
inductive View where
  | q (i : Fin 16)    -- RAX …
  | d (i : Fin 16)    -- EAX …
  | w (i : Fin 16)    -- AX …
  | bl (i : Fin 16)   -- AL … R15L
  | bh (i : Fin 4)    -- AH CH DH BH
deriving DecidableEq, Repr

def View.parent : View → Fin 16
  | .q i | .d i | .w i | .bl i => i
  | .bh i => hiParent i

def View.width : View → Nat
  | .q _ => 64
  | .d _ => 32
  | .w _ => 16
  | .bl _ | .bh _ => 8

/-- The view a `SupportedRegister` names, if it is a GPR view. -/
def viewOf : Reg → Option View
  | .g64 i => some (.q i)
  | .g32 i => some (.d i)
  | .g16 i => some (.w i)
  | .g8 i => some (.bl i)
  | .h8 i => some (.bh i)
  | _ => none

/-- Value of a view of a 64-bit register, zero-extended to 64 bits. -/
def extract : View → BitVec 64 → BitVec 64
  | .q _, p => p
  | .d _, p => (p.extractLsb' 0 32).setWidth 64
  | .w _, p => (p.extractLsb' 0 16).setWidth 64
  | .bl _, p => (p.extractLsb' 0 8).setWidth 64
  | .bh _, p => (p.extractLsb' 8 8).setWidth 64

/-- New parent value after writing `x` (which fits the view) through a view. -/
def merge : View → BitVec 64 → BitVec 64 → BitVec 64
  | .q _, x, _ => x
  | .d _, x, _ => ((0#32) ++ x.extractLsb' 0 32).cast (by decide)
  | .w _, x, p => (p.extractLsb' 16 48 ++ x.extractLsb' 0 16).cast (by decide)
  | .bl _, x, p => (p.extractLsb' 8 56 ++ x.extractLsb' 0 8).cast (by decide)
  | .bh _, x, p => (p.extractLsb' 16 48 ++ x.extractLsb' 0 8 ++ p.extractLsb' 0 8).cast (by decide)

/-- The abstract register file. -/
structure RegFile where
  gpr : Fin 16 → BitVec 64
  rip : BitVec 64

def RegFile.update (rf : RegFile) (i : Fin 16) (v : BitVec 64) : RegFile :=
  { rf with gpr := fun j => if j = i then v else rf.gpr j }

/-- One call of the register API against the abstract register file:
    a write is accepted iff the register is a GPR view (or RIP for 64 bit) of exactly the API's
    width and the value fits; otherwise it is rejected and nothing changes. -/
def step (rf : RegFile) : RegOp → RegFile × RegRes
  | .write w r v =>
    match viewOf r with
    | some vw =>
      if vw.width = w ∧ v.toNat < 2 ^ w then (rf.update vw.parent (merge vw v (rf.gpr vw.parent)), .wrote)
      else (rf, .rejected)
    | none =>
      if r = .rip ∧ w = 64 then ({ rf with rip := v }, .wrote) else (rf, .rejected)
  | .read w r =>
    match viewOf r with
    | some vw =>
      if vw.width = w then (rf, .value (extract vw (rf.gpr vw.parent))) else (rf, .rejected)
    | none =>
      if r = .rip ∧ w = 64 then (rf, .value rf.rip) else (rf, .rejected)

def run (rf : RegFile) : List RegOp → RegFile × List RegRes
  | [] => (rf, [])
  | op :: ops =>
    let (rf', r) := step rf op
    let (rf'', rs) := run rf' ops
    (rf'', r :: rs)

end Ax.Spec
