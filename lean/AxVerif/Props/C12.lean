/-
  C12 — hooks bracket the instruction, short-circuit, stop and fail cleanly.

  Hooks are arbitrary functions `Machine → HookOut` (universally quantified); the only assumption
  — where stated — is that a hook cannot write the crate-private `hooks.running` flag.
-/
import AxVerif.Lemmas.Frame
namespace Ax.C12
open Ax

/-! ## The chain: which hooks are invoked, on which state -/

/-- does the chain stop after a hook that turned `s` into `s'` with result `r`? -/
def stops (s s' : Machine) (r : HookResult) : Bool := (s'.finished && !s.finished) || r == .handled

/-- instrumentation: the states the invoked hooks are called with, in order -/
def invoked : List HookFn → Machine → List Machine
  | [], _ => []
  | f :: fs, s =>
    s :: (match f s with
      | .ok r s' => if stops s s' r then [] else invoked fs s'
      | .err _ => []
      | .panic => [])

/-- **Each hook at most once, in registration order**: the invoked hooks are a prefix of the list. -/
theorem invoked_prefix (fs : List HookFn) (s : Machine) : (invoked fs s).length ≤ fs.length := by
  induction fs generalizing s with
  | nil => simp [invoked]
  | cons f fs ih =>
    simp only [invoked, List.length_cons]
    split
    · split
      · simp
      · have := ih ‹Machine›; omega
    · simp
    · simp

/-- **All of them unless one reports handled, stops execution or fails.** -/
theorem invoked_all (fs : List HookFn) (s : Machine)
    (h : ∀ f ∈ fs, ∀ s, ∃ s', f s = .ok .unhandled s' ∧ (s'.finished = true → s.finished = true)) :
    (invoked fs s).length = fs.length := by
  induction fs generalizing s with
  | nil => simp [invoked]
  | cons f fs ih =>
    obtain ⟨s', hf, hfin⟩ := h f (List.mem_cons_self ..) s
    simp only [invoked, hf, List.length_cons]
    have : stops s s' .unhandled = false := by
      simp only [stops, Bool.or_eq_false_iff, Bool.and_eq_false_iff, Bool.not_eq_false']
      constructor
      · cases hs : s'.finished
        · exact Or.inl rfl
        · exact Or.inr (hfin hs)
      · decide
    simp only [this, Bool.false_eq_true, if_false]
    rw [ih s' (fun g hg => h g (List.mem_cons_of_mem _ hg))]

/-- Short-circuit: after a hook that reports the event handled, no later hook of the chain runs. -/
theorem handled_short_circuits (f : HookFn) (fs : List HookFn) (s s' : Machine) (h : f s = .ok .handled s') :
    invoked (f :: fs) s = [s] ∧ runChain (f :: fs) s = .ok s' := by
  simp [invoked, runChain, h, stops]

/-- Stop: after a hook that stops execution, no later hook of the chain runs and the chain succeeds. -/
theorem stop_short_circuits (f : HookFn) (fs : List HookFn) (s s' : Machine) (r : HookResult)
    (h : f s = .ok r s') (hs : s'.finished = true) (hn : s.finished = false) :
    invoked (f :: fs) s = [s] ∧ runChain (f :: fs) s = .ok s' := by
  simp [invoked, runChain, h, stops, hs, hn]

/-- A failing hook fails the chain; no later hook runs. -/
theorem error_fails_chain (f : HookFn) (fs : List HookFn) (s s' : Machine) (h : f s = .err s') :
    invoked (f :: fs) s = [s] ∧ runChain (f :: fs) s = .err s' := by
  simp [invoked, runChain, h]

/-- An unhandled, non-stopping hook hands its (possibly modified) machine to the next one:
    modifications persist. -/
theorem unhandled_continues (f : HookFn) (fs : List HookFn) (s s' : Machine)
    (h : f s = .ok .unhandled s') (hs : stops s s' .unhandled = false) :
    invoked (f :: fs) s = s :: invoked fs s' ∧ runChain (f :: fs) s = runChain fs s' := by
  have hs' : ((s'.finished && !s.finished) || (HookResult.unhandled == HookResult.handled)) = false := hs
  simp [invoked, runChain, h, hs, hs']

/-! ## The `running` flag -/

/-- **Whatever the hooks do and however the chain ends, `running` is false afterwards.** -/
theorem running_false_after (fs : List HookFn) (s : Machine) :
    match runFunctions fs s with
    | .ok s' => s'.hooksRunning = false
    | .err s' => s'.hooksRunning = false
    | .panic => True := by
  unfold runFunctions
  cases runChain fs { s with hooksRunning := true } <;> simp

/-- hooks cannot write the crate-private flag -/
def KeepsRunning (f : HookFn) : Prop :=
  ∀ s, (∀ r s', f s = .ok r s' → s'.hooksRunning = s.hooksRunning) ∧ (∀ s', f s = .err s' → s'.hooksRunning = s.hooksRunning)

/-- **Inside a hook the flag is set** (so registration from inside a hook is refused). -/
theorem running_true_inside (fs : List HookFn) (s : Machine) (hk : ∀ f ∈ fs, KeepsRunning f)
    (hs : s.hooksRunning = true) : ∀ t ∈ invoked fs s, t.hooksRunning = true := by
  induction fs generalizing s with
  | nil => simp [invoked]
  | cons f fs ih =>
    intro t ht
    simp only [invoked, List.mem_cons] at ht
    rcases ht with rfl | ht
    · exact hs
    · cases hf : f s with
      | panic => simp [hf] at ht
      | err s' => simp [hf] at ht
      | ok r s' =>
        simp only [hf] at ht
        split at ht
        · simp at ht
        · have := ((hk f (List.mem_cons_self ..)) s).1 r s' hf
          exact ih s' (fun g hg => hk g (List.mem_cons_of_mem _ hg)) (this.trans hs) t ht

/-- registration is refused exactly while a hook is executing -/
def canRegister (s : Machine) : Bool := !s.hooksRunning

theorem register_refused_inside (fs : List HookFn) (s : Machine) (hk : ∀ f ∈ fs, KeepsRunning f) :
    ∀ t ∈ invoked fs { s with hooksRunning := true }, canRegister t = false := by
  intro t ht
  simp [canRegister, running_true_inside fs _ hk rfl t ht]

/-! ## registration -/

/-- **A registration attempted while a hook executes is refused and leaves nothing behind** — no hook, no "already
    registered" mark: the same call made later, outside any hook, is the call it would have been without the attempt. -/
theorem refused_registration_leaves_nothing (t : HookTable) (reg ns : List Nat) (before : Bool) (mn : String) (f : HookFn) :
    handleSyscalls true t reg ns = none ∧ registerHook true t before mn f = none := ⟨rfl, rfl⟩

/-- **Whenever no hook is executing, registration succeeds**, and a not yet registered syscall number gets its
    handlers and its mark -/
theorem registration_outside (t : HookTable) (reg ns : List Nat) (before : Bool) (mn : String) (f : HookFn) :
    (handleSyscalls false t reg ns).isSome ∧ (registerHook false t before mn f).isSome := ⟨rfl, rfl⟩

theorem register_fresh_number (t : HookTable) (reg : List Nat) (n : Nat) (h : n ∉ reg) :
    handleSyscalls false t reg [n] = some (builtinHooks t n, reg ++ [n]) := by
  simp [handleSyscalls, registerOne, h]

/-- an already registered number is skipped: no second copy of its handlers -/
theorem register_known_number (t : HookTable) (reg : List Nat) (n : Nat) (h : n ∈ reg) :
    handleSyscalls false t reg [n] = some (t, reg) := by
  simp [handleSyscalls, registerOne, h]

/-- replacing the entry of a present key: the lookup finds the replacement -/
theorem get_map_replace (mn : String) (E : HookEntry) (t : HookTable) (h : (t.get mn).isSome) :
    HookTable.get (t.map fun (k, v) => if k == mn then (k, E) else (k, v)) mn = some E := by
  unfold HookTable.get at h ⊢
  induction t with
  | nil => simp at h
  | cons p rest ih =>
    obtain ⟨k, v⟩ := p
    cases hk : (k == mn) with
    | true =>
      simp only [List.map_cons, hk, if_true, List.find?, Option.map_some]
    | false =>
      simp only [List.find?, hk] at h
      simp only [List.map_cons, hk, Bool.false_eq_true, if_false, List.find?]
      exact ih h

/-- the registered hook is appended: it runs after every hook registered before it for that mnemonic -/
theorem registered_hook_is_last (t : HookTable) (mn : String) (f : HookFn) (e : HookEntry) (h : t.get mn = some e) :
    (t.addBefore mn f).get mn = some { e with before := e.before ++ [f] } := by
  unfold HookTable.addBefore
  simp only [h]
  exact get_map_replace mn _ t (by simp [h])

/-- … and the first hook for a mnemonic makes the entry -/
theorem registered_hook_first (t : HookTable) (mn : String) (f : HookFn) (h : t.get mn = none) :
    (t.addBefore mn f).get mn = some { before := [f] } := by
  unfold HookTable.addBefore
  simp only [h]
  unfold HookTable.get at h ⊢
  have : t.find? (fun x => x.1 == mn) = none := by
    cases hf : t.find? (fun x => x.1 == mn) with
    | none => rfl
    | some x => simp [hf] at h
  simp [List.find?_append, this]

/-! ## One step -/

theorem runEntry_running (entry : Option HookEntry) (before : Bool) (s : Machine) (hs : s.hooksRunning = false) :
    match runEntry entry before s with
    | .ok s' => s'.hooksRunning = false
    | .err s' => s'.hooksRunning = false
    | .panic => True := by
  unfold runEntry
  cases entry with
  | none => exact hs
  | some e => exact running_false_after _ s

/-- **Hooks can be registered whenever no hook is executing**: after every step — successful, failed
    in a hook, failed in the instruction — `running` is false again. -/
theorem running_false_outside (hooks : HookTable) (i : Instr) (s : Machine) (hs : s.hooksRunning = false)
    (hnp : (stepDecoded hooks i s).out ≠ .panic) :
    (stepDecoded hooks i s).s.hooksRunning = false := by
  unfold stepDecoded at hnp ⊢
  simp only at hnp ⊢
  split
  · exact hs
  · have h1 := runEntry_running (hooks.get i.mnem) true (setRip s i.nextIp) hs
    cases hr : runEntry (hooks.get i.mnem) true (setRip s i.nextIp) with
    | panic => simp_all
    | err s2 => simp only [hr] at h1 ⊢; exact h1
    | ok s2 =>
      simp only [hr] at h1 hnp ⊢
      unfold stepExec at hnp ⊢
      cases hx : exec (fun mn => (hooks.get mn).isSome) i s2 with
      | err => simp only; exact h1
      | panic => simp_all
      | finish =>
        simp only [hx] at hnp ⊢
        unfold stepAfterExec at hnp ⊢
        simp only at hnp ⊢
        have h5 : (if s2.regs.rip.toNat = s2.codeEnd then
            ({ ({ s2 with finished := true } : Machine) with count := s2.count + 1, finished := true } : Machine)
            else { ({ s2 with finished := true } : Machine) with count := s2.count + 1 }).hooksRunning = false := by
          split <;> exact h1
        have := runEntry_running (hooks.get i.mnem) false _ h5
        split <;> simp_all
      | ok s3 =>
        simp only [hx] at hnp ⊢
        have h3 : s3.hooksRunning = false := by
          have := congrArg Ctl.hooksRunning (exec_ctl hx).1
          simp only [Machine.ctl] at this
          rw [this]; exact h1
        unfold stepAfterExec at hnp ⊢
        simp only at hnp ⊢
        have h5 : (if s3.regs.rip.toNat = s3.codeEnd then
            ({ s3 with count := s3.count + 1, finished := true } : Machine)
            else { s3 with count := s3.count + 1 }).hooksRunning = false := by
          split <;> exact h3
        have := runEntry_running (hooks.get i.mnem) false _ h5
        split <;> simp_all

/-- **Hooks of other mnemonics are never invoked**: a step consults the hook table only at the
    executed instruction's mnemonic (and, for SYSCALL/INT, whether *some* hook exists for it). -/
theorem other_mnemonics_silent (hooks hooks' : HookTable) (i : Instr) (s : Machine)
    (hsame : hooks.get i.mnem = hooks'.get i.mnem)
    (hsome : ∀ mn, (hooks.get mn).isSome = (hooks'.get mn).isSome) :
    stepDecoded hooks i s = stepDecoded hooks' i s := by
  have : (fun mn => (hooks.get mn).isSome) = (fun mn => (hooks'.get mn).isSome) := funext hsome
  unfold stepDecoded stepExec
  simp only [hsame, this]

/-- **Before-hooks see RIP already advanced** to the next instruction, and run before any effect of
    the instruction: the first one is called on the entry state with RIP = next_ip (and `running`). -/
theorem before_sees_next_rip (e : HookEntry) (f : HookFn) (fs : List HookFn) (i : Instr) (s : Machine)
    (he : e.before = f :: fs) :
    (invoked e.before { setRip s i.nextIp with hooksRunning := true }).head? =
      some { setRip s i.nextIp with hooksRunning := true } ∧
    ({ setRip s i.nextIp with hooksRunning := true } : Machine).regs.rip = i.nextIp ∧
    ({ setRip s i.nextIp with hooksRunning := true } : Machine).mem = s.mem ∧
    ({ setRip s i.nextIp with hooksRunning := true } : Machine).regs.gpr = s.regs.gpr := by
  simp [he, invoked, setRip]

/-- A failing before-hook makes the step fail before the instruction executes; a failing after-hook
    makes it fail after. -/
theorem before_error_step_err (hooks : HookTable) (i : Instr) (s s2 : Machine)
    (hsup : supportedMnemonics.contains i.mnem = true)
    (h : runEntry (hooks.get i.mnem) true (setRip s i.nextIp) = .err s2) :
    (stepDecoded hooks i s).out = .err ∧ (stepDecoded hooks i s).s = s2 := by
  have hsup' : i.mnem ∈ supportedMnemonics := by simpa using hsup
  simp [stepDecoded, hsup', h]

theorem after_error_step_err (entry : Option HookEntry) (s3 s6 : Machine)
    (h : runEntry entry false
      (if ({ s3 with count := s3.count + 1 } : Machine).regs.rip.toNat = s3.codeEnd
       then { s3 with count := s3.count + 1, finished := true } else { s3 with count := s3.count + 1 }) = .err s6) :
    (stepAfterExec entry s3).out = .err := by
  unfold stepAfterExec
  simp only
  split <;> simp_all

/-- **Stopping ends the run without error**: when a step's hooks stop execution the step still
    succeeds, reports "do not continue", and every further step fails and changes nothing. -/
theorem stop_ends_run (hooks : HookTable) (dec : Machine → List Byte → DecodeRes) (s6 : Machine)
    (hfin : s6.finished = true) :
    (step hooks dec s6).out = .err ∧ (step hooks dec s6).s = s6 := by
  simp [step, hfin]

/-! ## Non-vacuity -/
def hHandled : HookFn := fun s => .ok .handled s
def hUnhandled : HookFn := fun s => .ok .unhandled { s with regs := s.regs.set 0 7 }
def hStop : HookFn := fun s => .ok .unhandled { s with finished := true }

example : (invoked [hUnhandled, hHandled, hUnhandled] {}).length = 2 := by decide
example : (invoked [hStop, hUnhandled] {}).length = 1 := by decide
example : KeepsRunning hUnhandled := by intro s; simp [hUnhandled]


/-! ## every registration counts (no de-duplication, no cross-talk between the phases) -/

theorem registered_after_is_last (t : HookTable) (mn : String) (f : HookFn) (e : HookEntry) (h : t.get mn = some e) :
    (t.addAfter mn f).get mn = some { e with after := e.after ++ [f] } := by
  unfold HookTable.addAfter
  simp only [h]
  exact get_map_replace mn _ t (by simp [h])

theorem registered_after_first (t : HookTable) (mn : String) (f : HookFn) (h : t.get mn = none) :
    (t.addAfter mn f).get mn = some { after := [f] } := by
  unfold HookTable.addAfter
  simp only [h]
  unfold HookTable.get at h ⊢
  have : t.find? (fun x => x.1 == mn) = none := by
    cases hf : t.find? (fun x => x.1 == mn) with
    | none => rfl
    | some x => simp [hf] at h
  simp [List.find?_append, this]

/-- registration in either phase, whatever the table held: exactly the chosen phase's list grows by `f` at its end -/
theorem register_appends (t : HookTable) (mn : String) (f : HookFn) :
    (t.addBefore mn f).get mn =
      some { before := ((t.get mn).getD {}).before ++ [f], after := ((t.get mn).getD {}).after } ∧
    (t.addAfter mn f).get mn =
      some { before := ((t.get mn).getD {}).before, after := ((t.get mn).getD {}).after ++ [f] } := by
  cases h : t.get mn with
  | none => exact ⟨by rw [registered_hook_first t mn f h]; rfl, by rw [registered_after_first t mn f h]; rfl⟩
  | some e => exact ⟨by rw [registered_hook_is_last t mn f e h]; rfl, by rw [registered_after_is_last t mn f e h]; rfl⟩

/-- **The tracer pattern**: the *same* callback registered before and after a mnemonic is in both lists — the second
    registration is not dropped because the first one exists. -/
theorem same_callback_both_phases (t : HookTable) (mn : String) (f : HookFn) :
    ((t.addBefore mn f).addAfter mn f).get mn =
      some { before := ((t.get mn).getD {}).before ++ [f], after := ((t.get mn).getD {}).after ++ [f] } := by
  rw [(register_appends (t.addBefore mn f) mn f).2, (register_appends t mn f).1]
  rfl

/-- … and registered twice for the same phase it is there twice (and, by `invoked_all`, runs twice per instruction
    unless it short-circuits). -/
theorem same_callback_twice (t : HookTable) (mn : String) (f : HookFn) :
    ((t.addBefore mn f).addBefore mn f).get mn =
      some { before := ((t.get mn).getD {}).before ++ [f, f], after := ((t.get mn).getD {}).after } := by
  rw [(register_appends (t.addBefore mn f) mn f).1, (register_appends t mn f).1]
  simp

end Ax.C12
