/-
  C10 — memory areas never overlap; allocation and resizing respect existing areas.

  `NoOverlap` (no address in two areas) and the representation invariant `Mem.WF` are invariants
  of every area operation — successful or rejected — and therefore of every reachable layout.
-/
import AxVerif.Lemmas.Mem
import AxVerif.Props.C08
namespace Ax.C10
open Ax

/-- `NoOverlap` says what it should: no address belongs to two different positions of the list. -/
theorem noOverlap_unique (m : Mem) (h : NoOverlap m) (i j : Nat) (hi : i < m.length) (hj : j < m.length)
    (hij : i ≠ j) (x : Nat) : ¬ (m[i].contains x = true ∧ m[j].contains x = true) := by
  have hp := List.pairwise_iff_getElem.mp h
  rcases Nat.lt_or_gt_of_ne hij with hlt | hgt
  · exact disjoint_not_both (hp i j hi hj hlt) x
  · intro ⟨a, b⟩
    exact disjoint_not_both (hp j i hj hi hgt) x ⟨b, a⟩

theorem disjoint_symm {a b : Area} (h : a.disjoint b) : b.disjoint a := by
  unfold Area.disjoint at *; omega

/-- not colliding (the test the code performs) implies sharing no address -/
theorem disjoint_of_not_collides (start len : Nat) (ar : Area) (name data access)
    (h : collides start len ar = false) :
    ar.disjoint { name := name, start := start, len := len, data := data, access := access } := by
  simp only [collides, Bool.or_eq_false_iff, Bool.and_eq_false_iff, decide_eq_false_iff_not] at h
  unfold Area.disjoint
  simp only
  omega

/-- sharing an address implies colliding (so the request is rejected) -/
theorem collides_of_shared (start len : Nat) (ar : Area) (x : Nat)
    (hx : ar.contains x = true) (hr : start ≤ x ∧ x < start + len) : collides start len ar = true := by
  rw [contains_iff] at hx
  simp only [collides, Bool.or_eq_true, Bool.and_eq_true, decide_eq_true_eq]
  omega

/-! ## Creating an area -/

theorem initArea_ok (m : Mem) (start : Nat) (data : List Byte) (name) (m' : Mem)
    (h : initArea m start data name = .ok m') :
    m' = m ++ [{ name := name, start := start, len := data.length, data := data, access := PROT_READ ||| PROT_WRITE }] ∧
    pastEnd start data.length = false ∧ ∀ ar ∈ m, collides start data.length ar = false := by
  unfold initArea at h
  split at h
  · cases h
  split at h
  · cases h
  rename_i h1 h2
  simp only [Out.ok.injEq] at h
  refine ⟨h.symm, by simpa using h1, ?_⟩
  intro ar har
  have := List.any_eq_false.mp (by simpa using h2) ar har
  simpa using this

/-- Creating an area preserves the invariants. -/
theorem initArea_preserves (m : Mem) (hm : m.WF) (hno : NoOverlap m) (start : Nat) (data : List Byte) (name) (m' : Mem)
    (h : initArea m start data name = .ok m') : m'.WF ∧ NoOverlap m' := by
  obtain ⟨rfl, hpe, hcol⟩ := initArea_ok m start data name m' h
  constructor
  · intro ar har
    rcases List.mem_append.mp har with har | har
    · exact hm ar har
    · simp only [List.mem_singleton] at har
      subst har
      simp only [pastEnd, Bool.and_eq_false_iff, decide_eq_false_iff_not] at hpe
      refine ⟨rfl, ?_⟩
      simp only
      omega
  · refine List.pairwise_append.mpr ⟨hno, List.pairwise_singleton _ _, ?_⟩
    intro a ha b hb
    simp only [List.mem_singleton] at hb
    subst hb
    exact disjoint_of_not_collides _ _ _ _ _ _ (hcol a ha)

/-- A request that shares an address with an existing area is rejected. -/
theorem overlap_rejected (m : Mem) (start : Nat) (data : List Byte) (name)
    (h : ∃ ar ∈ m, ∃ x, ar.contains x = true ∧ start ≤ x ∧ x < start + data.length) :
    initArea m start data name = .err := by
  obtain ⟨ar, har, x, hx, hr⟩ := h
  unfold initArea
  split
  · rfl
  have : m.any (collides start data.length) = true :=
    List.any_eq_true.mpr ⟨ar, har, collides_of_shared _ _ _ x hx hr⟩
  simp [this]

/-- A request reaching past 2^64 is rejected. -/
theorem past_end_rejected (m : Mem) (start : Nat) (data : List Byte) (name)
    (h : 0 < data.length ∧ U64 < start + data.length) : initArea m start data name = .err := by
  unfold initArea
  have : pastEnd start data.length = true := by
    simp only [pastEnd, Bool.and_eq_true, decide_eq_true_eq]; omega
  simp [this]

theorem initArea_never_panics (m : Mem) (start : Nat) (data : List Byte) (name) :
    initArea m start data name ≠ .panic := by
  unfold initArea; repeat' split
  all_goals simp

/-! ## Changing permissions -/

theorem memProt_go_ok (start prot : Nat) (m m' : Mem) (h : memProt.go start prot m = .ok m') :
    m'.map (fun ar => (ar.name, ar.start, ar.len, ar.data)) = m.map (fun ar => (ar.name, ar.start, ar.len, ar.data)) := by
  induction m generalizing m' with
  | nil => simp [memProt.go] at h
  | cons ar rest ih =>
    unfold memProt.go at h
    split at h
    · simp only [Out.ok.injEq] at h; subst h; simp
    · cases hr : memProt.go start prot rest with
      | ok r => simp only [hr, Out.ok.injEq] at h; subst h; simp [ih r hr]
      | err => simp [hr] at h
      | panic => simp [hr] at h

theorem memProt_preserves (m : Mem) (hm : m.WF) (hno : NoOverlap m) (start prot : Nat) (m' : Mem)
    (h : memProt m start prot = .ok m') : m'.WF ∧ NoOverlap m' := by
  unfold memProt at h
  split at h
  · cases h
  have hmap := memProt_go_ok start prot m m' h
  constructor
  · intro ar' har'
    have : (ar'.name, ar'.start, ar'.len, ar'.data) ∈ m'.map (fun ar => (ar.name, ar.start, ar.len, ar.data)) :=
      List.mem_map.mpr ⟨ar', har', rfl⟩
    rw [hmap] at this
    obtain ⟨ar, har, he⟩ := List.mem_map.mp this
    simp only [Prod.mk.injEq] at he
    have := hm ar har
    unfold Area.WF at *
    rw [← he.2.1, ← he.2.2.1, ← he.2.2.2]
    exact this
  · apply noOverlap_of_extents _ hno
    have := congrArg (List.map fun (t : Option String × Nat × Nat × List Byte) => (t.2.1, t.2.2.1)) hmap
    simpa [List.map_map, Function.comp_def] using this

/-! ## Resizing -/

theorem collidesOther_false (m : Mem) (skip : Option Nat) (start len : Nat)
    (h : collidesOther m skip start len = false) (j : Nat) (hj : j < m.length) (hne : some j ≠ skip) :
    collides start len m[j] = false := by
  unfold collidesOther at h
  have := List.any_eq_false.mp h (m[j], j) (List.mem_zipIdx_iff_getElem?.mpr (by simp [hj]))
  simpa [hne] using this

theorem collidesOther_true (m : Mem) (skip : Option Nat) (start len : Nat) (j : Nat) (hj : j < m.length)
    (hne : some j ≠ skip) (hc : collides start len m[j] = true) : collidesOther m skip start len = true := by
  unfold collidesOther
  exact List.any_eq_true.mpr ⟨(m[j], j), List.mem_zipIdx_iff_getElem?.mpr (by simp [hj]), by simp [hne, hc]⟩

/-- Shape of a successful resize. -/
theorem resize_ok (m : Mem) (start n : Nat) (m' : Mem) (h : resizeSection m start n = .ok m') :
    ∃ i, areaIndex m start = some i ∧ pastEnd start n = false ∧ collidesOther m (some i) start n = false ∧
      m' = m.modify i (fun ar => { ar with data := resizeData ar.data n, len := n }) := by
  unfold resizeSection at h
  simp only at h
  split at h
  · cases h
  split at h
  · cases h
  rename_i h1 h2
  split at h
  · cases h
  · rename_i i hi
    simp only [Out.ok.injEq] at h
    exact ⟨i, hi, by simpa using h1, by rw [hi] at h2; simpa using h2, h.symm⟩

/-- Resizing preserves the invariants. -/
theorem resize_preserves (m : Mem) (hm : m.WF) (hno : NoOverlap m) (start n : Nat) (m' : Mem)
    (h : resizeSection m start n = .ok m') : m'.WF ∧ NoOverlap m' := by
  obtain ⟨i, hi, hpe, hco, rfl⟩ := resize_ok m start n m' h
  obtain ⟨hil, hst, _⟩ := List.findIdx?_eq_some_iff_getElem.mp hi
  simp only [decide_eq_true_eq] at hst
  simp only [pastEnd, Bool.and_eq_false_iff, decide_eq_false_iff_not] at hpe
  constructor
  · intro ar har
    obtain ⟨j, hj, rfl⟩ := List.getElem_of_mem har
    rw [List.getElem_modify]
    split
    · rename_i hij
      subst hij
      refine ⟨?_, ?_⟩
      · simp [resizeData, zeros]; omega
      · simp only; rw [hst]; omega
    · exact hm _ (List.getElem_mem _)
  · apply List.pairwise_iff_getElem.mpr
    intro a b ha hb hab
    rw [List.length_modify] at ha hb
    rw [List.getElem_modify, List.getElem_modify]
    have hp := List.pairwise_iff_getElem.mp hno
    by_cases hia : i = a
    · subst hia
      have hib : ¬ i = b := by omega
      simp only [if_true, hib, if_false]
      have := collidesOther_false m _ start n hco b hb (by simp; omega)
      have hd := disjoint_of_not_collides start n m[b] m[i].name (resizeData m[i].data n) m[i].access this
      have := disjoint_symm hd
      unfold Area.disjoint at this ⊢
      simp only at this ⊢
      rw [hst]; exact this
    · by_cases hib : i = b
      · subst hib
        simp only [hia, if_false, if_true]
        have := collidesOther_false m _ start n hco a ha (by simp; omega)
        have hd := disjoint_of_not_collides start n m[a] m[i].name (resizeData m[i].data n) m[i].access this
        unfold Area.disjoint at hd ⊢
        simp only at hd ⊢
        rw [hst]; exact hd
      · simp only [hia, hib, if_false]
        exact hp a b ha hb hab

/-- **Resizing succeeds exactly when** an area with that start exists, the new extent stays inside
    the address space and collides with no *other* area (the area itself is not an obstacle). -/
theorem resize_iff (m : Mem) (start n : Nat) :
    (∃ m', resizeSection m start n = .ok m') ↔
      ∃ i, areaIndex m start = some i ∧ pastEnd start n = false ∧
        ∀ j (hj : j < m.length), j ≠ i → collides start n m[j] = false := by
  constructor
  · rintro ⟨m', h⟩
    obtain ⟨i, hi, hpe, hco, _⟩ := resize_ok m start n m' h
    exact ⟨i, hi, hpe, fun j hj hne => collidesOther_false m _ start n hco j hj (by simp [hne])⟩
  · rintro ⟨i, hi, hpe, hall⟩
    unfold resizeSection
    have hco : collidesOther m (some i) start n = false := by
      cases hc : collidesOther m (some i) start n with
      | false => rfl
      | true =>
        exfalso
        unfold collidesOther at hc
        obtain ⟨⟨ar, j⟩, hmem, hp⟩ := List.any_eq_true.mp hc
        have hj := List.mem_zipIdx_iff_getElem?.mp hmem
        simp only at hj hp
        obtain ⟨hjl, rfl⟩ := List.getElem?_eq_some_iff.mp hj
        simp only [Bool.and_eq_true, bne_iff_ne, ne_eq, Option.some.injEq] at hp
        have := hall j hjl hp.1
        rw [this] at hp
        exact absurd hp.2 (by simp)
    simp [hi, hpe, hco]

/-- With a non-empty new extent and a non-empty other area, "collides" is exactly "shares an address". -/
theorem collides_iff_shares (start n : Nat) (ar : Area) (hn : 0 < n) (hl : 0 < ar.len) :
    collides start n ar = true ↔ ∃ x, ar.contains x = true ∧ start ≤ x ∧ x < start + n := by
  constructor
  · intro h
    simp only [collides, Bool.or_eq_true, Bool.and_eq_true, decide_eq_true_eq] at h
    rcases h with h | h
    · exact ⟨start, by rw [contains_iff]; omega, by omega, by omega⟩
    · exact ⟨ar.start, by rw [contains_iff]; omega, by omega, by omega⟩
  · rintro ⟨x, hx, hr⟩
    exact collides_of_shared start n ar x hx hr

/-- Resizing keeps the common prefix, zero-fills growth and touches no other area. -/
theorem resize_prefix_zero (m : Mem) (start n : Nat) (m' : Mem) (h : resizeSection m start n = .ok m') :
    ∃ i, areaIndex m start = some i ∧ ∃ hi : i < m.length, m'.length = m.length ∧
      (∀ j (hj : j < m.length) (hj' : j < m'.length), j ≠ i → m'[j] = m[j]) ∧
      ∀ hi' : i < m'.length,
        m'[i].start = start ∧ m'[i].len = n ∧ m'[i].access = m[i].access ∧ m'[i].name = m[i].name ∧
        ∀ k, m'[i].data[k]? =
          if k < n then (if k < m[i].data.length then m[i].data[k]? else some 0) else none := by
  obtain ⟨i, hi, _, _, rfl⟩ := resize_ok m start n m' h
  obtain ⟨hil, hst, _⟩ := List.findIdx?_eq_some_iff_getElem.mp hi
  simp only [decide_eq_true_eq] at hst
  refine ⟨i, hi, hil, List.length_modify .., ?_, ?_⟩
  · intro j hj hj' hne
    rw [List.getElem_modify]
    simp [Ne.symm hne]
  · intro hi'
    rw [List.getElem_modify]
    simp only [if_true]
    refine ⟨hst, trivial, trivial, trivial, fun k => ?_⟩
    simp only [resizeData, zeros]
    by_cases hk : k < n
    · simp only [hk, if_true]
      by_cases hk2 : k < m[i].data.length
      · simp only [hk2, if_true]
        rw [List.getElem?_append_left (by simp; omega), List.getElem?_take_of_lt hk]
      · simp only [hk2, if_false]
        rw [List.getElem?_append_right (by simp; omega)]
        rw [List.getElem?_replicate, List.length_take]
        split
        · rfl
        · omega
    · simp only [hk, if_false]
      rw [List.getElem?_eq_none]
      simp; omega

theorem resize_never_panics (m : Mem) (start n : Nat) : resizeSection m start n ≠ .panic := by
  unfold resizeSection; simp only; repeat' split
  all_goals simp

/-! ## "Anywhere" allocation and the stack search -/

/-- The address search returns only an address at which the area was actually created. -/
theorem anywhereFrom_ok (m : Mem) (data : List Byte) (name) (s0 : Nat) (s : Nat) (m' : Mem)
    (h : initAnywhereFrom m data name s0 = .ok (s, m')) :
    s0 ≤ s ∧ s < SEARCH_END ∧ initArea m s data name = .ok m' := by
  fun_induction initAnywhereFrom m data name s0 with
  | case1 start hge => simp at h
  | case2 start hlt m1 hm1 =>
    simp only [Out.ok.injEq, Prod.mk.injEq] at h
    obtain ⟨rfl, rfl⟩ := h
    exact ⟨Nat.le_refl _, by omega, hm1⟩
  | case3 start hlt hp => cases h
  | case4 start hlt he ih =>
    obtain ⟨h1, h2, h3⟩ := ih h
    refine ⟨?_, h2, h3⟩
    simp only [SEARCH_END, U64] at *
    omega

/-- **Anywhere allocation is fresh.**  A successful call returns the start of a newly created area of
    exactly the supplied bytes (zeros for `mem_init_zero_anywhere`) that shares no address with any
    area that existed before; the old areas are untouched and the invariants hold. -/
theorem anywhere_fresh (m : Mem) (hm : m.WF) (hno : NoOverlap m) (data : List Byte) (name) (s : Nat) (m' : Mem)
    (h : initAnywhere m data name = .ok (s, m')) :
    m' = m ++ [{ name := name, start := s, len := data.length, data := data, access := PROT_READ ||| PROT_WRITE }] ∧
    (∀ ar ∈ m, ∀ x, ar.contains x = true → ¬ (s ≤ x ∧ x < s + data.length)) ∧
    (data.length = 0 ∨ s + data.length ≤ U64) ∧ m'.WF ∧ NoOverlap m' := by
  obtain ⟨_, _, hi⟩ := anywhereFrom_ok m data name _ s m' h
  obtain ⟨hm', hpe, hcol⟩ := initArea_ok m s data name m' hi
  refine ⟨hm', ?_, ?_, initArea_preserves m hm hno s data name m' hi⟩
  · intro ar har x hx hr
    have := collides_of_shared s data.length ar x hx hr
    rw [hcol ar har] at this
    cases this
  · simp only [pastEnd, Bool.and_eq_false_iff, decide_eq_false_iff_not] at hpe
    omega

theorem zero_anywhere_fresh (m : Mem) (hm : m.WF) (hno : NoOverlap m) (len : Nat) (s : Nat) (m' : Mem)
    (h : initZeroAnywhere m len = .ok (s, m')) :
    m' = m ++ [{ name := none, start := s, len := len, data := zeros len, access := PROT_READ ||| PROT_WRITE }] ∧
    m'.WF ∧ NoOverlap m' := by
  have := anywhere_fresh m hm hno (zeros len) none s m' h
  simp only [zeros, List.length_replicate] at this
  exact ⟨this.1, this.2.2.2⟩

theorem anywhere_never_panics (m : Mem) (data : List Byte) (name) (s0 : Nat) :
    initAnywhereFrom m data name s0 ≠ .panic := by
  fun_induction initAnywhereFrom m data name s0 with
  | case1 => simp
  | case2 => simp
  | case3 start hlt hp => exact absurd hp (initArea_never_panics _ _ _ _)
  | case4 start hlt he ih => exact ih

theorem stackAreaFrom_ok (m : Mem) (len : Nat) (s0 : Nat) (h0 : 0 < s0) (s : Nat) (m' : Mem)
    (h : initStackAreaFrom m len s0 h0 = .ok (s, m')) :
    s0 ≤ s ∧ s < SEARCH_END ∧ initZero m s len (some "Stack") = .ok m' := by
  fun_induction initStackAreaFrom m len s0 h0 with
  | case1 start _ hge => simp at h
  | case2 start _ hlt m1 hm1 =>
    simp only [Out.ok.injEq, Prod.mk.injEq] at h
    obtain ⟨rfl, rfl⟩ := h
    exact ⟨Nat.le_refl _, by omega, hm1⟩
  | case3 start _ hlt hp => cases h
  | case4 start _ hlt he ih =>
    obtain ⟨h1, h2, h3⟩ := ih h
    exact ⟨by omega, h2, h3⟩

theorem stackArea_preserves (m : Mem) (hm : m.WF) (hno : NoOverlap m) (len : Nat) (s : Nat) (m' : Mem)
    (h : initStackArea m len = .ok (s, m')) : m'.WF ∧ NoOverlap m' := by
  obtain ⟨_, _, hi⟩ := stackAreaFrom_ok m len _ _ s m' h
  exact initArea_preserves m hm hno s (zeros len) _ m' hi

/-! ## Every operation, every history -/

/-- The area operations of the public API (and the byte write, which must not disturb the layout). -/
inductive MemOp where
  | area (start : Nat) (data : List Byte) (name : Option String)
  | zero (start len : Nat) (name : Option String)
  | prot (start prot : Nat)
  | resize (start n : Nat)
  | anywhere (data : List Byte) (name : Option String)
  | zeroAnywhere (len : Nat)
  | stack (len : Nat)
  | write (addr : Nat) (data : List Byte)

def keep (m : Mem) : Out Mem → Mem
  | .ok m' => m'
  | _ => m

def keep2 (m : Mem) : Out (Nat × Mem) → Mem
  | .ok (_, m') => m'
  | _ => m

/-- apply one operation; a rejected operation leaves the layout as it was -/
def applyOp (m : Mem) : MemOp → Mem
  | .area s d n => keep m (initArea m s d n)
  | .zero s l n => keep m (initZero m s l n)
  | .prot s p => keep m (memProt m s p)
  | .resize s n => keep m (resizeSection m s n)
  | .anywhere d n => keep2 m (initAnywhere m d n)
  | .zeroAnywhere l => keep2 m (initZeroAnywhere m l)
  | .stack l => keep2 m (initStackArea m l)
  | .write a d => keep m (memWriteBytes m a d)

/-- **Every operation preserves the invariants**, whether it succeeds or is rejected. -/
theorem op_preserves (m : Mem) (hm : m.WF) (hno : NoOverlap m) (op : MemOp) :
    (applyOp m op).WF ∧ NoOverlap (applyOp m op) := by
  cases op with
  | area s d n =>
    simp only [applyOp]
    cases h : initArea m s d n <;> simp only [keep]
    · exact initArea_preserves m hm hno s d n _ h
    all_goals exact ⟨hm, hno⟩
  | zero s l n =>
    simp only [applyOp]
    cases h : initZero m s l n <;> simp only [keep]
    · exact initArea_preserves m hm hno s _ n _ h
    all_goals exact ⟨hm, hno⟩
  | prot s p =>
    simp only [applyOp]
    cases h : memProt m s p <;> simp only [keep]
    · exact memProt_preserves m hm hno s p _ h
    all_goals exact ⟨hm, hno⟩
  | resize s n =>
    simp only [applyOp]
    cases h : resizeSection m s n <;> simp only [keep]
    · exact resize_preserves m hm hno s n _ h
    all_goals exact ⟨hm, hno⟩
  | anywhere d n =>
    simp only [applyOp]
    cases h : initAnywhere m d n with
    | ok r => obtain ⟨s, m'⟩ := r; exact (anywhere_fresh m hm hno d n s m' h).2.2.2
    | err => exact ⟨hm, hno⟩
    | panic => exact ⟨hm, hno⟩
  | zeroAnywhere l =>
    simp only [applyOp]
    cases h : initZeroAnywhere m l with
    | ok r => obtain ⟨s, m'⟩ := r; exact (zero_anywhere_fresh m hm hno l s m' h).2
    | err => exact ⟨hm, hno⟩
    | panic => exact ⟨hm, hno⟩
  | stack l =>
    simp only [applyOp]
    cases h : initStackArea m l with
    | ok r => obtain ⟨s, m'⟩ := r; exact stackArea_preserves m hm hno l s m' h
    | err => exact ⟨hm, hno⟩
    | panic => exact ⟨hm, hno⟩
  | write a d =>
    simp only [applyOp]
    cases h : memWriteBytes m a d <;> simp only [keep]
    · obtain ⟨hsk, hwf, _, _⟩ := Ax.C08.write_spec m hm hno a d _ h
      exact ⟨hwf, noOverlap_of_extents (skeleton_extents hsk) hno⟩
    all_goals exact ⟨hm, hno⟩

/-- **Every reachable layout** — any sequence of operations from the empty memory — has no two
    areas sharing an address. -/
theorem reachable_noOverlap (ops : List MemOp) :
    (ops.foldl applyOp []).WF ∧ NoOverlap (ops.foldl applyOp []) := by
  suffices ∀ m : Mem, m.WF → NoOverlap m → (ops.foldl applyOp m).WF ∧ NoOverlap (ops.foldl applyOp m) from
    this [] (fun _ h => by cases h) List.Pairwise.nil
  induction ops with
  | nil => intro m hm hno; exact ⟨hm, hno⟩
  | cons op ops ih =>
    intro m hm hno
    obtain ⟨h1, h2⟩ := op_preserves m hm hno op
    exact ih _ h1 h2

/-! ## Non-vacuity and regression witnesses of the pre-fix behaviour -/

def exMem : Mem := [{ name := none, start := 0x2000, len := 4, data := [1, 2, 3, 4], access := 3 }]

/-- enclosing request (accepted by the pinned tree's start-only test) is rejected -/
example : initArea exMem 0x1ffe [0, 0, 0, 0, 0, 0, 0, 0] none = .err := by decide
/-- growing and shrinking an area with free space behind it works (always failed on the pinned tree) -/
example : (resizeSection exMem 0x2000 6).isOk = true ∧ (resizeSection exMem 0x2000 0).isOk = true := by decide
/-- a zero-length anywhere request terminates even though 0x1000.. is taken -/
example : (initZeroAnywhere [{ name := none, start := 0x1000, len := 4, data := [1, 2, 3, 4], access := 3 }] 0).isOk = true := by
  unfold initZeroAnywhere initAnywhere
  iterate 5 (rw [initAnywhereFrom]; simp [SEARCH_END, initArea, pastEnd, collides, zeros, U64, Out.isOk])

end Ax.C10
