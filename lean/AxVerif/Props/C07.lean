/-
  C07 — the register API behaves like the x86-64 register file (sub-register aliasing).

  Property theorems only.  Everything is stated for all register files, all registers, all values
  and (regfile_refines) all histories of API calls; nothing is bounded.
-/
import AxVerif.Spec.Regs
import Std.Tactic.BVDecide
namespace Ax.C07
open Ax Ax.Spec

/-- Abstraction: the model's vector-backed register file as the abstract one. -/
def abs (s : Regs) : RegFile := ⟨fun i => s.get i, s.rip⟩

theorem abs_set (s : Regs) (i : Fin 16) (v : BitVec 64) : abs (s.set i v) = (abs s).update i v := by
  simp only [abs, RegFile.update, Regs.rip_set]
  congr 1
  funext j
  by_cases h : j = i
  · subst h; simp
  · have : i ≠ j := fun e => h e.symm
    simp [h, this]

/-! ## Reads return exactly the architectural slice -/

/-- A read through the API of the matching width returns the view's bits, zero-extended. -/
theorem read_eq_extract (s : Regs) (r : Reg) (vw : View) (h : viewOf r = some vw) :
    regReadW s vw.width r = .ok (extract vw (s.get vw.parent)) := by
  cases r <;> simp [viewOf] at h <;> subst h <;>
    simp only [View.width, View.parent, regReadW, regRead8, regRead16, regRead32, regRead64, extract,
      Out.ok.injEq] <;>
    first
      | rfl
      | (generalize s.get _ = p; bv_decide)

/-! ## Writes are the architectural merge -/

/-- An in-range write through the API of the matching width stores the architectural merge
    into the parent register. -/
theorem write_eq_merge (s : Regs) (r : Reg) (vw : View) (v : BitVec 64)
    (h : viewOf r = some vw) (hv : v.toNat < 2 ^ vw.width) :
    regWriteW s vw.width r v = .ok (s.set vw.parent (merge vw v (s.get vw.parent))) := by
  cases r <;> simp [viewOf] at h <;> subst h <;>
    simp only [View.width, View.parent] at hv ⊢
  · -- 64
    simp [regWriteW, regWrite64, merge]
  · -- 32
    have hv' : ¬ (0xFFFFFFFF < v.toNat) := by omega
    simp only [regWriteW, regWrite32, hv', if_false, merge, Out.ok.injEq]
    congr 1
    have : v < 0x100000000#64 := by simp [BitVec.lt_def]; omega
    bv_decide
  · -- 16
    have hv' : ¬ (0xFFFF < v.toNat) := by omega
    simp only [regWriteW, regWrite16, hv', if_false, merge, Out.ok.injEq]
    congr 1
    have : v < 0x10000#64 := by simp [BitVec.lt_def]; omega
    generalize s.get _ = p
    bv_decide
  · -- 8 low
    have hv' : ¬ (0xFF < v.toNat) := by omega
    simp only [regWriteW, regWrite8, hv', if_false, merge, Out.ok.injEq]
    congr 1
    have : v < 0x100#64 := by simp [BitVec.lt_def]; omega
    generalize s.get _ = p
    bv_decide
  · -- 8 high
    have hv' : ¬ (0xFF < v.toNat) := by omega
    simp only [regWriteW, regWrite8, hv', if_false, merge, Out.ok.injEq]
    congr 1
    have : v < 0x100#64 := by simp [BitVec.lt_def]; omega
    generalize s.get _ = p
    bv_decide

/-- A successful write changes no other general-purpose register, nor RIP, nor any XMM register. -/
theorem write_other_untouched (s s' : Regs) (w : Nat) (r : Reg) (vw : View) (v : BitVec 64)
    (h : viewOf r = some vw) (hw : regWriteW s w r v = .ok s') :
    (∀ j, j ≠ vw.parent → s'.get j = s.get j) ∧ s'.rip = s.rip ∧ s'.xmm = s.xmm := by
  cases r <;> simp [viewOf] at h <;> subst h <;>
    (simp only [regWriteW] at hw; split at hw) <;>
    simp only [regWrite8, regWrite16, regWrite32, regWrite64, reduceCtorEq] at hw <;>
    (try split at hw) <;>
    simp only [reduceCtorEq, Out.ok.injEq] at hw <;>
    (subst hw; refine ⟨fun j hj => ?_, rfl, rfl⟩; exact Regs.get_set_ne _ _ _ _ (fun e => hj e.symm))

/-! ## The aliasing rules spelled out -/

/-- 32-bit writes zero the upper 32 bits of the parent. -/
theorem write32_zero_extends (s s' : Regs) (i : Fin 16) (v : BitVec 64)
    (hw : regWrite32 s (.g32 i) v = .ok s') :
    (s'.get i).extractLsb' 32 32 = 0#32 ∧ (s'.get i).extractLsb' 0 32 = v.extractLsb' 0 32 := by
  simp only [regWrite32] at hw
  split at hw
  · exact absurd hw (by simp)
  · simp only [Out.ok.injEq] at hw
    subst hw
    simp only [Regs.get_set_self]
    constructor <;> bv_decide

/-- 16-bit writes preserve the upper 48 bits. -/
theorem write16_preserves_upper48 (s s' : Regs) (i : Fin 16) (v : BitVec 64)
    (hw : regWrite16 s (.g16 i) v = .ok s') :
    (s'.get i).extractLsb' 16 48 = (s.get i).extractLsb' 16 48 ∧
    (s'.get i).extractLsb' 0 16 = v.extractLsb' 0 16 := by
  simp only [regWrite16] at hw
  split at hw
  · exact absurd hw (by simp)
  · rename_i hv
    simp only [Out.ok.injEq] at hw
    subst hw
    simp only [Regs.get_set_self]
    have : v < 0x10000#64 := by simp [BitVec.lt_def]; omega
    generalize s.get i = p
    constructor <;> bv_decide

/-- Low-byte writes change bits 0..7 only; high-byte writes change bits 8..15 only. -/
theorem write8_low_only (s s' : Regs) (i : Fin 16) (v : BitVec 64)
    (hw : regWrite8 s (.g8 i) v = .ok s') :
    (s'.get i).extractLsb' 8 56 = (s.get i).extractLsb' 8 56 ∧
    (s'.get i).extractLsb' 0 8 = v.extractLsb' 0 8 := by
  simp only [regWrite8] at hw
  split at hw
  · exact absurd hw (by simp)
  · rename_i hv
    simp only [Out.ok.injEq] at hw
    subst hw
    simp only [Regs.get_set_self]
    have : v < 0x100#64 := by simp [BitVec.lt_def]; omega
    generalize s.get i = p
    constructor <;> bv_decide

theorem write8_high_only (s s' : Regs) (i : Fin 4) (v : BitVec 64)
    (hw : regWrite8 s (.h8 i) v = .ok s') :
    (s'.get (hiParent i)).extractLsb' 16 48 = (s.get (hiParent i)).extractLsb' 16 48 ∧
    (s'.get (hiParent i)).extractLsb' 0 8 = (s.get (hiParent i)).extractLsb' 0 8 ∧
    (s'.get (hiParent i)).extractLsb' 8 8 = v.extractLsb' 0 8 := by
  simp only [regWrite8] at hw
  split at hw
  · exact absurd hw (by simp)
  · rename_i hv
    simp only [Out.ok.injEq] at hw
    subst hw
    simp only [Regs.get_set_self]
    have : v < 0x100#64 := by simp [BitVec.lt_def]; omega
    generalize s.get (hiParent i) = p
    refine ⟨?_, ?_, ?_⟩ <;> bv_decide

/-- AH/AL alias AX: after writing `x` to the high byte and `y` to the low byte, the 16-bit view
    reads `x·256 + y`, whatever was there before and in either order. -/
theorem high_low_alias (s s₁ s₂ : Regs) (i : Fin 4) (x y : BitVec 64)
    (h₁ : regWrite8 s (.h8 i) x = .ok s₁) (h₂ : regWrite8 s₁ (.g8 (hiParent i)) y = .ok s₂) :
    regRead16 s₂ (.g16 (hiParent i)) = .ok ((x <<< 8) ||| y) ∧
    regRead8 s₂ (.h8 i) = .ok x ∧ regRead8 s₂ (.g8 (hiParent i)) = .ok y := by
  simp only [regWrite8] at h₁ h₂
  split at h₁
  · exact absurd h₁ (by simp)
  split at h₂
  · exact absurd h₂ (by simp)
  rename_i hx hy
  simp only [Out.ok.injEq] at h₁ h₂
  subst h₁; subst h₂
  simp only [regRead16, regRead8, Regs.get_set_self, Out.ok.injEq]
  have : x < 0x100#64 := by simp [BitVec.lt_def]; omega
  have : y < 0x100#64 := by simp [BitVec.lt_def]; omega
  generalize s.get (hiParent i) = p
  refine ⟨?_, ?_, ?_⟩ <;> bv_decide

/-! ## Rejection: out-of-range values and wrong-width registers -/

/-- A value that does not fit the API's width is rejected (an error value, never a crash),
    for every register argument. -/
theorem reject_range (s : Regs) (w : Nat) (r : Reg) (v : BitVec 64)
    (hw : w = 8 ∨ w = 16 ∨ w = 32) (hv : 2 ^ w ≤ v.toNat) :
    regWriteW s w r v = .err := by
  rcases hw with rfl | rfl | rfl
  · have : 0xFF < v.toNat := by omega
    simp [regWriteW, regWrite8, this]
  · have : 0xFFFF < v.toNat := by omega
    simp [regWriteW, regWrite16, this]
  · have : 0xFFFFFFFF < v.toNat := by omega
    simp [regWriteW, regWrite32, this]

/-- A register that is not a GPR view of the API's width (wrong width, EIP, an XMM register;
    RIP except for the 64-bit calls) is rejected by reads and writes — an error value, never a crash. -/
theorem reject_width (s : Regs) (w : Nat) (r : Reg) (v : BitVec 64)
    (hr : ∀ vw, viewOf r = some vw → vw.width ≠ w) (hrip : ¬ (r = .rip ∧ w = 64)) :
    regWriteW s w r v = .err ∧ regReadW s w r = .err := by
  unfold regWriteW regReadW
  split <;> (try exact ⟨rfl, rfl⟩) <;>
    cases r <;>
    simp_all [viewOf, View.width, regWrite8, regWrite16, regWrite32, regWrite64, regRead8, regRead16,
      regRead32, regRead64]

/-- No call of the API ever crashes, whatever the arguments. -/
theorem never_panics (s : Regs) (w : Nat) (r : Reg) (v : BitVec 64) :
    regWriteW s w r v ≠ .panic ∧ regReadW s w r ≠ .panic := by
  constructor
  · unfold regWriteW regWrite8 regWrite16 regWrite32 regWrite64
    repeat' split
    all_goals simp
  · unfold regReadW regRead8 regRead16 regRead32 regRead64
    repeat' split
    all_goals simp

/-- A rejected or crashed call leaves the register file exactly as it was. -/
theorem rejected_unchanged (s : Regs) (op : RegOp) (h : (regStep s op).2 = .rejected ∨ (regStep s op).2 = .crashed) :
    (regStep s op).1 = s := by
  cases op with
  | write w r v => simp only [regStep] at h ⊢; split <;> simp_all
  | read w r => simp only [regStep]; split <;> rfl

/-! ## Refinement over all histories -/

/-- One step of the model is one step of the abstract register file. -/
theorem step_refines (s : Regs) (op : RegOp) :
    abs (regStep s op).1 = (Spec.step (abs s) op).1 ∧ (regStep s op).2 = (Spec.step (abs s) op).2 := by
  cases op with
  | write w r v =>
    cases hvw : viewOf r with
    | some vw =>
      by_cases hc : vw.width = w ∧ v.toNat < 2 ^ w
      · obtain ⟨hw, hv⟩ := hc
        subst hw
        have := write_eq_merge s r vw v hvw hv
        simp only [regStep, this, Spec.step, hvw, hv, and_self, if_true, abs_set]
        simp [abs]
      · simp only [Spec.step, hvw, hc, if_false]
        have herr : regWriteW s w r v = .err := by
          by_cases hw : vw.width = w
          · subst hw
            have hv : 2 ^ vw.width ≤ v.toNat := by
              have := fun h => hc ⟨rfl, h⟩
              omega
            have hne : vw.width ≠ 64 := by
              intro e; have := v.isLt; rw [e] at hv; omega
            apply reject_range _ _ _ _ _ hv
            cases vw <;> simp_all [View.width]
          · refine (reject_width s w r v ?_ ?_).1
            · intro vw' h'; rw [hvw] at h'; cases h'; exact hw
            · rintro ⟨rfl, -⟩; simp [viewOf] at hvw
        simp [regStep, herr]
    | none =>
      by_cases hc : r = .rip ∧ w = 64
      · obtain ⟨rfl, rfl⟩ := hc
        simp [regStep, regWriteW, regWrite64, Spec.step, viewOf, abs, Regs.get]
      · have herr := (reject_width s w r v (by simp [hvw]) hc).1
        simp [regStep, herr, Spec.step, hvw, hc]
  | read w r =>
    cases hvw : viewOf r with
    | some vw =>
      by_cases hw : vw.width = w
      · subst hw
        simp [regStep, read_eq_extract s r vw hvw, Spec.step, hvw, abs]
      · have herr := (reject_width s w r 0 (fun vw' h' => by rw [hvw] at h'; cases h'; exact hw)
          (by rintro ⟨rfl, -⟩; simp [viewOf] at hvw)).2
        simp [regStep, herr, Spec.step, hvw, hw]
    | none =>
      by_cases hc : r = .rip ∧ w = 64
      · obtain ⟨rfl, rfl⟩ := hc
        simp [regStep, regReadW, regRead64, Spec.step, viewOf, abs]
      · have herr := (reject_width s w r 0 (by simp [hvw]) hc).2
        simp [regStep, herr, Spec.step, hvw, hc]

/-- **Refinement.** Every history of API calls, from every register file, gives the results and
    the final register file the architectural register file gives. -/
theorem regfile_refines (ops : List RegOp) (s : Regs) :
    abs (regRun s ops).1 = (Spec.run (abs s) ops).1 ∧ (regRun s ops).2 = (Spec.run (abs s) ops).2 := by
  induction ops generalizing s with
  | nil => simp [regRun, Spec.run]
  | cons op ops ih =>
    have h1 := step_refines s op
    have h2 := ih (regStep s op).1
    simp only [regRun, Spec.run]
    rw [← h1.1, ← h1.2]
    exact ⟨h2.1, by rw [h2.2]⟩

/-! ## Non-vacuity: concrete witnesses for the hypotheses used above -/

example : viewOf (.h8 2) = some (.bh 2) ∧ (0xAB#64).toNat < 2 ^ (View.bh 2).width := by decide
example : ∃ s', regWrite8 Regs.zero (.h8 0) 0x12#64 = .ok s' := ⟨_, rfl⟩
example : 2 ^ 8 ≤ (0x100#64).toNat := by decide
example : ∀ vw, viewOf Reg.eip = some vw → vw.width ≠ 32 := by simp [viewOf]

end Ax.C07
