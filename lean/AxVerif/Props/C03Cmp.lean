/-
  C03 (continued) — `cmp ra, rb ; jcc T` for *all ten* relational conditions and both CMP encodings.

  `C03.lean` proves the pair for JL and JB.  Here one theorem covers JE, JNE, JB, JAE, JBE, JA, JL, JGE, JLE, JG:
  through the whole dispatch (`exec`, the table, the flag macro, the condition evaluation), for every machine
  state and every pair of 64-bit registers, the branch is taken exactly when the architectural relation between
  the two register values holds — `=`, `≠`, unsigned `<`, `≥`, `≤`, `>`, signed `<`, `≥`, `≤`, `>` — stated with
  `BitVec.ult/ule/slt/sle`, not with flags.
-/
import AxVerif.Props.C03
import AxVerif.Props.C01Alu
namespace Ax.C03
open Ax Ax.C02

/-- the relation each condition code is *supposed* to test after `cmp x, y` (SDM vol. 1, table 7-4 / Jcc) -/
def relOf (cc : String) (x y : BitVec 64) : Option Bool :=
  if cc = "Je" then some (x == y) else
  if cc = "Jne" then some (x != y) else
  if cc = "Jb" then some (x.ult y) else
  if cc = "Jae" then some (!x.ult y) else
  if cc = "Jbe" then some (x.ule y) else
  if cc = "Ja" then some (!x.ule y) else
  if cc = "Jl" then some (x.slt y) else
  if cc = "Jge" then some (!x.slt y) else
  if cc = "Jle" then some (x.sle y) else
  if cc = "Jg" then some (!x.sle y) else none

/-! bit facts, free of any instruction in scope -/
theorem zf_is_eq (a b : BitVec 64) : decide (a - b = 0) = (a == b) := by bv_decide
theorem ule_from_flags (a b : BitVec 64) : (BitVec.usubOverflow a b || decide (a - b = 0)) = a.ule b := by bv_decide
theorem sle_from_flags (a b : BitVec 64) :
    (decide (a - b = 0) || ((a - b).msb != BitVec.ssubOverflow a b)) = a.sle b := by bv_decide
theorem sge_from_flags (a b : BitVec 64) : ((a - b).msb == BitVec.ssubOverflow a b) = !a.slt b := by bv_decide
theorem sgt_from_flags (a b : BitVec 64) :
    (!decide (a - b = 0) && ((a - b).msb == BitVec.ssubOverflow a b)) = !a.sle b := by bv_decide
theorem ugt_from_flags (a b : BitVec 64) : (!BitVec.usubOverflow a b && !decide (a - b = 0)) = !a.ule b := by bv_decide
theorem ne_from_flags (a b : BitVec 64) : (!decide (a - b = 0)) = (a != b) := by bv_decide

/-- flags produced by a compare of `x` with `y` make every relational condition evaluate to its relation -/
theorem cond_after_cmp (f x y : BitVec 64)
    (hcf : has f FLAG_CF = BitVec.usubOverflow x y) (hof : has f FLAG_OF = BitVec.ssubOverflow x y)
    (hz : has f FLAG_ZF = decide (x - y = 0)) (hs : has f FLAG_SF = (x - y).msb)
    (cc : String) (rel : Bool) (hrel : relOf cc x y = some rel) : cond cc f = some rel := by
  obtain ⟨ja, jae, jb, jbe, je, jne, jg, jge, jl, jle, _, _, _, _⟩ := cond_as_bools f
  unfold relOf at hrel
  split at hrel
  · subst cc; rw [je, hz, zf_is_eq]; exact hrel
  split at hrel
  · subst cc; rw [jne, hz, ne_from_flags]; exact hrel
  split at hrel
  · subst cc; rw [jb, hcf, ult_from_flags]; exact hrel
  split at hrel
  · subst cc; rw [jae, hcf, ult_from_flags]; exact hrel
  split at hrel
  · subst cc; rw [jbe, hcf, hz, ule_from_flags]; exact hrel
  split at hrel
  · subst cc; rw [ja, hcf, hz, ugt_from_flags]; exact hrel
  split at hrel
  · subst cc; rw [jl, hs, hof, slt_from_flags]; exact hrel
  split at hrel
  · subst cc; rw [jge, hs, hof, sge_from_flags]; exact hrel
  split at hrel
  · subst cc; rw [jle, hz, hs, hof, sle_from_flags]; exact hrel
  split at hrel
  · subst cc; rw [jg, hz, hs, hof, sgt_from_flags]; exact hrel
  · cases hrel

/-- **`cmp ra, rb ; jcc T`, all relational conditions, both CMP encodings.** -/
theorem cmp_then_jcc (hh : HasHooks) (i1 i2 : Instr) (s : Machine) (a b : Fin 16) (cc : String) (rel : Bool)
    (hc1 : i1.code = "Cmp_rm64_r64" ∨ i1.code = "Cmp_r64_rm64")
    (hops : instructionOperands2 i1 = .ok (.register (.g64 a), .register (.g64 b)))
    (hl2 : lookup i2.code = some (.jcc cc))
    (hrel : relOf cc (s.regs.get a) (s.regs.get b) = some rel) :
    ∃ s1, exec hh i1 s = .ok s1 ∧ s1.regs = s.regs ∧ s1.mem = s.mem ∧
      ∀ s2, exec hh i2 s1 = .ok s2 →
        (rel = true → s2.regs.rip = i2.nearBranch ∧ s2.regs.gpr = s.regs.gpr ∧ s2.mem = s.mem) ∧
        (rel = false → s2 = s1) := by
  obtain ⟨f, he, hcf, hof, hz, hs, _, _⟩ := C01.cmp64_family hh i1 s a b hc1 hops
  simp only [if_true] at he
  refine ⟨_, he, rfl, rfl, ?_⟩
  intro s2 h2
  have hcond : cond cc f = some rel := cond_after_cmp f _ _ hcf hof hz hs cc rel hrel
  have := jcc_rip hh i2 _ s2 cc rel hl2 hcond h2
  exact ⟨fun ht => ⟨(this.1 ht).1, (this.1 ht).2.1, (this.1 ht).2.2.2⟩, this.2⟩

/-- every relational condition code is covered, and a jcc row exists for it in both displacement sizes -/
theorem relOf_total (x y : BitVec 64) :
    ∀ cc ∈ ["Je", "Jne", "Jb", "Jae", "Jbe", "Ja", "Jl", "Jge", "Jle", "Jg"],
      (relOf cc x y).isSome = true ∧ lookup (cc ++ "_rel8_64") = some (.jcc cc) ∧ lookup (cc ++ "_rel32_64") = some (.jcc cc) := by
  intro cc hcc
  simp only [List.mem_cons, List.not_mem_nil, or_false] at hcc
  rcases hcc with h | h | h | h | h | h | h | h | h | h <;> subst h <;>
    exact ⟨by simp [relOf], by decide +kernel, by decide +kernel⟩

/-- complementary conditions never both branch: exactly one of `jcc`/`jncc` is taken after the same compare -/
theorem relOf_complement (x y : BitVec 64) :
    relOf "Jne" x y = (relOf "Je" x y).map (!·) ∧ relOf "Jae" x y = (relOf "Jb" x y).map (!·) ∧
    relOf "Ja" x y = (relOf "Jbe" x y).map (!·) ∧ relOf "Jge" x y = (relOf "Jl" x y).map (!·) ∧
    relOf "Jg" x y = (relOf "Jle" x y).map (!·) := by
  simp [relOf, bne]

example : relOf "Jg" 5#64 0xFFFFFFFFFFFFFFFF#64 = some true ∧ relOf "Ja" 5#64 0xFFFFFFFFFFFFFFFF#64 = some false := by decide

end Ax.C03
