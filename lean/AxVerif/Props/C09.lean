/-
  C09 — memory permissions are enforced on every access path.

  Part 1 (this file): the three access primitives every path goes through — `mem_read_bytes`
  (API and guest loads), `mem_write_bytes` (API and guest stores, incl. PUSH/CALL and
  read-modify-write write-backs) and `mem_read_executable_bytes` (instruction fetch) — and the
  constructor.  The instruction-level frame theorem (every store of every instruction goes
  through `memWriteBytes`) lives with the instruction model.
-/
import AxVerif.Lemmas.Mem
import AxVerif.Props.C08
import AxVerif.Props.C10
import AxVerif.Model.Machine
import AxVerif.Lemmas.FrameMem
namespace Ax.C09
open Ax

theorem permAt_of_mem {m : Mem} (hno : NoOverlap m) {ar : Area} (har : ar ∈ m) {x : Nat}
    (hx : ar.contains x = true) : permAt m x = some ar.access := by
  simp [permAt, findArea_of_mem hno har hx]

/-- A successful read: every address read lies in readable memory. -/
theorem read_needs_R (m : Mem) (hm : m.WF) (hno : NoOverlap m) (a n : Nat) (bs)
    (h : memReadBytes m a n = .ok bs) :
    (∃ p, permAt m a = some p ∧ hasPerm p PROT_READ = true) ∧
    ∀ i, i < n → ∃ p, permAt m (a + i) = some p ∧ hasPerm p PROT_READ = true := by
  obtain ⟨ar, hf, hle, hp⟩ := (Ax.C08.read_ok_iff m hm a n).mp ⟨bs, h⟩
  obtain ⟨hin, hc⟩ := findArea_some hf
  refine ⟨⟨ar.access, by simp [permAt, hf], hp⟩, fun i hi => ⟨ar.access, ?_, hp⟩⟩
  apply permAt_of_mem hno hin
  rw [contains_iff] at hc ⊢
  omega

/-- Without read permission the access is an error value (not a crash), whatever the range. -/
theorem read_denied (m : Mem) (a n : Nat) (ar : Area) (hf : findArea m a = some ar)
    (hp : hasPerm ar.access PROT_READ = false) : memReadBytes m a n = .err := by
  unfold memReadBytes
  simp only [hf]
  split
  · rfl
  · simp [hp]

/-- A successful write: every address written lies in writable memory. -/
theorem write_needs_W (m : Mem) (hm : m.WF) (hno : NoOverlap m) (a : Nat) (bs : List Byte) (m')
    (h : memWriteBytes m a bs = .ok m') :
    ∀ x, a ≤ x → x < a + bs.length → ∃ p, permAt m x = some p ∧ hasPerm p PROT_WRITE = true := by
  obtain ⟨_, _, ⟨ar, hin, hc, hle, hp⟩, _⟩ := Ax.C08.write_spec m hm hno a bs m' h
  intro x h1 h2
  refine ⟨ar.access, permAt_of_mem hno hin ?_, hp⟩
  rw [contains_iff] at hc ⊢
  omega

/-- Without write permission the store is an error value and there is no new memory. -/
theorem write_denied (m : Mem) (a : Nat) (bs : List Byte) (ar : Area) (hf : findArea m a = some ar)
    (hp : hasPerm ar.access PROT_WRITE = false) : memWriteBytes m a bs = .err := by
  induction m with
  | nil => simp [findArea] at hf
  | cons b rest ih =>
    rw [findArea_cons] at hf
    unfold memWriteBytes
    by_cases hb : b.contains a = true
    · simp only [hb, if_true, Option.some.injEq] at hf
      subst hf
      simp only [hb, if_true]
      split
      · rfl
      · simp [hp]
    · have hb' : b.contains a = false := by simpa using hb
      simp only [hb', Bool.false_eq_true, if_false] at hf ⊢
      rw [ih hf]

/-- Instruction fetch needs execute permission. -/
theorem fetch_needs_X (m : Mem) (a : Nat) (bs) (h : memReadExec m a = .ok bs) :
    ∃ p, permAt m a = some p ∧ hasPerm p PROT_EXEC = true := by
  unfold memReadExec at h
  cases hf : findArea m a with
  | none => simp [hf] at h
  | some ar =>
    simp only [hf] at h
    split at h
    · cases h
    · rename_i hp
      exact ⟨ar.access, by simp [permAt, hf], by simpa using hp⟩

theorem fetch_denied (m : Mem) (a : Nat) (ar : Area) (hf : findArea m a = some ar)
    (hp : hasPerm ar.access PROT_EXEC = false) : memReadExec m a = .err := by
  unfold memReadExec
  simp [hf, hp]

theorem fetch_never_panics (m : Mem) (hm : m.WF) (a : Nat) : memReadExec m a ≠ .panic := by
  unfold memReadExec
  cases hf : findArea m a with
  | none => simp
  | some ar =>
    obtain ⟨hin, hc⟩ := findArea_some hf
    have := (hm ar hin).1
    rw [contains_iff] at hc
    simp only
    repeat' split
    all_goals first | (exfalso; omega) | simp

/-- Permissions survive byte writes. -/
theorem write_keeps_perms (m : Mem) (hm : m.WF) (hno : NoOverlap m) (a : Nat) (bs) (m')
    (h : memWriteBytes m a bs = .ok m') (x : Nat) : permAt m' x = permAt m x := by
  induction m generalizing m' with
  | nil => simp [memWriteBytes] at h
  | cons ar rest ih =>
    have hmr : Mem.WF rest := fun y hy => hm y (List.mem_cons_of_mem _ hy)
    have hp := List.pairwise_cons.mp hno
    unfold memWriteBytes at h
    by_cases hc : ar.contains a = true
    · simp only [hc, if_true] at h
      split at h
      · cases h
      split at h
      · cases h
      split at h
      · simp only [Out.ok.injEq] at h
        subst h
        simp only [permAt, findArea_cons]
        have : ({ ar with data := splice ar.data (a - ar.start) bs } : Area).contains x = ar.contains x := rfl
        rw [this]
        split <;> simp
      · cases h
    · have hc' : ar.contains a = false := by simpa using hc
      simp only [hc', Bool.false_eq_true, if_false] at h
      cases hr : memWriteBytes rest a bs with
      | err => simp [hr] at h
      | panic => simp [hr] at h
      | ok rest' =>
        simp only [hr, Out.ok.injEq] at h
        subst h
        have := ih hmr hp.2 rest' hr
        simp only [permAt, findArea_cons] at this ⊢
        split
        · rfl
        · exact this

/-- A byte in non-writable memory is not changed by any successful write. -/
theorem nonwritable_unchanged (m : Mem) (hm : m.WF) (hno : NoOverlap m) (a : Nat) (bs) (m')
    (h : memWriteBytes m a bs = .ok m') (x : Nat) (p : Nat) (hp : permAt m x = some p)
    (hnw : hasPerm p PROT_WRITE = false) : byteAt m' x = byteAt m x := by
  have hb := (Ax.C08.write_spec m hm hno a bs m' h).2.2.2 x
  by_cases hr : a ≤ x ∧ x < a + bs.length
  · obtain ⟨p', hp', hw'⟩ := write_needs_W m hm hno a bs m' h x hr.1 hr.2
    rw [hp] at hp'
    cases hp'
    rw [hnw] at hw'
    cases hw'
  · simp only [hr, if_false] at hb
    exact hb

/-- **Code is immutable for the guest.**  Over any history of writes (successful or denied) that
    contains no `mem_prot` call, a byte that starts in non-writable memory — in particular every
    byte of the constructor's R+X code area and of an ELF text segment — keeps its value and its
    permission. -/
theorem code_immutable (ops : List Ax.C08.WriteOp) (m : Mem) (hm : m.WF) (hno : NoOverlap m) (x p : Nat)
    (hp : permAt m x = some p) (hnw : hasPerm p PROT_WRITE = false) :
    byteAt (Ax.C08.runWrites m ops) x = byteAt m x ∧ permAt (Ax.C08.runWrites m ops) x = some p := by
  induction ops generalizing m with
  | nil => exact ⟨rfl, hp⟩
  | cons op ops ih =>
    simp only [Ax.C08.runWrites]
    cases hw : memWriteBytes m op.addr op.data with
    | ok m' =>
      obtain ⟨hwf', hno'⟩ := Ax.C08.write_preserves m hm hno _ _ m' hw
      have hp' : permAt m' x = some p := by rw [write_keeps_perms m hm hno _ _ m' hw x, hp]
      have := ih m' hwf' hno' hp'
      simp only
      rw [this.1, nonwritable_unchanged m hm hno _ _ m' hw x p hp hnw]
      exact ⟨rfl, this.2⟩
    | err => exact ih m hm hno hp
    | panic => exact ih m hm hno hp

/-- The constructor maps the code readable and executable, not writable: exactly mask 5. -/
theorem new_code_RX (init : Regs) (code : List Byte) (start rip : Nat) (s : Machine)
    (h : Machine.new init code start rip = .ok s) :
    s.mem = [{ name := none, start := start, len := code.length, data := code, access := PROT_READ ||| PROT_EXEC }] := by
  simp only [Machine.new] at h
  cases hi : initArea ([] : Mem) start code none with
  | err => simp [hi] at h
  | panic => simp [hi] at h
  | ok m1 =>
    have hm1 := (Ax.C10.initArea_ok [] start code none m1 hi).1
    simp only [List.nil_append] at hm1
    subst hm1
    have hp : memProt [{ name := none, start := start, len := code.length, data := code, access := PROT_READ ||| PROT_WRITE }]
        start (PROT_READ ||| PROT_EXEC) =
        .ok [{ name := none, start := start, len := code.length, data := code, access := PROT_READ ||| PROT_EXEC }] := by
      simp [memProt, memProt.go, PROT_READ, PROT_EXEC]
    simp only [hi, hp, Out.ok.injEq] at h
    rw [← h]

/-- Freshly created data areas are readable and writable but not executable: fetching from them fails. -/
theorem data_not_executable (m : Mem) (hm : m.WF) (hno : NoOverlap m) (start : Nat) (data : List Byte) (name) (m')
    (h : initArea m start data name = .ok m') (x : Nat) (hx : start ≤ x ∧ x < start + data.length) :
    memReadExec m' x = .err := by
  obtain ⟨rfl, _, _⟩ := Ax.C10.initArea_ok m start data name m' h
  obtain ⟨_, hno'⟩ := Ax.C10.initArea_preserves m hm hno start data name _ h
  have hin : ({ name := name, start := start, len := data.length, data := data, access := PROT_READ ||| PROT_WRITE } : Area) ∈
      m ++ [{ name := name, start := start, len := data.length, data := data, access := PROT_READ ||| PROT_WRITE }] := by simp
  have hf := findArea_of_mem hno' hin (x := x) (by rw [contains_iff]; exact hx)
  exact fetch_denied _ x _ hf (by simp [hasPerm, PROT_READ, PROT_WRITE, PROT_EXEC])

/-! ## Instruction level: every store of every instruction form -/

/-- what one `MemStep` can do, given the invariants: layout, names and permissions stay, and every byte that differs
    afterwards lies in memory that was writable -/
theorem memStep_needs_W (m m' : Mem) (hm : m.WF) (hno : NoOverlap m) (h : MemStep m m') :
    skeleton m' = skeleton m ∧ m'.WF ∧ NoOverlap m' ∧
    (∀ x, permAt m' x = permAt m x) ∧
    ∀ x, byteAt m' x ≠ byteAt m x → ∃ p, permAt m x = some p ∧ hasPerm p PROT_WRITE = true := by
  have bytes : ∀ a bs, memWriteBytes m a bs = .ok m' →
      skeleton m' = skeleton m ∧ m'.WF ∧ NoOverlap m' ∧ (∀ x, permAt m' x = permAt m x) ∧
      ∀ x, byteAt m' x ≠ byteAt m x → ∃ p, permAt m x = some p ∧ hasPerm p PROT_WRITE = true := by
    intro a bs hw
    obtain ⟨hsk, hwf, _, hb⟩ := Ax.C08.write_spec m hm hno a bs m' hw
    refine ⟨hsk, hwf, (Ax.C08.write_preserves m hm hno a bs m' hw).2, write_keeps_perms m hm hno a bs m' hw, ?_⟩
    intro x hx
    rw [hb x] at hx
    by_cases hr : a ≤ x ∧ x < a + bs.length
    · exact write_needs_W m hm hno a bs m' hw x hr.1 hr.2
    · simp [hr] at hx
  rcases h with rfl | ⟨n, a, v, h | ⟨bs, h⟩⟩
  · exact ⟨rfl, hm, hno, fun _ => rfl, fun x hx => absurd rfl hx⟩
  · unfold memWriteN at h
    split at h
    · cases h
    · exact bytes a _ h
  · exact bytes a bs h

/-- **Every store an instruction performs needs write permission** — for all 312 forms at once: after a successful
    instruction the area layout, names and permissions are unchanged, the invariants hold, and every byte that differs
    lies in memory that was writable before.  Read-only data, code mapped R+X and unmapped addresses are therefore never
    modified by any instruction. -/
theorem exec_stores_need_W (hh : HasHooks) (i : Instr) (s s' : Machine) (hm : s.mem.WF) (hno : NoOverlap s.mem)
    (h : exec hh i s = .ok s') :
    skeleton s'.mem = skeleton s.mem ∧ s'.mem.WF ∧ NoOverlap s'.mem ∧
    (∀ x, permAt s'.mem x = permAt s.mem x) ∧
    ∀ x, byteAt s'.mem x ≠ byteAt s.mem x → ∃ p, permAt s.mem x = some p ∧ hasPerm p PROT_WRITE = true :=
  memStep_needs_W s.mem s'.mem hm hno (exec_mem h)

/-- corollary: a byte without write permission survives every instruction -/
theorem exec_keeps_readonly (hh : HasHooks) (i : Instr) (s s' : Machine) (hm : s.mem.WF) (hno : NoOverlap s.mem)
    (h : exec hh i s = .ok s') (x p : Nat) (hp : permAt s.mem x = some p) (hnw : hasPerm p PROT_WRITE = false) :
    byteAt s'.mem x = byteAt s.mem x := by
  by_cases hne : byteAt s'.mem x = byteAt s.mem x
  · exact hne
  exfalso
  obtain ⟨q, hq, hw⟩ := (exec_stores_need_W hh i s s' hm hno h).2.2.2.2 x hne
  rw [hp] at hq
  simp only [Option.some.injEq] at hq
  subst hq
  rw [hnw] at hw
  cases hw

/-! ## Non-vacuity -/
example : ∃ s, Machine.new Regs.zero [0x90, 0xc3] 0x1000 0x1000 = .ok s ∧ memWriteBytes s.mem 0x1000 [0] = .err ∧
    (memReadExec s.mem 0x1001).isOk = true := ⟨_, rfl, by decide, by decide⟩

end Ax.C09
