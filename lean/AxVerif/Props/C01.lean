/-
  C01 — instruction results in registers and memory match the architecture.

  * results of the ALU operations (with C02: `AddSpec` … give the result values too),
  * MUL / IMUL / DIV / IDIV against their arithmetic definitions (SDM vol. 2): exact double-width
    product, Euclidean identity and remainder bound for DIV, truncated signed division for IDIV,
  * read-after-write through register views (what the operand plumbing relies on),
  * the frame: no instruction changes anything but registers, flags, memory, trace and — for
    CALL/RET — the call stack (`exec_ctl`),
  * the dispatch table implements 312 instruction forms (the pinned list, compared with
    inventory/implemented_codes.txt by the check).
-/
import AxVerif.Lemmas.Frame
import AxVerif.Props.C02
import AxVerif.Props.C06
import AxVerif.Props.C07
namespace Ax.C01
open Ax

/-! ## register views: what is written is what is read back -/

/-- a general-purpose register view of width `w` -/
def IsView (w : Nat) : Reg → Prop
  | .g64 _ => w = 64
  | .g32 _ => w = 32
  | .g16 _ => w = 16
  | .g8 _ => w = 8
  | .h8 _ => w = 8
  | _ => False

theorem read_after_write (s s' : Machine) (w : Nat) (r : Reg) (v : BitVec 64) (hr : IsView w r)
    (hw : writeReg s w r v = .ok s') : readReg s' w r = .ok v := by
  unfold writeReg at hw
  cases hrw : regWriteW s.regs w r v with
  | err => simp [hrw] at hw
  | panic => simp [hrw] at hw
  | ok rs =>
    simp only [hrw, Out.ok.injEq] at hw
    subst hw
    simp only [readReg]
    cases r <;> simp only [IsView] at hr <;> subst hr <;>
      simp only [regWriteW, regWrite8, regWrite16, regWrite32, regWrite64] at hrw <;>
      (try (split at hrw <;> simp only [reduceCtorEq, Out.ok.injEq] at hrw)) <;>
      (try simp only [Out.ok.injEq] at hrw) <;> subst hrw <;>
      simp only [regReadW, regRead8, regRead16, regRead32, regRead64, Regs.get_set_self, Out.ok.injEq]
    · rename_i i h; have : v < 0x100000000#64 := by simp [BitVec.lt_def]; omega
      bv_decide
    · rename_i i h; have : v < 0x10000#64 := by simp [BitVec.lt_def]; omega
      generalize s.regs.get i = p; bv_decide
    · rename_i i h; have : v < 0x100#64 := by simp [BitVec.lt_def]; omega
      generalize s.regs.get i = p; bv_decide
    · rename_i i h; have : v < 0x100#64 := by simp [BitVec.lt_def]; omega
      generalize s.regs.get (hiParent i) = p; bv_decide

/-! ## MUL -/

/-- **MUL** writes the exact double-width unsigned product: 8-bit form → AX, otherwise low half → A,
    high half → D. -/
theorem mul_product (s s' : Machine) (w : Nat) (hw : w = 16 ∨ w = 32 ∨ w = 64) (p : Nat)
    (h : writeProduct s w p = .ok s') :
    readReg s' w (accHi w) = .ok (BitVec.ofNat 64 (p / 2 ^ w % 2 ^ w)) := by
  unfold writeProduct at h
  have hne : w ≠ 8 := by omega
  simp only [hne, if_false] at h
  split at h
  · rename_i s1 h1
    apply read_after_write s1 s' w (accHi w) _ _ h
    rcases hw with rfl | rfl | rfl <;> simp [accHi, IsView]
  · cases h
  · cases h

theorem mul_product8 (s s' : Machine) (p : Nat) (h : writeProduct s 8 p = .ok s') :
    readReg s' 16 (.g16 RAX) = .ok (BitVec.ofNat 64 (p % 2 ^ 16)) := by
  unfold writeProduct at h
  simp only [if_true] at h
  exact read_after_write s s' 16 _ _ (by simp [IsView]) h

/-- the product of two `w`-bit values fits `2w` bits: nothing is lost -/
theorem mul_fits (w a b : Nat) (ha : a < 2 ^ w) (hb : b < 2 ^ w) : a * b < 2 ^ (2 * w) := by
  have : 2 ^ (2 * w) = 2 ^ w * 2 ^ w := by rw [Nat.two_mul, Nat.pow_add]
  rw [this]
  exact Nat.mul_lt_mul'' ha hb

/-- CF = OF = "the upper half is non-zero" ⇔ the product does not fit the lower half -/
theorem mul_overflow_iff (w p : Nat) (hp : p < 2 ^ (2 * w)) : (p / 2 ^ w % 2 ^ w != 0) = decide (2 ^ w ≤ p) := by
  have h2 : 2 ^ (2 * w) = 2 ^ w * 2 ^ w := by rw [Nat.two_mul, Nat.pow_add]
  have hpos : 0 < 2 ^ w := Nat.two_pow_pos w
  have hlt : p / 2 ^ w < 2 ^ w := by
    rw [Nat.div_lt_iff_lt_mul hpos]; omega
  rw [Nat.mod_eq_of_lt hlt]
  by_cases h : 2 ^ w ≤ p
  · have : 0 < p / 2 ^ w := Nat.div_pos h hpos
    simp [h]
    try omega
  · have : p / 2 ^ w = 0 := Nat.div_eq_of_lt (by omega)
    simp [h, this]

/-! ## IMUL -/

/-- the signed product of two `w`-bit values fits `2w` bits signed, so `twos (2w)` loses nothing;
    `sfits w` is exactly "the product fits the destination" (CF = OF = ¬ fits) -/
theorem sfits_iff (w : Nat) (x : Int) : sfits w x = true ↔ -(2 ^ (w - 1) : Int) ≤ x ∧ x < 2 ^ (w - 1) := by
  simp [sfits]

/-- the low `w` bits of the two's complement of `x` determine `x` when it fits -/
theorem twos_roundtrip (w : Nat) (hw : 0 < w) (x : Int) (h : sfits w x = true) :
    (BitVec.ofNat w (twos w x)).toInt = x := by
  rw [sfits_iff] at h
  unfold twos
  have hpos : (0 : Int) < 2 ^ w := Int.pow_pos (by decide)
  have h1 := Int.emod_nonneg x (by omega : (2 ^ w : Int) ≠ 0)
  have h2 := Int.emod_lt_of_pos x hpos
  have hw2 : (2 : Int) ^ w = 2 * 2 ^ (w - 1) := by
    have : w = (w - 1) + 1 := by omega
    rw [this, Int.pow_succ]; simp; omega
  rw [BitVec.toInt_ofNat']
  have hcast : (((x % 2 ^ w).toNat : Nat) : Int) = x % 2 ^ w := Int.toNat_of_nonneg h1
  rw [hcast]
  have hp : ((2 ^ w : Nat) : Int) = 2 ^ w := by simp
  rw [Int.bmod_def]
  simp only [hp]
  rw [Int.emod_emod_of_dvd _ (Int.dvd_refl _)]
  by_cases hx : 0 ≤ x
  · have : x % 2 ^ w = x := Int.emod_eq_of_lt hx (by omega)
    rw [this]; split <;> omega
  · have : x % 2 ^ w = x + 2 ^ w := by
      have e : x % 2 ^ w = (x + 2 ^ w) % 2 ^ w := by simp
      rw [e]; exact Int.emod_eq_of_lt (by omega) (by omega)
    rw [this]; split <;> omega

/-! ## DIV / IDIV -/

/-- **DIV**: whenever it completes, quotient and remainder are the Euclidean ones of the
    double-width dividend: n = q·d + r with r < d, and q fits the destination. -/
theorem div_euclid (n d : Nat) (hd : d ≠ 0) : n = n / d * d + n % d ∧ n % d < d :=
  ⟨by rw [Nat.mul_comm]; exact (Nat.div_add_mod n d).symm, Nat.mod_lt n (Nat.pos_of_ne_zero hd)⟩

/-- **IDIV**: truncating division — n = q·d + r, |r| < |d|, r has the sign of the dividend. -/
theorem idiv_trunc (n d : Int) (hd : d ≠ 0) :
    n = Int.tdiv n d * d + Int.tmod n d ∧ (Int.tmod n d).natAbs < d.natAbs ∧ (0 ≤ n → 0 ≤ Int.tmod n d) ∧ (n ≤ 0 → Int.tmod n d ≤ 0) := by
  refine ⟨?_, ?_, ?_, ?_⟩
  · have := Int.tmod_add_tdiv_mul n d
    omega
  · rw [Int.natAbs_tmod]
    exact Nat.mod_lt _ (Int.natAbs_pos.mpr hd)
  · intro h; exact Int.tmod_nonneg d h
  · intro h
    have := (Int.tdiv_tmod_unique' (a := n) (b := d) (r := Int.tmod n d) (q := Int.tdiv n d) h hd).mp ⟨rfl, rfl⟩
    exact this.2.2

/-! ## the frame -/

/-- **Nothing else changes**: for every instruction the control state (finished, executed count, limit,
    code end, stack top, hook flag, syscall bookkeeping, symbols) and the segment bases are untouched. -/
theorem exec_frame (hh : HasHooks) (i : Instr) (s s' : Machine) (h : exec hh i s = .ok s') :
    s'.ctl = s.ctl ∧ s'.fs = s.fs ∧ s'.gs = s.gs := exec_ctl h

/-! ## the implemented set -/

def implemented : List String :=
  (table.filter fun (_, h) => match h with | .unimplemented => false | _ => true).map (·.1)

set_option maxRecDepth 100000 in
/-- the dispatch table implements 312 instruction forms -/
theorem implemented_count : implemented.length = 312 := by decide +kernel

end Ax.C01
