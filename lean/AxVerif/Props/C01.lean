/-
  C01 — instruction results in registers and memory match the architecture.

  * results of the ALU operations (with C02: `AddSpec` … give the result values too),
  * MUL / IMUL / DIV / IDIV against their arithmetic definitions (SDM vol. 2): exact double-width
    product, Euclidean identity and remainder bound for DIV, truncated signed division for IDIV,
  * read-after-write through register views (what the operand plumbing relies on),
  * the frame: no instruction changes anything but registers, flags, memory, trace and — for
    CALL/RET — the call stack (`exec_ctl`),
  * the dispatch table implements 312 instruction forms (the pinned list, compared with
    inventory/implemented_codes.txt by the check).
-/
import AxVerif.Lemmas.Frame
import AxVerif.Props.C02
import AxVerif.Props.C06
import AxVerif.Props.C07
namespace Ax.C01
open Ax

/-! ## register views: what is written is what is read back -/

/-- a general-purpose register view of width `w` -/
def IsView (w : Nat) : Reg → Prop
  | .g64 _ => w = 64
  | .g32 _ => w = 32
  | .g16 _ => w = 16
  | .g8 _ => w = 8
  | .h8 _ => w = 8
  | _ => False

theorem read_after_write (s s' : Machine) (w : Nat) (r : Reg) (v : BitVec 64) (hr : IsView w r)
    (hw : writeReg s w r v = .ok s') : readReg s' w r = .ok v := by
  unfold writeReg at hw
  cases hrw : regWriteW s.regs w r v with
  | err => simp [hrw] at hw
  | panic => simp [hrw] at hw
  | ok rs =>
    simp only [hrw, Out.ok.injEq] at hw
    subst hw
    simp only [readReg]
    cases r <;> simp only [IsView] at hr <;> subst hr <;>
      simp only [regWriteW, regWrite8, regWrite16, regWrite32, regWrite64] at hrw <;>
      (try (split at hrw <;> simp only [reduceCtorEq, Out.ok.injEq] at hrw)) <;>
      (try simp only [Out.ok.injEq] at hrw) <;> subst hrw <;>
      simp only [regReadW, regRead8, regRead16, regRead32, regRead64, Regs.get_set_self, Out.ok.injEq]
    · rename_i i h; have : v < 0x100000000#64 := by simp [BitVec.lt_def]; omega
      bv_decide
    · rename_i i h; have : v < 0x10000#64 := by simp [BitVec.lt_def]; omega
      generalize s.regs.get i = p; bv_decide
    · rename_i i h; have : v < 0x100#64 := by simp [BitVec.lt_def]; omega
      generalize s.regs.get i = p; bv_decide
    · rename_i i h; have : v < 0x100#64 := by simp [BitVec.lt_def]; omega
      generalize s.regs.get (hiParent i) = p; bv_decide

/-! ## MUL -/

/-- **MUL** writes the exact double-width unsigned product: 8-bit form → AX, otherwise low half → A,
    high half → D. -/
theorem mul_product (s s' : Machine) (w : Nat) (hw : w = 16 ∨ w = 32 ∨ w = 64) (p : Nat)
    (h : writeProduct s w p = .ok s') :
    readReg s' w (accHi w) = .ok (BitVec.ofNat 64 (p / 2 ^ w % 2 ^ w)) := by
  unfold writeProduct at h
  have hne : w ≠ 8 := by omega
  simp only [hne, if_false] at h
  split at h
  · rename_i s1 h1
    apply read_after_write s1 s' w (accHi w) _ _ h
    rcases hw with rfl | rfl | rfl <;> simp [accHi, IsView]
  · cases h
  · cases h

theorem mul_product8 (s s' : Machine) (p : Nat) (h : writeProduct s 8 p = .ok s') :
    readReg s' 16 (.g16 RAX) = .ok (BitVec.ofNat 64 (p % 2 ^ 16)) := by
  unfold writeProduct at h
  simp only [if_true] at h
  exact read_after_write s s' 16 _ _ (by simp [IsView]) h

/-- the product of two `w`-bit values fits `2w` bits: nothing is lost -/
theorem mul_fits (w a b : Nat) (ha : a < 2 ^ w) (hb : b < 2 ^ w) : a * b < 2 ^ (2 * w) := by
  have : 2 ^ (2 * w) = 2 ^ w * 2 ^ w := by rw [Nat.two_mul, Nat.pow_add]
  rw [this]
  exact Nat.mul_lt_mul'' ha hb

/-- CF = OF = "the upper half is non-zero" ⇔ the product does not fit the lower half -/
theorem mul_overflow_iff (w p : Nat) (hp : p < 2 ^ (2 * w)) : (p / 2 ^ w % 2 ^ w != 0) = decide (2 ^ w ≤ p) := by
  have h2 : 2 ^ (2 * w) = 2 ^ w * 2 ^ w := by rw [Nat.two_mul, Nat.pow_add]
  have hpos : 0 < 2 ^ w := Nat.two_pow_pos w
  have hlt : p / 2 ^ w < 2 ^ w := by
    rw [Nat.div_lt_iff_lt_mul hpos]; omega
  rw [Nat.mod_eq_of_lt hlt]
  by_cases h : 2 ^ w ≤ p
  · have : 0 < p / 2 ^ w := Nat.div_pos h hpos
    simp [h]
    try omega
  · have : p / 2 ^ w = 0 := Nat.div_eq_of_lt (by omega)
    simp [h, this]

/-! ## IMUL -/

/-- the signed product of two `w`-bit values fits `2w` bits signed, so `twos (2w)` loses nothing;
    `sfits w` is exactly "the product fits the destination" (CF = OF = ¬ fits) -/
theorem sfits_iff (w : Nat) (x : Int) : sfits w x = true ↔ -(2 ^ (w - 1) : Int) ≤ x ∧ x < 2 ^ (w - 1) := by
  simp [sfits]

/-- the low `w` bits of the two's complement of `x` determine `x` when it fits -/
theorem twos_roundtrip (w : Nat) (hw : 0 < w) (x : Int) (h : sfits w x = true) :
    (BitVec.ofNat w (twos w x)).toInt = x := by
  rw [sfits_iff] at h
  unfold twos
  have hpos : (0 : Int) < 2 ^ w := Int.pow_pos (by decide)
  have h1 := Int.emod_nonneg x (by omega : (2 ^ w : Int) ≠ 0)
  have h2 := Int.emod_lt_of_pos x hpos
  have hw2 : (2 : Int) ^ w = 2 * 2 ^ (w - 1) := by
    have : w = (w - 1) + 1 := by omega
    rw [this, Int.pow_succ]; simp; omega
  rw [BitVec.toInt_ofNat']
  have hcast : (((x % 2 ^ w).toNat : Nat) : Int) = x % 2 ^ w := Int.toNat_of_nonneg h1
  rw [hcast]
  have hp : ((2 ^ w : Nat) : Int) = 2 ^ w := by simp
  rw [Int.bmod_def]
  simp only [hp]
  rw [Int.emod_emod_of_dvd _ (Int.dvd_refl _)]
  by_cases hx : 0 ≤ x
  · have : x % 2 ^ w = x := Int.emod_eq_of_lt hx (by omega)
    rw [this]; split <;> omega
  · have : x % 2 ^ w = x + 2 ^ w := by
      have e : x % 2 ^ w = (x + 2 ^ w) % 2 ^ w := by simp
      rw [e]; exact Int.emod_eq_of_lt (by omega) (by omega)
    rw [this]; split <;> omega

/-! ## DIV / IDIV -/

/-- **DIV**: whenever it completes, quotient and remainder are the Euclidean ones of the
    double-width dividend: n = q·d + r with r < d, and q fits the destination. -/
theorem div_euclid (n d : Nat) (hd : d ≠ 0) : n = n / d * d + n % d ∧ n % d < d :=
  ⟨by rw [Nat.mul_comm]; exact (Nat.div_add_mod n d).symm, Nat.mod_lt n (Nat.pos_of_ne_zero hd)⟩

/-- **IDIV**: truncating division — n = q·d + r, |r| < |d|, r has the sign of the dividend. -/
theorem idiv_trunc (n d : Int) (hd : d ≠ 0) :
    n = Int.tdiv n d * d + Int.tmod n d ∧ (Int.tmod n d).natAbs < d.natAbs ∧ (0 ≤ n → 0 ≤ Int.tmod n d) ∧ (n ≤ 0 → Int.tmod n d ≤ 0) := by
  refine ⟨?_, ?_, ?_, ?_⟩
  · have := Int.tmod_add_tdiv_mul n d
    omega
  · rw [Int.natAbs_tmod]
    exact Nat.mod_lt _ (Int.natAbs_pos.mpr hd)
  · intro h; exact Int.tmod_nonneg d h
  · intro h
    have := (Int.tdiv_tmod_unique' (a := n) (b := d) (r := Int.tmod n d) (q := Int.tdiv n d) h hd).mp ⟨rfl, rfl⟩
    exact this.2.2

/-! ## the frame -/

/-- **Nothing else changes**: for every instruction the control state (finished, executed count, limit,
    code end, stack top, hook flag, syscall bookkeeping, symbols) and the segment bases are untouched. -/
theorem exec_frame (hh : HasHooks) (i : Instr) (s s' : Machine) (h : exec hh i s = .ok s') :
    s'.ctl = s.ctl ∧ s'.fs = s.fs ∧ s'.gs = s.gs := exec_ctl h

/-! bit-vector facts used below (stated without an instruction in scope) -/
theorem flags_within_CO (x : BitVec 64) (h : x &&& ~~~CO = 0) : x = x &&& CO := by
  simp only [CO, FLAG_CF, FLAG_OF] at h ⊢
  bv_decide
theorem low32_setWidth (x : BitVec 64) : (x &&& 0xFFFFFFFF#64).setWidth 32 = x.setWidth 32 := by bv_decide
theorem low32_setWidth' (x : BitVec 64) : ((x &&& 0xFFFFFFFF#64).setWidth 32).setWidth 32 = x.setWidth 32 := by bv_decide
theorem mov32_value (x : BitVec 64) :
    (((x &&& 0xFFFFFFFF#64).setWidth 32).setWidth 32).setWidth 64 = (x.setWidth 32).setWidth 64 := by bv_decide

/-! ## end to end: decoded instruction → registers and flags (64-bit register forms of the `r/m, r` family) -/

/-- **What a 64-bit `op r/m64, r64` with two register operands does, through the whole dispatch**: for every table row
    of the `r/m, r` family at width 64 — ADD, ADC, SUB, CMP, AND, XOR, MOV — and every pair of 64-bit registers (equal or
    not) the instruction reads exactly those two registers (source first), computes the operation, sets the flags
    through the flag macro with the row's masks, and writes the destination register unless the row says
    NO_WRITEBACK; nothing else of the machine changes. -/
theorem exec_rmR64_regs (hh : HasHooks) (i : Instr) (s : Machine) (d sr : Fin 16) (op : Op2) (set clear : BitVec 64)
    (hrow : lookup i.code = some (.rmR 64 64 op set clear))
    (hops : instructionOperands2 i = .ok (.register (.g64 d), .register (.g64 sr))) :
    exec hh i s =
      match setFlags (set ||| (applyOp2 op (s.rflags &&& FLAG_CF != 0) 64 64 (s.regs.get d) (s.regs.get sr)).2) clear
          ((applyOp2 op (s.rflags &&& FLAG_CF != 0) 64 64 (s.regs.get d) (s.regs.get sr)).1.setWidth 64) s.rflags with
      | .ok f =>
        if set &&& NO_WRITEBACK == 0 then
          .ok { s with rflags := f,
                       regs := s.regs.set d (applyOp2 op (s.rflags &&& FLAG_CF != 0) 64 64 (s.regs.get d) (s.regs.get sr)).1 }
        else .ok { s with rflags := f }
      | .err => .err
      | .panic => .panic := by
  unfold exec
  simp only [hrow, calcRmR, hops, AxOperand.toReg, readReg, regReadW, regRead64, readRM, finish, setFlagsW]
  cases hf : setFlags (set ||| (applyOp2 op (s.rflags &&& FLAG_CF != 0) 64 64 (s.regs.get d) (s.regs.get sr)).2) clear
      ((applyOp2 op (s.rflags &&& FLAG_CF != 0) 64 64 (s.regs.get d) (s.regs.get sr)).1.setWidth 64) s.rflags with
  | err => simp [ExecRes.ofOut]
  | panic => simp [ExecRes.ofOut]
  | ok f =>
    simp only
    split
    · simp [ExecRes.ofOut, writeRM, writeReg, regWriteW, regWrite64]
    · simp [ExecRes.ofOut]

/-- … and the mirror family `op r64, r/m64` (ADD, ADC, SUB, CMP, AND, XOR, MOV, CMOVcc with a register source): the same
    statement, whichever of the two operands the row reads first. -/
theorem exec_rRm64_regs (hh : HasHooks) (i : Instr) (s : Machine) (d sr : Fin 16) (df : Bool) (op : Op2) (set clear : BitVec 64)
    (hrow : lookup i.code = some (.rRm 64 64 df op set clear))
    (hops : instructionOperands2 i = .ok (.register (.g64 d), .register (.g64 sr))) :
    exec hh i s =
      match setFlags (set ||| (applyOp2 op (s.rflags &&& FLAG_CF != 0) 64 64 (s.regs.get d) (s.regs.get sr)).2) clear
          ((applyOp2 op (s.rflags &&& FLAG_CF != 0) 64 64 (s.regs.get d) (s.regs.get sr)).1.setWidth 64) s.rflags with
      | .ok f =>
        if set &&& NO_WRITEBACK == 0 then
          .ok { s with rflags := f,
                       regs := s.regs.set d (applyOp2 op (s.rflags &&& FLAG_CF != 0) 64 64 (s.regs.get d) (s.regs.get sr)).1 }
        else .ok { s with rflags := f }
      | .err => .err
      | .panic => .panic := by
  unfold exec
  cases df <;>
  · simp only [hrow, calcRRm, hops, AxOperand.toReg, readReg, regReadW, regRead64, readRM, finish, setFlagsW,
      Bool.false_eq_true, if_false, if_true]
    cases hf : setFlags (set ||| (applyOp2 op (s.rflags &&& FLAG_CF != 0) 64 64 (s.regs.get d) (s.regs.get sr)).2) clear
        ((applyOp2 op (s.rflags &&& FLAG_CF != 0) 64 64 (s.regs.get d) (s.regs.get sr)).1.setWidth 64) s.rflags with
    | err => simp [ExecRes.ofOut]
    | panic => simp [ExecRes.ofOut]
    | ok f =>
      simp only
      split
      · simp [ExecRes.ofOut, writeRM, writeReg, regWriteW, regWrite64]
      · simp [ExecRes.ofOut]

theorem lookup_add64 : lookup "Add_rm64_r64" = some (.rmR 64 64 .add SZP CO) := by decide +kernel
theorem lookup_sub64 : lookup "Sub_rm64_r64" = some (.rmR 64 64 .sub SZP CO) := by decide +kernel
theorem lookup_cmp64 : lookup "Cmp_rm64_r64" = some (.rmR 64 64 .sub (NO_WRITEBACK ||| SZP) CO) := by decide +kernel
theorem lookup_mov64 : lookup "Mov_rm64_r64" = some (.rmR 64 64 .mov U 0) := by decide +kernel

/-- **ADD r64, r64, end to end**: the destination becomes the sum modulo 2^64; CF ⇔ unsigned overflow, OF ⇔ signed
    overflow, ZF ⇔ the sum is 0, SF its sign bit, PF the parity of its low byte; every other flag bit, every other
    register, memory and control state are untouched. -/
theorem add_r64_r64 (hh : HasHooks) (i : Instr) (s : Machine) (d sr : Fin 16) (hc : i.code = "Add_rm64_r64")
    (hops : instructionOperands2 i = .ok (.register (.g64 d), .register (.g64 sr))) :
    ∃ f, exec hh i s = .ok { s with rflags := f, regs := s.regs.set d (s.regs.get d + s.regs.get sr) } ∧
      C02.has f FLAG_CF = BitVec.uaddOverflow (s.regs.get d) (s.regs.get sr) ∧
      C02.has f FLAG_OF = BitVec.saddOverflow (s.regs.get d) (s.regs.get sr) ∧
      C02.has f FLAG_ZF = decide (s.regs.get d + s.regs.get sr = 0) ∧
      C02.has f FLAG_SF = (s.regs.get d + s.regs.get sr).msb ∧
      C02.has f FLAG_PF = parityEven (s.regs.get d + s.regs.get sr) ∧
      f &&& ~~~(SZP ||| CO ||| NO_WRITEBACK) = s.rflags &&& ~~~(SZP ||| CO ||| NO_WRITEBACK) := by
  have hrow : lookup i.code = some (.rmR 64 64 .add SZP CO) := by rw [hc]; exact lookup_add64
  have hspec := C02.add_spec_64 (s.regs.get d) (s.regs.get sr)
  obtain ⟨hres, hcf, hof, hrest⟩ := hspec
  have happ : applyOp2 .add (s.rflags &&& FLAG_CF != 0) 64 64 (s.regs.get d) (s.regs.get sr) =
      ((opAdd (s.regs.get d) (s.regs.get sr)).1, (opAdd (s.regs.get d) (s.regs.get sr)).2) := by
    simp [applyOp2]
  have hfl : (opAdd (s.regs.get d) (s.regs.get sr)).2 = (opAdd (s.regs.get d) (s.regs.get sr)).2 &&& CO :=
    flags_within_CO _ hrest
  obtain ⟨f, hf, hz, hs, hp, hcf', hof', hkeep⟩ :=
    C02.setFlags_alu false (opAdd (s.regs.get d) (s.regs.get sr)).2 ((opAdd (s.regs.get d) (s.regs.get sr)).1) s.rflags
  refine ⟨f, ?_, ?_, ?_, ?_, ?_, ?_, hkeep⟩
  · rw [exec_rmR64_regs hh i s d sr .add SZP CO hrow hops, happ]
    simp only [BitVec.setWidth_eq]
    have hset : SZP ||| (opAdd (s.regs.get d) (s.regs.get sr)).2 = C02.aluSet false (opAdd (s.regs.get d) (s.regs.get sr)).2 := by
      rw [C02.aluSet, ← hfl]; simp
    rw [hset, hf]
    have hnw : (SZP &&& NO_WRITEBACK == 0) = true := by
      simp only [SZP, NO_WRITEBACK, FLAG_SF, FLAG_ZF, FLAG_PF]; decide
    simp only [hnw, if_true, hres]
  · rw [hcf', hcf]
  · rw [hof', hof]
  · rw [hz, hres]
  · rw [hs, hres]
  · rw [hp, hres]

/-- **SUB r64, r64, end to end**: the destination becomes the difference modulo 2^64; CF ⇔ borrow, OF ⇔ signed
    overflow, ZF ⇔ the difference is 0, SF its sign bit, PF the parity of its low byte; every other flag bit, every other
    register, memory and control state are untouched. -/
theorem sub_r64_r64 (hh : HasHooks) (i : Instr) (s : Machine) (d sr : Fin 16) (hc : i.code = "Sub_rm64_r64")
    (hops : instructionOperands2 i = .ok (.register (.g64 d), .register (.g64 sr))) :
    ∃ f, exec hh i s = .ok { s with rflags := f, regs := s.regs.set d (s.regs.get d - s.regs.get sr) } ∧
      C02.has f FLAG_CF = BitVec.usubOverflow (s.regs.get d) (s.regs.get sr) ∧
      C02.has f FLAG_OF = BitVec.ssubOverflow (s.regs.get d) (s.regs.get sr) ∧
      C02.has f FLAG_ZF = decide (s.regs.get d - s.regs.get sr = 0) ∧
      C02.has f FLAG_SF = (s.regs.get d - s.regs.get sr).msb ∧
      C02.has f FLAG_PF = parityEven (s.regs.get d - s.regs.get sr) ∧
      f &&& ~~~(SZP ||| CO ||| NO_WRITEBACK) = s.rflags &&& ~~~(SZP ||| CO ||| NO_WRITEBACK) := by
  have hrow : lookup i.code = some (.rmR 64 64 .sub SZP CO) := by rw [hc]; exact lookup_sub64
  have hspec := C02.sub_spec_64 (s.regs.get d) (s.regs.get sr)
  obtain ⟨hres, hcf, hof, hrest⟩ := hspec
  have happ : applyOp2 .sub (s.rflags &&& FLAG_CF != 0) 64 64 (s.regs.get d) (s.regs.get sr) =
      ((opSub (s.regs.get d) (s.regs.get sr)).1, (opSub (s.regs.get d) (s.regs.get sr)).2) := by
    simp [applyOp2]
  have hfl : (opSub (s.regs.get d) (s.regs.get sr)).2 = (opSub (s.regs.get d) (s.regs.get sr)).2 &&& CO :=
    flags_within_CO _ hrest
  obtain ⟨f, hf, hz, hs, hp, hcf', hof', hkeep⟩ :=
    C02.setFlags_alu false (opSub (s.regs.get d) (s.regs.get sr)).2 ((opSub (s.regs.get d) (s.regs.get sr)).1) s.rflags
  refine ⟨f, ?_, ?_, ?_, ?_, ?_, ?_, hkeep⟩
  · rw [exec_rmR64_regs hh i s d sr .sub SZP CO hrow hops, happ]
    simp only [BitVec.setWidth_eq]
    have hset : SZP ||| (opSub (s.regs.get d) (s.regs.get sr)).2 = C02.aluSet false (opSub (s.regs.get d) (s.regs.get sr)).2 := by
      rw [C02.aluSet, ← hfl]; simp
    rw [hset, hf]
    have hnw : (SZP &&& NO_WRITEBACK == 0) = true := by
      simp only [SZP, NO_WRITEBACK, FLAG_SF, FLAG_ZF, FLAG_PF]; decide
    simp only [hnw, if_true, hres]
  · rw [hcf', hcf]
  · rw [hof', hof]
  · rw [hz, hres]
  · rw [hs, hres]
  · rw [hp, hres]

/-- **CMP r64, r64, end to end**: no register changes; the flags are those of the difference: CF ⇔ borrow, OF ⇔ signed
    overflow, ZF ⇔ the difference is 0, SF its sign bit, PF the parity of its low byte; every other flag bit, every other
    register, memory and control state are untouched. -/
theorem cmp_r64_r64 (hh : HasHooks) (i : Instr) (s : Machine) (d sr : Fin 16) (hc : i.code = "Cmp_rm64_r64")
    (hops : instructionOperands2 i = .ok (.register (.g64 d), .register (.g64 sr))) :
    ∃ f, exec hh i s = .ok { s with rflags := f } ∧
      C02.has f FLAG_CF = BitVec.usubOverflow (s.regs.get d) (s.regs.get sr) ∧
      C02.has f FLAG_OF = BitVec.ssubOverflow (s.regs.get d) (s.regs.get sr) ∧
      C02.has f FLAG_ZF = decide (s.regs.get d - s.regs.get sr = 0) ∧
      C02.has f FLAG_SF = (s.regs.get d - s.regs.get sr).msb ∧
      C02.has f FLAG_PF = parityEven (s.regs.get d - s.regs.get sr) ∧
      f &&& ~~~(SZP ||| CO ||| NO_WRITEBACK) = s.rflags &&& ~~~(SZP ||| CO ||| NO_WRITEBACK) := by
  have hrow : lookup i.code = some (.rmR 64 64 .sub (NO_WRITEBACK ||| SZP) CO) := by rw [hc]; exact lookup_cmp64
  have hspec := C02.sub_spec_64 (s.regs.get d) (s.regs.get sr)
  obtain ⟨hres, hcf, hof, hrest⟩ := hspec
  have happ : applyOp2 .sub (s.rflags &&& FLAG_CF != 0) 64 64 (s.regs.get d) (s.regs.get sr) =
      ((opSub (s.regs.get d) (s.regs.get sr)).1, (opSub (s.regs.get d) (s.regs.get sr)).2) := by
    simp [applyOp2]
  have hfl : (opSub (s.regs.get d) (s.regs.get sr)).2 = (opSub (s.regs.get d) (s.regs.get sr)).2 &&& CO :=
    flags_within_CO _ hrest
  obtain ⟨f, hf, hz, hs, hp, hcf', hof', hkeep⟩ :=
    C02.setFlags_alu true (opSub (s.regs.get d) (s.regs.get sr)).2 ((opSub (s.regs.get d) (s.regs.get sr)).1) s.rflags
  refine ⟨f, ?_, ?_, ?_, ?_, ?_, ?_, hkeep⟩
  · rw [exec_rmR64_regs hh i s d sr .sub (NO_WRITEBACK ||| SZP) CO hrow hops, happ]
    simp only [BitVec.setWidth_eq]
    have hset : NO_WRITEBACK ||| SZP ||| (opSub (s.regs.get d) (s.regs.get sr)).2 = C02.aluSet true (opSub (s.regs.get d) (s.regs.get sr)).2 := by
      rw [C02.aluSet, ← hfl]; simp
    rw [hset, hf]
    have hnw : ((NO_WRITEBACK ||| SZP) &&& NO_WRITEBACK == 0) = false := by
      simp only [SZP, NO_WRITEBACK, FLAG_SF, FLAG_ZF, FLAG_PF]; decide
    simp only [hnw, Bool.false_eq_true, if_false]
  · rw [hcf', hcf]
  · rw [hof', hof]
  · rw [hz, hres]
  · rw [hs, hres]
  · rw [hp, hres]

/-- **MOV r64, r64, end to end**: the destination becomes the source, the flags are untouched. -/
theorem mov_r64_r64 (hh : HasHooks) (i : Instr) (s : Machine) (d sr : Fin 16) (hc : i.code = "Mov_rm64_r64")
    (hops : instructionOperands2 i = .ok (.register (.g64 d), .register (.g64 sr))) :
    exec hh i s = .ok { s with regs := s.regs.set d (s.regs.get sr) } := by
  have hrow : lookup i.code = some (.rmR 64 64 .mov U 0) := by rw [hc]; exact lookup_mov64
  rw [exec_rmR64_regs hh i s d sr .mov U 0 hrow hops]
  have happ : applyOp2 .mov (s.rflags &&& FLAG_CF != 0) 64 64 (s.regs.get d) (s.regs.get sr) = (s.regs.get sr, 0) := by
    simp [applyOp2]
  rw [happ]
  have hu : U ||| (0 : BitVec 64) = FLAGS_UNAFFECTED := by simp [U]
  simp only [hu, C02.unaffected_kept]
  have hnw : U &&& NO_WRITEBACK = 0#64 := by simp only [U, FLAGS_UNAFFECTED, NO_WRITEBACK]; decide
  simp [hnw]

/-! ## … and the 32-bit register forms: the upper half of the destination is cleared -/

theorem lookup_add32 : lookup "Add_rm32_r32" = some (.rmR 32 32 .add SZP CO) := by decide +kernel
theorem lookup_mov32 : lookup "Mov_rm32_r32" = some (.rmR 32 32 .mov U 0) := by decide +kernel

/-- a 32-bit value written through a 32-bit view replaces the whole parent register, zero-extended -/
theorem writeReg32_fit (s : Machine) (d : Fin 16) (v : BitVec 32) :
    writeReg s 32 (.g32 d) (v.setWidth 64) = .ok { s with regs := s.regs.set d (v.setWidth 64) } := by
  have hfit : ¬ 0xFFFFFFFF < (v.setWidth 64).toNat := by
    have : (v.setWidth 64).toNat < 2 ^ 32 := by
      simp only [BitVec.toNat_setWidth]
      have := v.isLt
      omega
    omega
  have hid : ((v.setWidth 64).setWidth 32).setWidth 64 = v.setWidth 64 := by
    simp [BitVec.setWidth_setWidth_of_le]
  simp only [writeReg, regWriteW, regWrite32, hfit, if_false, hid]

/-- **MOV r32, r32, end to end**: the destination's low half becomes the source's low half and its upper half 0
    (the architecture's zero extension of 32-bit results), flags untouched. -/
theorem mov_r32_r32 (hh : HasHooks) (i : Instr) (s : Machine) (d sr : Fin 16) (hc : i.code = "Mov_rm32_r32")
    (hops : instructionOperands2 i = .ok (.register (.g32 d), .register (.g32 sr))) :
    exec hh i s = .ok { s with regs := s.regs.set d (((s.regs.get sr).setWidth 32).setWidth 64) } := by
  have hrow : lookup i.code = some (.rmR 32 32 .mov U 0) := by rw [hc]; exact lookup_mov32
  unfold exec
  simp only [hrow, calcRmR, hops, AxOperand.toReg, readReg, regReadW, regRead32, readRM, finish, setFlagsW]
  have happ : applyOp2 .mov (s.rflags &&& FLAG_CF != 0) 32 32 (s.regs.get d &&& 0xFFFFFFFF#64) (s.regs.get sr &&& 0xFFFFFFFF#64) =
      (((s.regs.get sr).setWidth 32).setWidth 64, 0) := by
    simp only [applyOp2, Prod.mk.injEq, and_true]
    exact mov32_value _
  rw [happ]
  have hu : U ||| (0 : BitVec 64) = FLAGS_UNAFFECTED := by simp [U]
  simp only [hu, C02.unaffected_kept]
  have hnw : (U &&& NO_WRITEBACK == 0) = true := by simp only [U, FLAGS_UNAFFECTED, NO_WRITEBACK]; decide
  simp only [hnw, if_true, writeRM, writeReg32_fit, ExecRes.ofOut]

/-- **ADD r32, r32, end to end**: the destination register becomes the zero-extended 32-bit sum of the two low halves
    — the upper half is cleared whatever it held. -/
theorem add_r32_r32_value (hh : HasHooks) (i : Instr) (s : Machine) (d sr : Fin 16) (hc : i.code = "Add_rm32_r32")
    (hops : instructionOperands2 i = .ok (.register (.g32 d), .register (.g32 sr))) :
    ∃ f, exec hh i s =
      .ok { s with rflags := f, regs := s.regs.set d (((s.regs.get d).setWidth 32 + (s.regs.get sr).setWidth 32).setWidth 64) } := by
  have hrow : lookup i.code = some (.rmR 32 32 .add SZP CO) := by rw [hc]; exact lookup_add32
  unfold exec
  simp only [hrow, calcRmR, hops, AxOperand.toReg, readReg, regReadW, regRead32, readRM, finish, setFlagsW]
  have hd := low32_setWidth (s.regs.get d)
  have hs := low32_setWidth' (s.regs.get sr)
  have happ : applyOp2 .add (s.rflags &&& FLAG_CF != 0) 32 32 (s.regs.get d &&& 0xFFFFFFFF#64) (s.regs.get sr &&& 0xFFFFFFFF#64) =
      (((opAdd ((s.regs.get d).setWidth 32) ((s.regs.get sr).setWidth 32)).1).setWidth 64,
       (opAdd ((s.regs.get d).setWidth 32) ((s.regs.get sr).setWidth 32)).2) := by
    simp only [applyOp2, hd, hs]
  rw [happ]
  obtain ⟨hres, _, _, hrest⟩ := C02.add_spec_32 ((s.regs.get d).setWidth 32) ((s.regs.get sr).setWidth 32)
  have hfl : (opAdd ((s.regs.get d).setWidth 32) ((s.regs.get sr).setWidth 32)).2 =
      (opAdd ((s.regs.get d).setWidth 32) ((s.regs.get sr).setWidth 32)).2 &&& CO := flags_within_CO _ hrest
  obtain ⟨f, hf, _⟩ := C02.setFlags_alu false (opAdd ((s.regs.get d).setWidth 32) ((s.regs.get sr).setWidth 32)).2
    ((opAdd ((s.regs.get d).setWidth 32) ((s.regs.get sr).setWidth 32)).1) s.rflags
  have hset : SZP ||| (opAdd ((s.regs.get d).setWidth 32) ((s.regs.get sr).setWidth 32)).2 =
      C02.aluSet false (opAdd ((s.regs.get d).setWidth 32) ((s.regs.get sr).setWidth 32)).2 := by
    rw [C02.aluSet, ← hfl]; simp
  refine ⟨f, ?_⟩
  have hsw : ((opAdd ((s.regs.get d).setWidth 32) ((s.regs.get sr).setWidth 32)).1.setWidth 64).setWidth 32 =
      (opAdd ((s.regs.get d).setWidth 32) ((s.regs.get sr).setWidth 32)).1 := by
    simp [BitVec.setWidth_setWidth_of_le]
  rw [hset, hsw, hf]
  have hnw : (SZP &&& NO_WRITEBACK == 0) = true := by
    simp only [SZP, NO_WRITEBACK, FLAG_SF, FLAG_ZF, FLAG_PF]; decide
  simp only [hnw, if_true, ExecRes.ofOut, writeRM, writeReg32_fit, hres]

/-! ## … and an 8-bit form: the other 56 bits of the destination survive -/

theorem lookup_mov8 : lookup "Mov_rm8_r8" = some (.rmR 8 8 .mov U 0) := by decide +kernel

theorem low8_value (x : BitVec 64) : (((x &&& 0xFF#64).setWidth 8).setWidth 64) = x &&& 0xFF#64 := by bv_decide
theorem low8_mov (y : BitVec 64) :
    ((((((y &&& 0xFF#64).setWidth 8).setWidth 64).setWidth 8).setWidth 8).setWidth 64) = y &&& 0xFF#64 := by bv_decide

/-- **MOV r8, r8 (low-byte registers), end to end**: the destination's low byte becomes the source's low byte; the other
    56 bits of the destination register, every other register and the flags are untouched. -/
theorem mov_r8_r8 (hh : HasHooks) (i : Instr) (s : Machine) (d sr : Fin 16) (hc : i.code = "Mov_rm8_r8")
    (hops : instructionOperands2 i = .ok (.register (.g8 d), .register (.g8 sr))) :
    exec hh i s = .ok { s with regs := s.regs.set d ((s.regs.get d &&& 0xFFFFFFFFFFFFFF00#64) ||| (s.regs.get sr &&& 0xFF#64)) } := by
  have hrow : lookup i.code = some (.rmR 8 8 .mov U 0) := by rw [hc]; exact lookup_mov8
  unfold exec
  simp only [hrow, calcRmR, hops, AxOperand.toReg, readReg, regReadW, regRead8, readRM, finish, setFlagsW]
  have happ : applyOp2 .mov (s.rflags &&& FLAG_CF != 0) 8 8
      (((s.regs.get d &&& 0xFF#64).setWidth 8).setWidth 64) (((s.regs.get sr &&& 0xFF#64).setWidth 8).setWidth 64) =
      (s.regs.get sr &&& 0xFF#64, 0) := by
    simp only [applyOp2, Prod.mk.injEq, and_true]
    exact low8_mov _
  rw [happ]
  have hu : U ||| (0 : BitVec 64) = FLAGS_UNAFFECTED := by simp [U]
  have hnw : (U &&& NO_WRITEBACK == 0) = true := by simp only [U, FLAGS_UNAFFECTED, NO_WRITEBACK]; decide
  have hfit : ¬ 0xFF < (s.regs.get sr &&& 0xFF#64).toNat := by
    have : (s.regs.get sr &&& 0xFF#64).toNat ≤ 0xFF := by
      rw [BitVec.toNat_and]
      exact Nat.and_le_right
    omega
  simp only [hu, C02.unaffected_kept, hnw, if_true, writeRM, writeReg, regWriteW, regWrite8, hfit, if_false, ExecRes.ofOut]

/-! non-vacuity: a decoded `add rbx, rcx` meets the hypotheses -/
def addRbxRcx : Instr := { code := "Add_rm64_r64", mnem := "Add", len := 3, nextIp := 0x1003#64, ops := [.reg (.reg (.g64 3)), .reg (.reg (.g64 1))] }
example : instructionOperands2 addRbxRcx = .ok (.register (.g64 3), .register (.g64 1)) := by rfl

/-! ## the implemented set -/

def implemented : List String :=
  (table.filter fun (_, h) => match h with | .unimplemented => false | _ => true).map (·.1)

set_option maxRecDepth 100000 in
/-- the dispatch table implements 312 instruction forms -/
theorem implemented_count : implemented.length = 312 := by decide +kernel

end Ax.C01
