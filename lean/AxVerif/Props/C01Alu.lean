/-
  C01 (continued) — end-to-end theorems for the whole 64-bit register/register ALU family.

  `C01.lean` proves ADD/SUB/CMP/MOV `r/m64, r64` one by one.  Here the common part is factored out once
  (`alu64_finish`) and instantiated for the remaining rows of both directions (`op r/m64, r64` and
  `op r64, r/m64`): ADD, ADC, SUB, CMP, AND, XOR, MOV — 14 instruction forms, every pair of registers (equal
  or not), every machine state.  Each theorem pins down the complete post-state: the destination value, CF, OF,
  ZF, SF, PF in architectural terms (`BitVec.uaddOverflow`, … / exact (w+1)-bit sums for ADC), and the frame
  (all other flag bits, registers, memory and control state untouched).
-/
import AxVerif.Props.C01
namespace Ax.C01
open Ax

/-- the masks of a flag-setting ALU row: `SZP`, with the NO_WRITEBACK marker for CMP -/
def aluRowSet (nw : Bool) : BitVec 64 := if nw then NO_WRITEBACK ||| SZP else SZP

theorem aluRowSet_nw (nw : Bool) : (aluRowSet nw &&& NO_WRITEBACK == 0) = !nw := by
  cases nw <;> simp only [aluRowSet, SZP, NO_WRITEBACK, FLAG_SF, FLAG_ZF, FLAG_PF] <;> decide

/-- **Common tail of every flag-setting 64-bit ALU form**, as a statement about the expression the two generic
    theorems `exec_rmR64_regs` / `exec_rRm64_regs` reduce `exec` to: when the operation reports only CF/OF bits the
    flag macro cannot fail, the destination receives the result unless the row is a compare, ZF/SF/PF describe
    the result, CF/OF are what the operation reported and everything else is kept. -/
theorem alu64_finish (s : Machine) (d : Fin 16) (nw : Bool) (r fl : BitVec 64) (hfl : fl &&& ~~~CO = 0) :
    ∃ f,
      (match setFlags (aluRowSet nw ||| fl) CO (r.setWidth 64) s.rflags with
        | .ok f =>
          if aluRowSet nw &&& NO_WRITEBACK == 0 then
            (ExecRes.ok { s with rflags := f, regs := s.regs.set d r } : ExecRes)
          else .ok { s with rflags := f }
        | .err => .err
        | .panic => .panic) =
        (if nw then .ok { s with rflags := f } else .ok { s with rflags := f, regs := s.regs.set d r }) ∧
      C02.has f FLAG_ZF = decide (r = 0) ∧ C02.has f FLAG_SF = r.msb ∧ C02.has f FLAG_PF = parityEven r ∧
      C02.has f FLAG_CF = C02.has fl FLAG_CF ∧ C02.has f FLAG_OF = C02.has fl FLAG_OF ∧
      f &&& ~~~(SZP ||| CO ||| NO_WRITEBACK) = s.rflags &&& ~~~(SZP ||| CO ||| NO_WRITEBACK) := by
  have hfl' : fl = fl &&& CO := flags_within_CO _ hfl
  obtain ⟨f, hf, hz, hs, hp, hcf, hof, hkeep⟩ := C02.setFlags_alu nw fl r s.rflags
  have hset : aluRowSet nw ||| fl = C02.aluSet nw fl := by
    rw [C02.aluSet, ← hfl']; cases nw <;> simp [aluRowSet]
  refine ⟨f, ?_, hz, hs, hp, hcf, hof, hkeep⟩
  simp only [BitVec.setWidth_eq, hset, hf, aluRowSet_nw]
  cases nw <;> simp

/-- the statement shape shared by all instantiations below -/
def AluPost (hh : HasHooks) (i : Instr) (s : Machine) (d : Fin 16) (nw : Bool) (r : BitVec 64) (cf ovf : Bool) : Prop :=
  ∃ f, exec hh i s = (if nw then .ok { s with rflags := f } else .ok { s with rflags := f, regs := s.regs.set d r }) ∧
    C02.has f FLAG_CF = cf ∧ C02.has f FLAG_OF = ovf ∧
    C02.has f FLAG_ZF = decide (r = 0) ∧ C02.has f FLAG_SF = r.msb ∧ C02.has f FLAG_PF = parityEven r ∧
    f &&& ~~~(SZP ||| CO ||| NO_WRITEBACK) = s.rflags &&& ~~~(SZP ||| CO ||| NO_WRITEBACK)

/-- from either generic theorem to `AluPost`: only the operation's own value/flag facts remain to be supplied -/
theorem aluPost_of (hh : HasHooks) (i : Instr) (s : Machine) (d sr : Fin 16) (op : Op2) (nw : Bool)
    (hrow : lookup i.code = some (.rmR 64 64 op (aluRowSet nw) CO) ∨
            ∃ df, lookup i.code = some (.rRm 64 64 df op (aluRowSet nw) CO))
    (hops : instructionOperands2 i = .ok (.register (.g64 d), .register (.g64 sr)))
    (r : BitVec 64) (cf ovf : Bool)
    (hres : (applyOp2 op (s.rflags &&& FLAG_CF != 0) 64 64 (s.regs.get d) (s.regs.get sr)).1 = r)
    (hcf : C02.has (applyOp2 op (s.rflags &&& FLAG_CF != 0) 64 64 (s.regs.get d) (s.regs.get sr)).2 FLAG_CF = cf)
    (hof : C02.has (applyOp2 op (s.rflags &&& FLAG_CF != 0) 64 64 (s.regs.get d) (s.regs.get sr)).2 FLAG_OF = ovf)
    (hrest : (applyOp2 op (s.rflags &&& FLAG_CF != 0) 64 64 (s.regs.get d) (s.regs.get sr)).2 &&& ~~~CO = 0) :
    AluPost hh i s d nw r cf ovf := by
  obtain ⟨f, hf, hz, hs, hp, hcf', hof', hkeep⟩ :=
    alu64_finish s d nw (applyOp2 op (s.rflags &&& FLAG_CF != 0) 64 64 (s.regs.get d) (s.regs.get sr)).1
      (applyOp2 op (s.rflags &&& FLAG_CF != 0) 64 64 (s.regs.get d) (s.regs.get sr)).2 hrest
  refine ⟨f, ?_, ?_, ?_, ?_, ?_, ?_, hkeep⟩
  · rcases hrow with hrow | ⟨df, hrow⟩
    · rw [exec_rmR64_regs hh i s d sr op _ CO hrow hops, ← hres]; exact hf
    · rw [exec_rRm64_regs hh i s d sr df op _ CO hrow hops, ← hres]; exact hf
  · rw [hcf', hcf]
  · rw [hof', hof]
  · rw [hz, hres]
  · rw [hs, hres]
  · rw [hp, hres]

/-! ## the operations at width 64, in `applyOp2` form -/

theorem apply_add64 (c : Bool) (a b : BitVec 64) : applyOp2 .add c 64 64 a b = ((opAdd a b).1, (opAdd a b).2) := by
  simp [applyOp2]
theorem apply_sub64 (c : Bool) (a b : BitVec 64) : applyOp2 .sub c 64 64 a b = ((opSub a b).1, (opSub a b).2) := by
  simp [applyOp2]
theorem apply_adc64 (c : Bool) (a b : BitVec 64) : applyOp2 .adc c 64 64 a b = ((opAdc c a b).1, (opAdc c a b).2) := by
  simp [applyOp2]
theorem apply_and64 (c : Bool) (a b : BitVec 64) : applyOp2 .and c 64 64 a b = (a &&& b, 0) := by
  simp [applyOp2]
theorem apply_xor64 (c : Bool) (a b : BitVec 64) : applyOp2 .xor c 64 64 a b = (a ^^^ b, 0) := by
  simp [applyOp2]

theorem has_zero (m : BitVec 64) : C02.has (0#64) m = false := by simp [C02.has]

/-! ## table rows -/

theorem lookup_add64' : lookup "Add_r64_rm64" = some (.rRm 64 64 true .add SZP CO) := by decide +kernel
theorem lookup_sub64' : lookup "Sub_r64_rm64" = some (.rRm 64 64 true .sub SZP CO) := by decide +kernel
theorem lookup_cmp64' : lookup "Cmp_r64_rm64" = some (.rRm 64 64 true .sub (NO_WRITEBACK ||| SZP) CO) := by decide +kernel
theorem lookup_adc64 : lookup "Adc_rm64_r64" = some (.rmR 64 64 .adc SZP CO) := by decide +kernel
theorem lookup_adc64' : lookup "Adc_r64_rm64" = some (.rRm 64 64 true .adc SZP CO) := by decide +kernel
theorem lookup_and64 : lookup "And_rm64_r64" = some (.rmR 64 64 .and SZP CO) := by decide +kernel
theorem lookup_and64' : lookup "And_r64_rm64" = some (.rRm 64 64 true .and SZP CO) := by decide +kernel
theorem lookup_xor64 : lookup "Xor_rm64_r64" = some (.rmR 64 64 .xor SZP CO) := by decide +kernel
theorem lookup_xor64' : lookup "Xor_r64_rm64" = some (.rRm 64 64 false .xor SZP CO) := by decide +kernel
theorem lookup_mov64' : lookup "Mov_r64_rm64" = some (.rRm 64 64 false .mov U 0) := by decide +kernel

/-! ## the family -/

/-- **ADD, both directions** (`01 /r` and `03 /r` with REX.W, register operands). -/
theorem add64_family (hh : HasHooks) (i : Instr) (s : Machine) (d sr : Fin 16)
    (hc : i.code = "Add_rm64_r64" ∨ i.code = "Add_r64_rm64")
    (hops : instructionOperands2 i = .ok (.register (.g64 d), .register (.g64 sr))) :
    AluPost hh i s d false (s.regs.get d + s.regs.get sr)
      (BitVec.uaddOverflow (s.regs.get d) (s.regs.get sr)) (BitVec.saddOverflow (s.regs.get d) (s.regs.get sr)) := by
  obtain ⟨hres, hcf, hof, hrest⟩ := C02.add_spec_64 (s.regs.get d) (s.regs.get sr)
  refine aluPost_of hh i s d sr .add false ?_ hops _ _ _ ?_ ?_ ?_ ?_
  · rcases hc with hc | hc
    · left; rw [hc]; exact lookup_add64
    · right; exact ⟨true, by rw [hc]; exact lookup_add64'⟩
  all_goals simp only [apply_add64]
  · exact hres
  · exact hcf
  · exact hof
  · exact hrest

/-- **SUB, both directions**. -/
theorem sub64_family (hh : HasHooks) (i : Instr) (s : Machine) (d sr : Fin 16)
    (hc : i.code = "Sub_rm64_r64" ∨ i.code = "Sub_r64_rm64")
    (hops : instructionOperands2 i = .ok (.register (.g64 d), .register (.g64 sr))) :
    AluPost hh i s d false (s.regs.get d - s.regs.get sr)
      (BitVec.usubOverflow (s.regs.get d) (s.regs.get sr)) (BitVec.ssubOverflow (s.regs.get d) (s.regs.get sr)) := by
  obtain ⟨hres, hcf, hof, hrest⟩ := C02.sub_spec_64 (s.regs.get d) (s.regs.get sr)
  refine aluPost_of hh i s d sr .sub false ?_ hops _ _ _ ?_ ?_ ?_ ?_
  · rcases hc with hc | hc
    · left; rw [hc]; exact lookup_sub64
    · right; exact ⟨true, by rw [hc]; exact lookup_sub64'⟩
  all_goals simp only [apply_sub64]
  · exact hres
  · exact hcf
  · exact hof
  · exact hrest

/-- **CMP, both directions**: flags of the difference, no register written. -/
theorem cmp64_family (hh : HasHooks) (i : Instr) (s : Machine) (d sr : Fin 16)
    (hc : i.code = "Cmp_rm64_r64" ∨ i.code = "Cmp_r64_rm64")
    (hops : instructionOperands2 i = .ok (.register (.g64 d), .register (.g64 sr))) :
    AluPost hh i s d true (s.regs.get d - s.regs.get sr)
      (BitVec.usubOverflow (s.regs.get d) (s.regs.get sr)) (BitVec.ssubOverflow (s.regs.get d) (s.regs.get sr)) := by
  obtain ⟨hres, hcf, hof, hrest⟩ := C02.sub_spec_64 (s.regs.get d) (s.regs.get sr)
  refine aluPost_of hh i s d sr .sub true ?_ hops _ _ _ ?_ ?_ ?_ ?_
  · rcases hc with hc | hc
    · left; rw [hc]; exact lookup_cmp64
    · right; exact ⟨true, by rw [hc]; exact lookup_cmp64'⟩
  all_goals simp only [apply_sub64]
  · exact hres
  · exact hcf
  · exact hof
  · exact hrest

/-- **ADC, both directions**: the carry-in is the current CF; CF/OF are those of the exact 65-bit sums. -/
theorem adc64_family (hh : HasHooks) (i : Instr) (s : Machine) (d sr : Fin 16)
    (hc : i.code = "Adc_rm64_r64" ∨ i.code = "Adc_r64_rm64")
    (hops : instructionOperands2 i = .ok (.register (.g64 d), .register (.g64 sr))) :
    AluPost hh i s d false (s.regs.get d + s.regs.get sr + (if (s.rflags &&& FLAG_CF != 0) then 1 else 0))
      (((s.regs.get d).setWidth 65 + (s.regs.get sr).setWidth 65 + (if (s.rflags &&& FLAG_CF != 0) then 1 else 0)).getLsbD 64)
      ((((s.regs.get d).signExtend 65 + (s.regs.get sr).signExtend 65 + (if (s.rflags &&& FLAG_CF != 0) then 1 else 0)).getLsbD 64) !=
       (((s.regs.get d).signExtend 65 + (s.regs.get sr).signExtend 65 + (if (s.rflags &&& FLAG_CF != 0) then 1 else 0)).getLsbD 63)) := by
  obtain ⟨hres, hcf, hof, hrest⟩ := C02.adc_spec_64 (s.rflags &&& FLAG_CF != 0) (s.regs.get d) (s.regs.get sr)
  refine aluPost_of hh i s d sr .adc false ?_ hops _ _ _ ?_ ?_ ?_ ?_
  · rcases hc with hc | hc
    · left; rw [hc]; exact lookup_adc64
    · right; exact ⟨true, by rw [hc]; exact lookup_adc64'⟩
  all_goals simp only [apply_adc64]
  · exact hres
  · exact hcf
  · exact hof
  · exact hrest

/-- **AND, both directions**: bitwise and; CF and OF cleared. -/
theorem and64_family (hh : HasHooks) (i : Instr) (s : Machine) (d sr : Fin 16)
    (hc : i.code = "And_rm64_r64" ∨ i.code = "And_r64_rm64")
    (hops : instructionOperands2 i = .ok (.register (.g64 d), .register (.g64 sr))) :
    AluPost hh i s d false (s.regs.get d &&& s.regs.get sr) false false := by
  refine aluPost_of hh i s d sr .and false ?_ hops _ _ _ ?_ ?_ ?_ ?_
  · rcases hc with hc | hc
    · left; rw [hc]; exact lookup_and64
    · right; exact ⟨true, by rw [hc]; exact lookup_and64'⟩
  all_goals simp [apply_and64, has_zero]

/-- **XOR, both directions**: bitwise exclusive or; CF and OF cleared.  With `d = sr` this is the zeroing idiom:
    the register becomes 0 and ZF is set (`xor_same_zero`). -/
theorem xor64_family (hh : HasHooks) (i : Instr) (s : Machine) (d sr : Fin 16)
    (hc : i.code = "Xor_rm64_r64" ∨ i.code = "Xor_r64_rm64")
    (hops : instructionOperands2 i = .ok (.register (.g64 d), .register (.g64 sr))) :
    AluPost hh i s d false (s.regs.get d ^^^ s.regs.get sr) false false := by
  refine aluPost_of hh i s d sr .xor false ?_ hops _ _ _ ?_ ?_ ?_ ?_
  · rcases hc with hc | hc
    · left; rw [hc]; exact lookup_xor64
    · right; exact ⟨false, by rw [hc]; exact lookup_xor64'⟩
  all_goals simp [apply_xor64, has_zero]

/-- the zeroing idiom `xor r, r`: the register is 0 afterwards, ZF set, SF/CF/OF clear — whatever it held. -/
theorem xor_same_zero (hh : HasHooks) (i : Instr) (s : Machine) (d : Fin 16)
    (hc : i.code = "Xor_rm64_r64" ∨ i.code = "Xor_r64_rm64")
    (hops : instructionOperands2 i = .ok (.register (.g64 d), .register (.g64 d))) :
    ∃ f, exec hh i s = .ok { s with rflags := f, regs := s.regs.set d 0 } ∧
      C02.has f FLAG_ZF = true ∧ C02.has f FLAG_SF = false ∧ C02.has f FLAG_CF = false ∧ C02.has f FLAG_OF = false := by
  obtain ⟨f, he, hcf, hof, hz, hs, _, _⟩ := xor64_family hh i s d d hc hops
  simp only [BitVec.xor_self] at he hz hs
  refine ⟨f, by simpa using he, by simpa using hz, by simpa using hs, hcf, hof⟩

/-- **MOV r64, r/m64** (`8B /r`, register source): like `mov_r64_r64` for the other direction. -/
theorem mov_r64_rm64 (hh : HasHooks) (i : Instr) (s : Machine) (d sr : Fin 16) (hc : i.code = "Mov_r64_rm64")
    (hops : instructionOperands2 i = .ok (.register (.g64 d), .register (.g64 sr))) :
    exec hh i s = .ok { s with regs := s.regs.set d (s.regs.get sr) } := by
  have hrow : lookup i.code = some (.rRm 64 64 false .mov U 0) := by rw [hc]; exact lookup_mov64'
  rw [exec_rRm64_regs hh i s d sr false .mov U 0 hrow hops]
  have happ : applyOp2 .mov (s.rflags &&& FLAG_CF != 0) 64 64 (s.regs.get d) (s.regs.get sr) = (s.regs.get sr, 0) := by
    simp [applyOp2]
  rw [happ]
  have hu : U ||| (0 : BitVec 64) = FLAGS_UNAFFECTED := by simp [U]
  simp only [hu, C02.unaffected_kept]
  have hnw : U &&& NO_WRITEBACK = 0#64 := by simp only [U, FLAGS_UNAFFECTED, NO_WRITEBACK]; decide
  simp [hnw]

/-- MOV is its own frame: a second identical MOV changes nothing more (idempotence), for every state. -/
theorem mov64_idempotent (hh : HasHooks) (i : Instr) (s : Machine) (d sr : Fin 16) (hne : d ≠ sr)
    (hc : i.code = "Mov_rm64_r64")
    (hops : instructionOperands2 i = .ok (.register (.g64 d), .register (.g64 sr))) :
    ∃ s', exec hh i s = .ok s' ∧ exec hh i s' = .ok s' := by
  refine ⟨_, mov_r64_r64 hh i s d sr hc hops, ?_⟩
  rw [mov_r64_r64 hh i _ d sr hc hops]
  simp only [ExecRes.ok.injEq]
  congr 1
  rw [Regs.get_set_ne _ _ _ _ hne]
  simp [Regs.set]


/-! ## the 32-bit register/register family: result zero-extended into the whole destination, flags at width 32 -/

/-- **Every flag-setting `op r/m32, r32` row with register operands**, generic in the operation `g` (which may read the
    carry-in): the destination's *whole* 64-bit register becomes the zero-extended 32-bit result (upper half cleared
    whatever it held), ZF/SF/PF describe the 32-bit result, CF/OF are the operation's, all else is kept. -/
theorem exec_rmR32_alu (hh : HasHooks) (i : Instr) (s : Machine) (d sr : Fin 16) (op : Op2)
    (g : Bool → BitVec 32 → BitVec 32 → BitVec 32 × BitVec 64)
    (hrow : lookup i.code = some (.rmR 32 32 op SZP CO))
    (hops : instructionOperands2 i = .ok (.register (.g32 d), .register (.g32 sr)))
    (happ : ∀ c a b, applyOp2 op c 32 32 a b =
      ((g c (a.setWidth 32) ((b.setWidth 32).setWidth 32)).1.setWidth 64, (g c (a.setWidth 32) ((b.setWidth 32).setWidth 32)).2))
    (hrest : ∀ c a b, (g c a b).2 &&& ~~~CO = 0) :
    ∃ f, exec hh i s = .ok { s with rflags := f, regs := s.regs.set d ((g (s.rflags &&& FLAG_CF != 0) ((s.regs.get d).setWidth 32) ((s.regs.get sr).setWidth 32)).1.setWidth 64) } ∧
      C02.has f FLAG_ZF = decide ((g (s.rflags &&& FLAG_CF != 0) ((s.regs.get d).setWidth 32) ((s.regs.get sr).setWidth 32)).1 = 0) ∧
      C02.has f FLAG_SF = (g (s.rflags &&& FLAG_CF != 0) ((s.regs.get d).setWidth 32) ((s.regs.get sr).setWidth 32)).1.msb ∧
      C02.has f FLAG_PF = parityEven (g (s.rflags &&& FLAG_CF != 0) ((s.regs.get d).setWidth 32) ((s.regs.get sr).setWidth 32)).1 ∧
      C02.has f FLAG_CF = C02.has (g (s.rflags &&& FLAG_CF != 0) ((s.regs.get d).setWidth 32) ((s.regs.get sr).setWidth 32)).2 FLAG_CF ∧
      C02.has f FLAG_OF = C02.has (g (s.rflags &&& FLAG_CF != 0) ((s.regs.get d).setWidth 32) ((s.regs.get sr).setWidth 32)).2 FLAG_OF ∧
      f &&& ~~~(SZP ||| CO ||| NO_WRITEBACK) = s.rflags &&& ~~~(SZP ||| CO ||| NO_WRITEBACK) := by
  unfold exec
  simp only [hrow, calcRmR, hops, AxOperand.toReg, readReg, regReadW, regRead32, readRM, finish, setFlagsW]
  have hd := low32_setWidth (s.regs.get d)
  have hs := low32_setWidth' (s.regs.get sr)
  rw [happ, hd, hs]
  generalize hp : g (s.rflags &&& FLAG_CF != 0) ((s.regs.get d).setWidth 32) ((s.regs.get sr).setWidth 32) = p
  have hrest' : p.2 &&& ~~~CO = 0 := by rw [← hp]; exact hrest _ _ _
  have hfl : p.2 = p.2 &&& CO := flags_within_CO _ hrest'
  obtain ⟨f, hf, hz, hsf, hpf, hcf, hof, hkeep⟩ := C02.setFlags_alu false p.2 p.1 s.rflags
  have hset : SZP ||| p.2 = C02.aluSet false p.2 := by rw [C02.aluSet, ← hfl]; simp
  have hsw : (p.1.setWidth 64).setWidth 32 = p.1 := by simp [BitVec.setWidth_setWidth_of_le]
  refine ⟨f, ?_, hz, hsf, hpf, hcf, hof, hkeep⟩
  rw [hset, hsw, hf]
  have hnw : (SZP &&& NO_WRITEBACK == 0) = true := by
    simp only [SZP, NO_WRITEBACK, FLAG_SF, FLAG_ZF, FLAG_PF]; decide
  simp only [hnw, if_true, ExecRes.ofOut, writeRM, writeReg32_fit]

theorem lookup_sub32 : lookup "Sub_rm32_r32" = some (.rmR 32 32 .sub SZP CO) := by decide +kernel
theorem lookup_adc32 : lookup "Adc_rm32_r32" = some (.rmR 32 32 .adc SZP CO) := by decide +kernel
theorem lookup_and32 : lookup "And_rm32_r32" = some (.rmR 32 32 .and SZP CO) := by decide +kernel
theorem lookup_xor32 : lookup "Xor_rm32_r32" = some (.rmR 32 32 .xor SZP CO) := by decide +kernel

/-- **ADD r32, r32 with flags**: zero-extended 32-bit sum; CF/OF are the 32-bit unsigned/signed overflow. -/
theorem add_r32_r32 (hh : HasHooks) (i : Instr) (s : Machine) (d sr : Fin 16) (hc : i.code = "Add_rm32_r32")
    (hops : instructionOperands2 i = .ok (.register (.g32 d), .register (.g32 sr))) :
    ∃ f, exec hh i s = .ok { s with rflags := f, regs := s.regs.set d (((s.regs.get d).setWidth 32 + (s.regs.get sr).setWidth 32).setWidth 64) } ∧
      C02.has f FLAG_CF = BitVec.uaddOverflow ((s.regs.get d).setWidth 32) ((s.regs.get sr).setWidth 32) ∧
      C02.has f FLAG_OF = BitVec.saddOverflow ((s.regs.get d).setWidth 32) ((s.regs.get sr).setWidth 32) ∧
      C02.has f FLAG_ZF = decide ((s.regs.get d).setWidth 32 + (s.regs.get sr).setWidth 32 = 0) ∧
      C02.has f FLAG_SF = ((s.regs.get d).setWidth 32 + (s.regs.get sr).setWidth 32).msb := by
  have hrow : lookup i.code = some (.rmR 32 32 .add SZP CO) := by rw [hc]; exact lookup_add32
  obtain ⟨f, he, hz, hsf, _, hcf, hof, _⟩ := exec_rmR32_alu hh i s d sr .add (fun _ a b => opAdd a b) hrow hops
    (by intro c a b; simp [applyOp2]) (by intro _ a b; exact (C02.add_spec_32 a b).2.2.2)
  obtain ⟨hres, hcf', hof', _⟩ := C02.add_spec_32 ((s.regs.get d).setWidth 32) ((s.regs.get sr).setWidth 32)
  simp only [hres] at he hz hsf
  exact ⟨f, he, by rw [hcf, hcf'], by rw [hof, hof'], hz, hsf⟩

/-- **SUB r32, r32 with flags**. -/
theorem sub_r32_r32 (hh : HasHooks) (i : Instr) (s : Machine) (d sr : Fin 16) (hc : i.code = "Sub_rm32_r32")
    (hops : instructionOperands2 i = .ok (.register (.g32 d), .register (.g32 sr))) :
    ∃ f, exec hh i s = .ok { s with rflags := f, regs := s.regs.set d (((s.regs.get d).setWidth 32 - (s.regs.get sr).setWidth 32).setWidth 64) } ∧
      C02.has f FLAG_CF = BitVec.usubOverflow ((s.regs.get d).setWidth 32) ((s.regs.get sr).setWidth 32) ∧
      C02.has f FLAG_OF = BitVec.ssubOverflow ((s.regs.get d).setWidth 32) ((s.regs.get sr).setWidth 32) ∧
      C02.has f FLAG_ZF = decide ((s.regs.get d).setWidth 32 - (s.regs.get sr).setWidth 32 = 0) ∧
      C02.has f FLAG_SF = ((s.regs.get d).setWidth 32 - (s.regs.get sr).setWidth 32).msb := by
  have hrow : lookup i.code = some (.rmR 32 32 .sub SZP CO) := by rw [hc]; exact lookup_sub32
  obtain ⟨f, he, hz, hsf, _, hcf, hof, _⟩ := exec_rmR32_alu hh i s d sr .sub (fun _ a b => opSub a b) hrow hops
    (by intro c a b; simp [applyOp2]) (by intro _ a b; exact (C02.sub_spec_32 a b).2.2.2)
  obtain ⟨hres, hcf', hof', _⟩ := C02.sub_spec_32 ((s.regs.get d).setWidth 32) ((s.regs.get sr).setWidth 32)
  simp only [hres] at he hz hsf
  exact ⟨f, he, by rw [hcf, hcf'], by rw [hof, hof'], hz, hsf⟩

/-- **XOR r32, r32**; with `d = sr` the compilers' zeroing idiom `xor eax, eax` clears all 64 bits. -/
theorem xor_r32_r32 (hh : HasHooks) (i : Instr) (s : Machine) (d sr : Fin 16) (hc : i.code = "Xor_rm32_r32")
    (hops : instructionOperands2 i = .ok (.register (.g32 d), .register (.g32 sr))) :
    ∃ f, exec hh i s = .ok { s with rflags := f, regs := s.regs.set d (((s.regs.get d).setWidth 32 ^^^ (s.regs.get sr).setWidth 32).setWidth 64) } ∧
      C02.has f FLAG_CF = false ∧ C02.has f FLAG_OF = false ∧
      C02.has f FLAG_ZF = decide ((s.regs.get d).setWidth 32 ^^^ (s.regs.get sr).setWidth 32 = 0) := by
  have hrow : lookup i.code = some (.rmR 32 32 .xor SZP CO) := by rw [hc]; exact lookup_xor32
  obtain ⟨f, he, hz, _, _, hcf, hof, _⟩ := exec_rmR32_alu hh i s d sr .xor (fun _ a b => (a ^^^ b, 0)) hrow hops
    (by intro c a b; simp [applyOp2]) (by intro _ a b; simp)
  exact ⟨f, he, by simpa [has_zero] using hcf, by simpa [has_zero] using hof, hz⟩

theorem xor32_same_zero (hh : HasHooks) (i : Instr) (s : Machine) (d : Fin 16) (hc : i.code = "Xor_rm32_r32")
    (hops : instructionOperands2 i = .ok (.register (.g32 d), .register (.g32 d))) :
    ∃ f, exec hh i s = .ok { s with rflags := f, regs := s.regs.set d 0 } ∧ C02.has f FLAG_ZF = true ∧
      C02.has f FLAG_CF = false ∧ C02.has f FLAG_OF = false := by
  obtain ⟨f, he, hcf, hof, hz⟩ := xor_r32_r32 hh i s d d hc hops
  simp only [BitVec.xor_self] at he hz
  exact ⟨f, by simpa using he, by simpa using hz, hcf, hof⟩

/-! ## non-vacuity: a concrete instruction meets the hypotheses -/

def xorRaxRax : Instr := { code := "Xor_rm64_r64", mnem := "Xor", len := 3, nextIp := 0x1003#64, ops := [.reg (.reg (.g64 0)), .reg (.reg (.g64 0))] }
example : instructionOperands2 xorRaxRax = .ok (.register (.g64 0), .register (.g64 0)) := by rfl
def adcRdxRsi : Instr := { code := "Adc_r64_rm64", mnem := "Adc", len := 3, nextIp := 0x1003#64, ops := [.reg (.reg (.g64 2)), .reg (.reg (.g64 6))] }
example : instructionOperands2 adcRdxRsi = .ok (.register (.g64 2), .register (.g64 6)) := by rfl

end Ax.C01
