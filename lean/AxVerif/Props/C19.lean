/-
  C19 — a step on arbitrary code bytes and state terminates with success or an error value.

  * Termination: `step`, `stepBody`, `exec` and every helper are total Lean functions accepted by
    the termination checker without fuel (`execute` alone takes fuel, it is the driver's loop).
  * The step frame never crashes: with well-formed memory, `step` can only report a crash if the
    instruction handler or a (user) hook did (`step_panic_only_from_exec_or_hook`).
  * Undecodable bytes, unsupported mnemonics and unimplemented forms are *errors*
    (`step_undecodable_err`, `step_empty_window_err`, `step_unsupported_err`,
    `step_unimplemented_err`, `step_unknown_code_err`), for every state.
  * The access primitives under every handler never crash for any address or value
    (C07 register API, C08 `read_never_panics`/`write_never_panics`, C09 `fetch_never_panics`).
  * Handler families proved crash-free for every instruction shape iced can hand over:
    see `exec_*_no_panic`.
  What remains sampled: the decoder itself (iced) and the correspondence of the remaining handlers'
  crash sites, exercised by the byte-string fuzzer of this check (implementation under
  catch_unwind and a process watchdog).
-/
import AxVerif.Lemmas.Frame
import AxVerif.Props.C08
import AxVerif.Props.C09
import AxVerif.Lemmas.NoPanic
namespace Ax.C19
open Ax

/-- outcome of the hook chains of a step, as far as crashes are concerned -/
def ChainRes.isPanic : ChainRes → Bool
  | .panic => true
  | _ => false

theorem stepAfterExec_panic (entry : Option HookEntry) (s3 : Machine)
    (h : (stepAfterExec entry s3).out = .panic) :
    ∃ s5, ChainRes.isPanic (runEntry entry false s5) = true := by
  simp only [stepAfterExec] at h
  split at h
  · rename_i hp; exact ⟨_, by rw [hp]; rfl⟩
  · cases h
  · cases h

/-- **The step frame itself never crashes**: a crash outcome of `step` comes from the instruction
    handler or from a hook chain — never from the guards, the fetch, the decode result handling,
    the mnemonic check, the counter or the end-of-code test. -/
theorem step_panic_only_from_exec_or_hook (hooks : HookTable) (decode) (s : Machine) (hm : s.mem.WF)
    (h : (step hooks decode s).out = .panic) :
    (∃ i s2, exec (fun mn => (hooks.get mn).isSome) i s2 = .panic) ∨
    (∃ e b s', ChainRes.isPanic (runEntry e b s') = true) := by
  unfold step at h
  split at h
  · cases h
  split at h
  · cases h
  unfold stepBody at h
  split at h
  · cases h
  · rename_i hp; exact absurd hp (C09.fetch_never_panics s.mem hm _)
  · split at h
    · cases h
    · split at h
      · cases h
      · rename_i i hi
        simp only [stepDecoded] at h
        split at h
        · cases h
        · split at h
          · rename_i hp; exact Or.inr ⟨_, true, _, by rw [hp]; rfl⟩
          · cases h
          · rename_i s2 hs2
            simp only [stepExec] at h
            split at h
            · obtain ⟨s5, h5⟩ := stepAfterExec_panic _ _ h
              exact Or.inr ⟨_, false, s5, h5⟩
            · obtain ⟨s5, h5⟩ := stepAfterExec_panic _ _ h
              exact Or.inr ⟨_, false, s5, h5⟩
            · cases h
            · rename_i hp; exact Or.inl ⟨i, s2, hp⟩

/-- hook chains crash only if a hook function does (the chain logic itself has no crash site) -/
theorem runChain_panic (fs : List HookFn) (s : Machine) (h : ChainRes.isPanic (runChain fs s) = true) :
    ∃ f ∈ fs, ∃ s', (match f s' with | .panic => True | _ => False) := by
  induction fs generalizing s with
  | nil => simp [runChain, ChainRes.isPanic] at h
  | cons f rest ih =>
    simp only [runChain] at h
    split at h
    · rename_i r s1 hf
      split at h
      · simp [ChainRes.isPanic] at h
      · obtain ⟨g, hg, s', hs'⟩ := ih s1 h
        exact ⟨g, List.mem_cons_of_mem _ hg, s', hs'⟩
    · simp [ChainRes.isPanic] at h
    · rename_i hf
      exact ⟨f, List.mem_cons_self, s, by rw [hf]; trivial⟩

/-! ## undecodable, unsupported, unimplemented ⇒ error (and the machine is left as it was) -/

theorem step_undecodable_err (hooks : HookTable) (decode) (s : Machine) (w : List Byte)
    (hf : s.finished = false) (hl : limitReached s = false)
    (hw : memReadExec s.mem s.regs.rip.toNat = .ok w) (hd : decode s w = .invalid) :
    (step hooks decode s).out = .err ∧ (step hooks decode s).s = s := by
  simp only [step, hf, hl, stepBody, hw, hd]
  split <;> simp

theorem step_empty_window_err (hooks : HookTable) (decode) (s : Machine)
    (hf : s.finished = false) (hl : limitReached s = false)
    (hw : memReadExec s.mem s.regs.rip.toNat = .ok []) :
    (step hooks decode s).out = .err ∧ (step hooks decode s).s = s := by
  simp [step, hf, hl, stepBody, hw]

theorem step_unfetchable_err (hooks : HookTable) (decode) (s : Machine)
    (hf : s.finished = false) (hl : limitReached s = false)
    (hw : memReadExec s.mem s.regs.rip.toNat = .err) :
    (step hooks decode s).out = .err ∧ (step hooks decode s).s = s := by
  simp [step, hf, hl, stepBody, hw]

/-- a mnemonic outside the supported list: error, before any hook or handler runs -/
theorem step_unsupported_err (hooks : HookTable) (decode) (s : Machine) (w : List Byte) (i : Instr)
    (hf : s.finished = false) (hl : limitReached s = false)
    (hw : memReadExec s.mem s.regs.rip.toNat = .ok w) (hne : w ≠ [])
    (hd : decode s w = .instr i) (hu : supportedMnemonics.contains i.mnem = false) :
    (step hooks decode s).out = .err := by
  have : w.isEmpty = false := by cases w <;> simp_all
  have hu' : ¬ i.mnem ∈ supportedMnemonics := by simpa using hu
  simp [step, hf, hl, stepBody, hw, hd, this, stepDecoded, hu']

/-- a form whose body is `opcode_unimplemented!` (or a `Code` the dispatcher does not know): the
    handler returns an error value, for every state -/
theorem exec_unimplemented_err (hh : HasHooks) (i : Instr) (s : Machine)
    (h : lookup i.code = some .unimplemented ∨ lookup i.code = none) : exec hh i s = .err := by
  rcases h with h | h <;> simp [exec, h]

theorem step_unimplemented_err (hooks : HookTable) (decode) (s : Machine) (w : List Byte) (i : Instr)
    (hf : s.finished = false) (hl : limitReached s = false)
    (hw : memReadExec s.mem s.regs.rip.toNat = .ok w) (hne : w ≠ [])
    (hd : decode s w = .instr i) (hs : supportedMnemonics.contains i.mnem = true)
    (hnh : hooks.get i.mnem = none)
    (hu : lookup i.code = some .unimplemented ∨ lookup i.code = none) :
    (step hooks decode s).out = .err := by
  have : w.isEmpty = false := by cases w <;> simp_all
  have hs' : i.mnem ∈ supportedMnemonics := by simpa using hs
  simp [step, hf, hl, stepBody, hw, hd, this, stepDecoded, hs', hnh, runEntry, stepExec,
    exec_unimplemented_err _ i _ hu]


/-! ## why a handler can crash -/

/-- **Handlers crash only through the decoder's answer.**  For every instruction form and every state: if the handler's
    outcome is a crash then memory is ill-formed (never: `exec_stores_need_W` and the area theorems keep it well-formed),
    or the decoded instruction does not have the operand shape the form expects (four enumerated cases), or a flag mask
    asks for an unimplemented flag.  No arithmetic, shift, index, register or memory primitive is a crash site. -/
theorem handler_crash_causes (hh : HasHooks) (i : Instr) (s : Machine) (h : exec hh i s = .panic) : CrashCause i s :=
  exec_crash h

/-- with well-formed memory the causes are properties of the decoded instruction and of constant flag masks alone -/
theorem handler_crash_not_state (hh : HasHooks) (i : Instr) (s : Machine) (hwf : s.mem.WF) (h : exec hh i s = .panic) :
    (∃ idx, instructionOperand i idx = .panic) ∨
    (∃ idx o, instructionOperand i idx = .ok o ∧ o.toReg = .panic) ∨
    (∃ idx m, instructionOperand i idx = .ok (.memory m) ∧ ¬ MemOpOk m) ∨
    (¬ ∃ rs r, i.op0 = some (.reg rs) ∧ rs.toSupported = .ok r) ∨
    (∃ set : BitVec 64, set ≠ FLAGS_UNAFFECTED ∧ set &&& FLAGS_ASSERTED ≠ 0) := by
  cases exec_crash h with
  | memory hm => exact absurd hwf hm
  | operand idx h1 => exact Or.inl ⟨idx, h1⟩
  | notReg idx o h1 h2 => exact Or.inr (Or.inl ⟨idx, o, h1, h2⟩)
  | addrReg idx m h1 h2 => exact Or.inr (Or.inr (Or.inl ⟨idx, m, h1, h2⟩))
  | op0 h1 => exact Or.inr (Or.inr (Or.inr (Or.inl h1)))
  | flags set h1 => exact Or.inr (Or.inr (Or.inr (Or.inr ⟨set, h1⟩)))

/-- an operand lookup crashes only for a missing operand or a register ax does not know -/
theorem operand_panic_iff (i : Instr) (idx : Nat) :
    instructionOperand i idx = .panic ↔
      (i.ops[idx]? = none ∨ (i.ops[idx]? = some .mem ∧ (i.base = .unsupported ∨ i.index = .unsupported)) ∨
       (∃ r, i.ops[idx]? = some (.reg r) ∧ (r = .none ∨ r = .unsupported))) := by
  unfold instructionOperand
  cases ho : i.ops[idx]? with
  | none => simp
  | some o =>
    cases o with
    | mem =>
      cases hb : i.base with
      | none => cases hi : i.index <;> cases hs : i.seg <;> simp [hb, hi, hs]
      | unsupported => cases hi : i.index <;> cases hs : i.seg <;> simp [hb, hi, hs]
      | reg r => cases r <;> cases hi : i.index <;> cases hs : i.seg <;> simp [hb, hi, hs]
    | reg r => cases r <;> simp [RegSpec.toSupported]
    | imm sz d => simp
    | other => simp

/-! ## Non-vacuity -/
set_option maxRecDepth 100000 in
example : lookup "Mov_r64_cr" = some .unimplemented ∧ lookup "Vaddps_xmm_xmm_xmmm128" = none := by decide +kernel
example : supportedMnemonics.contains "Fninit" = false := by decide +kernel

end Ax.C19
