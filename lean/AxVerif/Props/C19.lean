import AxVerif.Model.Step
namespace Ax.C19
open Ax
theorem placeholder : True := trivial
end Ax.C19
