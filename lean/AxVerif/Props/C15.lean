import AxVerif.Model.Elf
namespace Ax.C15
open Ax
theorem placeholder : True := trivial
end Ax.C15
