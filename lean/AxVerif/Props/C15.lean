/-
  C15 — loading a well-formed static ELF reproduces its segments, entry and symbols.

  `load_image`: for every file and every parse result whose program-header table consists of headers without effect
  and loadable segments (p_filesz ≤ p_memsz, file range inside the file, end inside the address space) on pairwise
  distinct pages, in any number and order, `from_binary` succeeds and
    * each segment's file bytes appear at p_vaddr, the rest up to p_memsz — in fact up to the end of the page — is zero,
    * the permissions of every such address are exactly the segment flags (`prot_bits`),
    * RIP = e_entry, the general registers are what the constructor left, FS = 0,
    * every address that carries a recorded symbol resolves to the name of a symbol recorded there (`symbols_resolve`,
      for any symbol table, with or without names, with aliases).
  The proof computes the loader's memory exactly: after the table it is the list of `wantArea`s of the loads, in table
  order (`loadSegments_image`), for both allocation paths (file bytes filling the area exactly / zero fill + copy).
  Not covered by the theorem, only by the correspondence: PT_TLS (sets FS), and the `elf` crate's parsing.
  p_vaddr = 0 is not "well-formed" here: the loader skips such headers (Linux refuses to map page 0 as well).
-/
import AxVerif.Model.Elf
import AxVerif.Props.C09
import AxVerif.Props.C16
namespace Ax.C15
open Ax

theorem collides_false_of_sep (start len : Nat) (ar : Area) (hl : 0 < len) (har : 0 < ar.len)
    (h : ar.start + ar.len ≤ start ∨ start + len ≤ ar.start) : collides start len ar = false := by
  simp only [collides, Bool.or_eq_false_iff, Bool.and_eq_false_iff, decide_eq_false_iff_not]
  omega

theorem initArea_succeeds (m : Mem) (start : Nat) (data : List Byte) (name)
    (hl : 0 < data.length) (hfit : start + data.length ≤ U64)
    (hsep : ∀ ar ∈ m, 0 < ar.len ∧ (ar.start + ar.len ≤ start ∨ start + data.length ≤ ar.start)) :
    initArea m start data name =
      .ok (m ++ [{ name := name, start := start, len := data.length, data := data, access := PROT_READ ||| PROT_WRITE }]) := by
  unfold initArea
  have h1 : pastEnd start data.length = false := by
    simp only [pastEnd, Bool.and_eq_false_iff, decide_eq_false_iff_not]; omega
  have h2 : m.any (collides start data.length) = false := by
    rw [List.any_eq_false]
    intro ar har
    have := hsep ar har
    simp [collides_false_of_sep start data.length ar hl this.1 this.2]
  simp [h1, h2]

theorem write_append_last (m : Mem) (a : Area) (x : Nat) (bs : List Byte)
    (hnone : ∀ ar ∈ m, ar.contains x = false) (hc : a.contains x = true)
    (hfit : bs.length ≤ a.len - (x - a.start)) (hw : hasPerm a.access PROT_WRITE = true) (hd : a.data.length = a.len) :
    memWriteBytes (m ++ [a]) x bs = .ok (m ++ [{ a with data := splice a.data (x - a.start) bs }]) := by
  induction m with
  | nil =>
    simp only [List.nil_append, memWriteBytes, hc, if_true]
    have h1 : ¬ (a.len - (x - a.start) < bs.length) := by omega
    rw [contains_iff] at hc
    have h2 : x - a.start + bs.length ≤ a.data.length := by omega
    simp [h1, hw, h2]
  | cons ar rest ih =>
    have h0 := hnone ar (List.mem_cons_self ..)
    simp only [List.cons_append, memWriteBytes, h0, Bool.false_eq_true, if_false]
    rw [ih (fun b hb => hnone b (List.mem_cons_of_mem _ hb))]

theorem memProt_go_append_last (m : Mem) (a : Area) (prot : Nat) (hne : ∀ ar ∈ m, ar.start ≠ a.start) :
    memProt.go a.start prot (m ++ [a]) = .ok (m ++ [{ a with access := prot }]) := by
  induction m with
  | nil => simp [memProt.go]
  | cons ar rest ih =>
    have h0 := hne ar (List.mem_cons_self ..)
    simp only [List.cons_append, memProt.go, h0, if_false]
    rw [ih (fun b hb => hne b (List.mem_cons_of_mem _ hb))]

theorem memProt_append_last (m : Mem) (a : Area) (prot : Nat) (hp : prot ≤ 7) (hne : ∀ ar ∈ m, ar.start ≠ a.start) :
    memProt (m ++ [a]) a.start prot = .ok (m ++ [{ a with access := prot }]) := by
  unfold memProt
  have : ¬ 7 < prot := by omega
  simp only [this, if_false]
  exact memProt_go_append_last m a prot hne

theorem splice_zeros_front (n : Nat) (bs : List Byte) (_h : bs.length ≤ n) :
    splice (zeros n) 0 bs = bs ++ zeros (n - bs.length) := by
  simp [splice, zeros, List.drop_replicate]

theorem elfFlagsToProt_le (f : Nat) : elfFlagsToProt f ≤ 7 := by
  unfold elfFlagsToProt PROT_READ PROT_WRITE PROT_EXEC
  split <;> split <;> split <;> decide

/-! ## the specification of a loaded image -/

/-- end of the last page a segment touches -/
def pageEnd (g : ElfSeg) : Nat := (g.vaddr + g.memsz + 0xfff) / 0x1000 * 0x1000

/-- length of the area that holds the segment: from p_vaddr to the end of its last page -/
def areaLen (g : ElfSeg) : Nat := pageEnd g - g.vaddr

/-- the file bytes of a segment -/
def fileBytes (file : List Byte) (g : ElfSeg) : List Byte := (file.drop g.offset).take g.filesz

/-- the bytes the loaded area must hold: the file bytes, then zeros -/
def imgData (file : List Byte) (g : ElfSeg) : List Byte := fileBytes file g ++ zeros (areaLen g - g.filesz)

/-- a loadable segment of a well-formed file -/
structure GoodLoad (file : List Byte) (g : ElfSeg) : Prop where
  ty : g.ptype = PT_LOAD
  va : g.vaddr ≠ 0
  pos : 0 < g.memsz
  fsz : g.filesz ≤ g.memsz
  infile : g.offset + g.filesz ≤ file.length
  fits : g.vaddr + g.memsz + 0xfff < U64

theorem pageEnd_bounds (g : ElfSeg) : g.vaddr + g.memsz ≤ pageEnd g ∧ pageEnd g < g.vaddr + g.memsz + 0x1000 ∧ pageEnd g % 0x1000 = 0 := by
  unfold pageEnd; omega

theorem roundUp_good (file) (g : ElfSeg) (h : GoodLoad file g) : roundUpPage (g.vaddr + g.memsz) = some (pageEnd g) := by
  unfold roundUpPage pageEnd
  have := h.fits
  simp [this]

theorem fileBytes_length (file) (g : ElfSeg) (h : GoodLoad file g) : (fileBytes file g).length = g.filesz := by
  unfold fileBytes
  have := h.infile
  simp only [List.length_take, List.length_drop]; omega

theorem imgData_length (file) (g : ElfSeg) (h : GoodLoad file g) : (imgData file g).length = areaLen g := by
  unfold imgData
  have := pageEnd_bounds g
  have := h.fsz
  simp only [List.length_append, fileBytes_length file g h, zeros, List.length_replicate, areaLen]
  omega

/-- the area a well-formed PT_LOAD must produce (the name does not matter) -/
def wantArea (file : List Byte) (g : ElfSeg) (name : Option String) : Area :=
  { name := name, start := g.vaddr, len := areaLen g, data := imgData file g, access := elfFlagsToProt g.flags }

/-- **One good PT_LOAD**: on a memory whose areas are all non-empty and away from the segment's pages, the loader appends
    exactly the wanted area and accounts for its size. -/
theorem loadLoad_good (file : List Byte) (st : LoadState) (g : ElfSeg) (hg : GoodLoad file g)
    (hsep : ∀ ar ∈ st.s.mem, 0 < ar.len ∧ (ar.start + ar.len ≤ g.vaddr ∨ pageEnd g ≤ ar.start))
    (hcap : st.image + areaLen g ≤ MAX_IMAGE_SIZE) :
    ∃ name, loadLoad st g (fileBytes file g) =
      .ok { s := { st.s with mem := st.s.mem ++ [wantArea file g name] }, image := st.image + areaLen g } := by
  have hb := pageEnd_bounds g
  have hfits := hg.fits
  have hpos := hg.pos
  have hfl := fileBytes_length file g hg
  have hal : 0 < areaLen g := by unfold areaLen; omega
  unfold loadLoad
  have h1 : ¬ U64 ≤ g.vaddr + g.memsz := by omega
  simp only [h1, if_false, roundUp_good file g hg]
  have h2 : ¬ MAX_IMAGE_SIZE < st.image + (pageEnd g - g.vaddr) := by unfold areaLen at hcap; omega
  simp only [h2, if_false]
  have hne : ∀ ar ∈ st.s.mem, ar.start ≠ g.vaddr := by
    intro ar har
    have := hsep ar har
    omega
  have hprot := elfFlagsToProt_le g.flags
  unfold loadArea
  by_cases hpath : pageEnd g - g.vaddr = g.filesz
  · -- the file bytes fill the area exactly
    refine ⟨some ("elf_load_header_0x" ++ String.ofList (Nat.toDigits 16 g.vaddr)), ?_⟩
    simp only [hpath, if_true]
    have hia := initArea_succeeds st.s.mem g.vaddr (fileBytes file g)
      (some ("elf_load_header_0x" ++ String.ofList (Nat.toDigits 16 g.vaddr)))
      (by rw [hfl]; unfold areaLen at hal; omega) (by rw [hfl]; omega)
      (by intro ar har; have := hsep ar har; rw [hfl]; omega)
    rw [hia]
    simp only
    have := memProt_append_last st.s.mem
      { name := some ("elf_load_header_0x" ++ String.ofList (Nat.toDigits 16 g.vaddr)), start := g.vaddr,
        len := (fileBytes file g).length, data := fileBytes file g, access := PROT_READ ||| PROT_WRITE }
      (elfFlagsToProt g.flags) hprot hne
    simp only at this
    rw [this]
    simp only [wantArea, imgData, areaLen, hpath, hfl, Nat.sub_self, zeros, List.replicate_zero, List.append_nil]
  · refine ⟨some ("elf_load_zeroed_header_0x" ++ String.ofList (Nat.toDigits 16 g.vaddr)), ?_⟩
    simp only [hpath, if_false]
    unfold initZero
    have hzl : (zeros (pageEnd g - g.vaddr)).length = pageEnd g - g.vaddr := by simp [zeros]
    have hia := initArea_succeeds st.s.mem g.vaddr (zeros (pageEnd g - g.vaddr))
      (some ("elf_load_zeroed_header_0x" ++ String.ofList (Nat.toDigits 16 g.vaddr)))
      (by rw [hzl]; unfold areaLen at hal; omega) (by rw [hzl]; omega)
      (by intro ar har; have := hsep ar har; rw [hzl]; omega)
    rw [hia]
    simp only [hzl]
    have hw := write_append_last st.s.mem
      { name := some ("elf_load_zeroed_header_0x" ++ String.ofList (Nat.toDigits 16 g.vaddr)), start := g.vaddr,
        len := pageEnd g - g.vaddr, data := zeros (pageEnd g - g.vaddr), access := PROT_READ ||| PROT_WRITE }
      g.vaddr (fileBytes file g)
      (by
        intro ar har
        have := hsep ar har
        rw [contains_false_iff]; omega)
      (by rw [contains_iff]; simp only; unfold areaLen at hal; omega)
      (by simp only [hfl, Nat.sub_self]; have := hg.fsz; omega)
      (by simp only; decide) (by simp [zeros])
    simp only [Nat.sub_self] at hw
    rw [hw]
    simp only
    have := memProt_append_last st.s.mem
      { name := some ("elf_load_zeroed_header_0x" ++ String.ofList (Nat.toDigits 16 g.vaddr)), start := g.vaddr,
        len := pageEnd g - g.vaddr,
        data := splice (zeros (pageEnd g - g.vaddr)) 0 (fileBytes file g), access := PROT_READ ||| PROT_WRITE }
      (elfFlagsToProt g.flags) hprot hne
    simp only at this
    rw [this]
    have hsp := splice_zeros_front (pageEnd g - g.vaddr) (fileBytes file g) (by rw [hfl]; have := hg.fsz; omega)
    simp only [wantArea, imgData, areaLen, hsp, hfl]
/-! ## the segment loop on a well-formed table -/

def isLoadB (g : ElfSeg) : Bool := g.ptype == PT_LOAD && g.vaddr != 0

/-- headers the loader passes over without any effect: p_vaddr = 0, or — with file data inside the file — one of the
    skipped types, or a GNU_STACK header asking for a read-write stack -/
def Harmless (file : List Byte) (g : ElfSeg) : Prop :=
  g.vaddr = 0 ∨ (g.offset + g.filesz ≤ file.length ∧ (skippedType g.ptype = true ∨ (g.ptype = PT_GNU_STACK ∧ g.flags = 6)))

/-- two segments on distinct pages -/
def sepSeg (a b : ElfSeg) : Prop := pageEnd a ≤ b.vaddr ∨ pageEnd b ≤ a.vaddr

theorem harmless_step (file : List Byte) (st : LoadState) (g : ElfSeg) (h : Harmless file g) :
    loadSegment file st g = .ok st := by
  unfold loadSegment
  rcases h with h | ⟨hin, h⟩
  · simp [h]
  · by_cases hv : g.vaddr = 0
    · simp [hv]
    · simp only [hv, if_false, segmentData, hin, if_true]
      rcases h with h | ⟨h1, h2⟩
      · simp [h]
      · have c1 : skippedType PT_GNU_STACK = false := by decide
        have c2 : ¬ (PT_GNU_STACK = PT_DYNAMIC) := by decide
        simp only [h1, c1, c2, h2, Bool.false_eq_true, if_false, if_true, ne_eq, not_true_eq_false]

theorem harmless_not_load (file : List Byte) (g : ElfSeg) (h : Harmless file g) : isLoadB g = false := by
  unfold isLoadB
  rcases h with h | ⟨_, h | ⟨h1, _⟩⟩
  · simp [h]
  · have : g.ptype ≠ PT_LOAD := by
      intro e; rw [e] at h; revert h; decide
    simp [this]
  · have : g.ptype ≠ PT_LOAD := by rw [h1]; decide
    simp [this]

theorem good_is_load (file : List Byte) (g : ElfSeg) (h : GoodLoad file g) : isLoadB g = true := by
  simp [isLoadB, h.ty, h.va]

theorem good_step (file : List Byte) (st : LoadState) (g : ElfSeg) (h : GoodLoad file g) :
    loadSegment file st g = loadLoad st g (fileBytes file g) := by
  unfold loadSegment
  have h1 : skippedType PT_LOAD = false := by decide
  have h2 : ¬ PT_LOAD = PT_DYNAMIC := by decide
  have h3 : ¬ PT_LOAD = PT_GNU_STACK := by decide
  have h4 : ¬ PT_LOAD = PT_TLS := by decide
  simp only [h.va, if_false, segmentData, h.infile, if_true, h.ty, h1, Bool.false_eq_true, h2, h3, h4, fileBytes]

/-- what is compared: everything of an area but its name -/
def proj (ar : Area) : Nat × Nat × List Byte × Nat := (ar.start, ar.len, ar.data, ar.access)
def want (file : List Byte) (g : ElfSeg) : Nat × Nat × List Byte × Nat :=
  (g.vaddr, areaLen g, imgData file g, elfFlagsToProt g.flags)

theorem areaLen_pos (file : List Byte) (g : ElfSeg) (h : GoodLoad file g) : 0 < areaLen g ∧ g.vaddr + areaLen g = pageEnd g := by
  have := pageEnd_bounds g
  have := h.pos
  unfold areaLen; omega

/-- **The segment loop**: from a memory that holds exactly the areas of the loads `done` so far, a table of harmless headers
    and good loads on pairwise distinct pages is processed without error, and the memory afterwards holds exactly the areas
    of all loads, in table order; nothing but memory changes. -/
theorem loadSegments_image (file : List Byte) (rest : List ElfSeg) :
    ∀ (done : List ElfSeg) (st : LoadState),
    (∀ d ∈ done, GoodLoad file d) →
    st.s.mem.map proj = done.map (want file) →
    (∀ g ∈ rest, Harmless file g ∨ GoodLoad file g) →
    (∀ d ∈ done, ∀ r ∈ rest, GoodLoad file r → sepSeg d r) →
    rest.Pairwise (fun a b => GoodLoad file a → GoodLoad file b → sepSeg a b) →
    st.image + ((rest.filter isLoadB).map areaLen).sum ≤ MAX_IMAGE_SIZE →
    ∃ st', loadSegments file st rest = .ok st' ∧
      st'.s.mem.map proj = (done ++ rest.filter isLoadB).map (want file) ∧
      st'.s = { st.s with mem := st'.s.mem } := by
  induction rest with
  | nil =>
    intro done st _ hmem _ _ _ _
    exact ⟨st, rfl, by simpa using hmem, rfl⟩
  | cons g rest ih =>
    intro done st hdone hmem heach hsep1 hsep2 hcap
    have hp := List.pairwise_cons.mp hsep2
    rcases heach g (List.mem_cons_self ..) with hh | hg
    · -- a header without effect
      have hnl := harmless_not_load file g hh
      simp only [loadSegments, harmless_step file st g hh]
      have hf : (g :: rest).filter isLoadB = rest.filter isLoadB := by simp [List.filter_cons, hnl]
      rw [hf] at hcap ⊢
      exact ih done st hdone hmem (fun x hx => heach x (List.mem_cons_of_mem _ hx))
        (fun d hd r hr => hsep1 d hd r (List.mem_cons_of_mem _ hr)) hp.2 hcap
    · -- a loadable segment
      have hl := good_is_load file g hg
      have hf : (g :: rest).filter isLoadB = g :: rest.filter isLoadB := by simp [List.filter_cons, hl]
      rw [hf] at hcap ⊢
      simp only [List.map_cons, List.sum_cons] at hcap
      have hsep : ∀ ar ∈ st.s.mem, 0 < ar.len ∧ (ar.start + ar.len ≤ g.vaddr ∨ pageEnd g ≤ ar.start) := by
        intro ar har
        have : proj ar ∈ st.s.mem.map proj := List.mem_map.mpr ⟨ar, har, rfl⟩
        rw [hmem] at this
        obtain ⟨d, hd, hde⟩ := List.mem_map.mp this
        simp only [want, proj, Prod.mk.injEq] at hde
        obtain ⟨h1, h2, _, _⟩ := hde
        have hdg := hdone d hd
        have hal := areaLen_pos file d hdg
        have hs := hsep1 d hd g (List.mem_cons_self ..) hg
        unfold sepSeg at hs
        rw [← h1, ← h2]
        omega
      obtain ⟨name, hload⟩ := loadLoad_good file st g hg hsep (by omega)
      simp only [loadSegments, good_step file st g hg, hload]
      have := ih (done ++ [g])
        { s := { st.s with mem := st.s.mem ++ [wantArea file g name] }, image := st.image + areaLen g }
        (by
          intro d hd
          rcases List.mem_append.mp hd with hd | hd
          · exact hdone d hd
          · simp only [List.mem_singleton] at hd; subst hd; exact hg)
        (by simp only [List.map_append, hmem, List.map_cons, List.map_nil]; rfl)
        (fun x hx => heach x (List.mem_cons_of_mem _ hx))
        (by
          intro d hd r hr hgr
          rcases List.mem_append.mp hd with hd | hd
          · exact hsep1 d hd r (List.mem_cons_of_mem _ hr) hgr
          · simp only [List.mem_singleton] at hd; subst hd; exact hp.1 r hr hg hgr)
        hp.2 (by simp only; omega)
      obtain ⟨st', h1, h2, h3⟩ := this
      refine ⟨st', h1, ?_, ?_⟩
      · rw [h2]; simp [List.append_assoc]
      · rw [h3]
/-! ## symbols -/

/-- a symbol that `from_binary` records: defined, and with a readable name -/
def Recorded (y : ElfSym) (n : String) : Prop := y.undef = false ∧ y.name = some n

theorem symLookup_insert_self (t : List (Nat × String)) (a : Nat) (n : String) :
    symLookup (symInsert t a n) a = some n := by
  unfold symLookup symInsert
  have : (t.filter fun p => decide (p.1 ≠ a)).find? (fun p => decide (p.1 = a)) = none := by
    rw [List.find?_eq_none]
    intro p hp
    have := (List.mem_filter.mp hp).2
    simpa using this
  rw [List.find?_append, this]
  simp

theorem symLookup_insert_ne (t : List (Nat × String)) (a b : Nat) (n : String) (h : a ≠ b) :
    symLookup (symInsert t b n) a = symLookup t a := by
  unfold symLookup symInsert
  have hfil : ∀ l : List (Nat × String),
      (l.filter fun p => decide (p.1 ≠ b)).find? (fun p => decide (p.1 = a)) = l.find? (fun p => decide (p.1 = a)) := by
    intro l
    rw [List.find?_filter]
    congr 1
    funext p
    by_cases hpa : p.1 = a
    · simp [hpa, h]
    · simp [hpa]
  rw [List.find?_append, hfil]
  have hb : [(b, n)].find? (fun p : Nat × String => decide (p.1 = a)) = none := by
    simp [Ne.symm h]
  rw [hb]
  simp

/-- symbols that are not recorded at `a` do not disturb what `a` resolves to -/
theorem lookup_unaffected (ys : List ElfSym) (t : List (Nat × String)) (a : Nat)
    (h : ∀ y ∈ ys, ∀ n, Recorded y n → y.value ≠ a) : symLookup (loadSymbols t ys) a = symLookup t a := by
  induction ys generalizing t with
  | nil => rfl
  | cons y rest ih =>
    have ihr := fun t' => ih t' (fun z hz => h z (List.mem_cons_of_mem _ hz))
    unfold loadSymbols
    cases hu : y.undef with
    | true => simp only [if_true]; exact ihr t
    | false =>
      simp only [Bool.false_eq_true, if_false]
      cases hn : y.name with
      | none => exact ihr t
      | some n =>
        simp only
        rw [ihr]
        exact symLookup_insert_ne t a y.value n (Ne.symm (h y (List.mem_cons_self ..) n ⟨hu, hn⟩))

/-- **Every address that carries a recorded symbol resolves to the name of a symbol recorded there.** -/
theorem symbols_resolve (ys : List ElfSym) : ∀ (t : List (Nat × String)) (y : ElfSym) (n : String),
    y ∈ ys → Recorded y n →
    ∃ y' ∈ ys, ∃ n', Recorded y' n' ∧ y'.value = y.value ∧ symLookup (loadSymbols t ys) y.value = some n' := by
  induction ys with
  | nil => intro t y n hy; cases hy
  | cons z rest ih =>
    intro t y n hy hr
    by_cases hlater : ∃ w ∈ rest, ∃ m, Recorded w m ∧ w.value = y.value
    · -- a later symbol at the same address decides
      obtain ⟨w, hw, m, hwr, hwv⟩ := hlater
      have hgen : ∀ t', ∃ y' ∈ z :: rest, ∃ n', Recorded y' n' ∧ y'.value = y.value ∧
          symLookup (loadSymbols t' rest) y.value = some n' := by
        intro t'
        obtain ⟨y', hy', n', h1, h2, h3⟩ := ih t' w m hw hwr
        exact ⟨y', List.mem_cons_of_mem _ hy', n', h1, by rw [h2, hwv], by rw [← hwv]; exact h3⟩
      unfold loadSymbols
      cases hu : z.undef with
      | true => simp only [if_true]; exact hgen t
      | false =>
        simp only [Bool.false_eq_true, if_false]
        cases hn : z.name with
        | none => exact hgen t
        | some nz => exact hgen _
    · -- no later one: `y` must be `z` itself, and nothing after it touches the address
      have hnone : ∀ w ∈ rest, ∀ m, Recorded w m → w.value ≠ y.value := by
        intro w hw m hwr hv
        exact hlater ⟨w, hw, m, hwr, hv⟩
      rcases List.mem_cons.mp hy with rfl | hy'
      · refine ⟨y, List.mem_cons_self .., n, hr, rfl, ?_⟩
        unfold loadSymbols
        simp only [hr.1, Bool.false_eq_true, if_false, hr.2]
        rw [lookup_unaffected rest _ y.value hnone]
        exact symLookup_insert_self t y.value n
      · exact absurd rfl (hnone y hy' n hr)

/-! ## the theorem -/

/-- a well-formed static executable as the property describes it: every program header is either without effect or a
    loadable segment with p_filesz ≤ p_memsz inside the file and the address space; loadable segments occupy distinct
    pages; the image fits the loader's bound -/
structure WellFormed (file : List Byte) (segs : List ElfSeg) : Prop where
  each : ∀ g ∈ segs, Harmless file g ∨ GoodLoad file g
  sep : segs.Pairwise (fun a b => GoodLoad file a → GoodLoad file b → sepSeg a b)
  cap : ((segs.filter isLoadB).map areaLen).sum ≤ MAX_IMAGE_SIZE

/-- the symbol table `from_binary` ends with -/
def finalSymbols (init : Regs) (v : ElfView) : List (Nat × String) :=
  match v.syms with
  | none => (elfInit init v.entry).symbols
  | some ys => loadSymbols (elfInit init v.entry).symbols ys

theorem imgData_get (file : List Byte) (g : ElfSeg) (hg : GoodLoad file g) (k : Nat) (hk : k < areaLen g) :
    (imgData file g)[k]? = if k < g.filesz then file[g.offset + k]? else some 0 := by
  unfold imgData
  have hfl := fileBytes_length file g hg
  by_cases h : k < g.filesz
  · simp only [h, if_true]
    rw [List.getElem?_append_left (by rw [hfl]; exact h)]
    unfold fileBytes
    rw [List.getElem?_take_of_lt h, List.getElem?_drop]
  · simp only [h, if_false]
    rw [List.getElem?_append_right (by rw [hfl]; omega), hfl]
    simp only [zeros]
    rw [List.getElem?_replicate]
    have : k - g.filesz < areaLen g - g.filesz := by omega
    simp [this]

/-- **C15.** Loading a well-formed executable succeeds and the machine holds the file's image: for every loadable
    segment the file bytes at p_vaddr, zeros up to p_memsz (indeed up to the end of the page), the permissions of p_flags
    on all of it; RIP = e_entry; the general registers are the constructor's; and every address with a recorded symbol
    resolves to the name of a symbol recorded there. -/
theorem load_image (init : Regs) (file : List Byte) (v : ElfView) (segs : List ElfSeg)
    (hv : v.segs = some segs) (he : v.entry < U64) (hwf : WellFormed file segs) :
    ∃ s, fromBinary init file v = .ok s ∧
      s.regs.rip = BitVec.ofNat 64 v.entry ∧ s.regs.gpr = init.gpr ∧ s.fs = 0 ∧
      (∀ g ∈ segs, GoodLoad file g → ∀ k, k < areaLen g →
        byteAt s.mem (g.vaddr + k) = (if k < g.filesz then file[g.offset + k]? else some 0) ∧
        permAt s.mem (g.vaddr + k) = some (elfFlagsToProt g.flags)) ∧
      (∀ ys, v.syms = some ys → ∀ y ∈ ys, ∀ n, Recorded y n →
        ∃ y' ∈ ys, ∃ n', Recorded y' n' ∧ y'.value = y.value ∧ symLookup s.symbols y.value = some n') := by
  obtain ⟨st', hload, hmem, hframe⟩ := loadSegments_image file segs [] { s := elfInit init v.entry, image := 0 }
    (by simp) (by simp [elfInit]) hwf.each (by simp) hwf.sep (by simpa using hwf.cap)
  have hne : ¬ U64 ≤ v.entry := by omega
  -- the machine that comes out
  have hres : ∃ s, fromBinary init file v = .ok s ∧ s.mem = st'.s.mem ∧ s.regs = (elfInit init v.entry).regs ∧
      s.fs = 0 ∧ s.symbols = finalSymbols init v := by
    unfold fromBinary finalSymbols
    simp only [hne, if_false, hv, hload]
    cases v.syms with
    | none => exact ⟨st'.s, rfl, rfl, by rw [hframe], by rw [hframe]; rfl, by rw [hframe]⟩
    | some ys => exact ⟨_, rfl, rfl, by simp only; rw [hframe], by simp only; rw [hframe]; rfl, by simp only; rw [hframe]⟩
  obtain ⟨s, hs, hsm, hsr, hsf, hss⟩ := hres
  obtain ⟨_, hwfm, hno⟩ := C16.image_bound init file v s hs
  refine ⟨s, hs, by rw [hsr]; rfl, by rw [hsr]; rfl, hsf, ?_, ?_⟩
  · intro g hg hgood k hk
    have hin : want file g ∈ (segs.filter isLoadB).map (want file) :=
      List.mem_map.mpr ⟨g, List.mem_filter.mpr ⟨hg, good_is_load file g hgood⟩, rfl⟩
    simp only [List.nil_append] at hmem
    rw [← hmem] at hin
    obtain ⟨ar, har, hpe⟩ := List.mem_map.mp hin
    simp only [proj, want, Prod.mk.injEq] at hpe
    obtain ⟨h1, h2, h3, h4⟩ := hpe
    rw [← hsm] at har
    have hc : ar.contains (g.vaddr + k) = true := by rw [contains_iff]; omega
    have hf := findArea_of_mem hno har hc
    constructor
    · simp only [byteAt, hf, h1, h3]
      rw [show g.vaddr + k - g.vaddr = k by omega]
      exact imgData_get file g hgood k hk
    · simp only [permAt, hf, Option.map_some, h4]
  · intro ys hys y hy n hr
    rw [hss]
    unfold finalSymbols
    rw [hys]
    exact symbols_resolve ys _ y n hy hr

/-- the statement of the property's "up to its memory size" clause, as a corollary -/
theorem load_image_memsz (init : Regs) (file : List Byte) (v : ElfView) (segs : List ElfSeg)
    (hv : v.segs = some segs) (he : v.entry < U64) (hwf : WellFormed file segs) :
    ∃ s, fromBinary init file v = .ok s ∧
      ∀ g ∈ segs, GoodLoad file g → ∀ k, k < g.memsz →
        byteAt s.mem (g.vaddr + k) = (if k < g.filesz then file[g.offset + k]? else some 0) ∧
        permAt s.mem (g.vaddr + k) = some (elfFlagsToProt g.flags) := by
  obtain ⟨s, hs, _, _, _, himg, _⟩ := load_image init file v segs hv he hwf
  refine ⟨s, hs, fun g hg hgood k hk => himg g hg hgood k ?_⟩
  have := pageEnd_bounds g
  unfold areaLen; omega

/-- permissions are the segment flags: PF_R → read, PF_W → write, PF_X → execute, nothing else -/
theorem prot_bits (flags : Nat) :
    (hasPerm (elfFlagsToProt flags) PROT_READ = true ↔ flags &&& 4 ≠ 0) ∧
    (hasPerm (elfFlagsToProt flags) PROT_WRITE = true ↔ flags &&& 2 ≠ 0) ∧
    (hasPerm (elfFlagsToProt flags) PROT_EXEC = true ↔ flags &&& 1 ≠ 0) := by
  unfold elfFlagsToProt hasPerm PROT_READ PROT_WRITE PROT_EXEC
  split <;> split <;> split <;> simp_all
/-! ## Non-vacuity: an unaligned segment followed by one on the very next page, with a stack header in between -/
def exFile : List Byte := List.replicate 64 7
def exG1 : ElfSeg := { ptype := PT_LOAD, flags := 5, offset := 0, vaddr := 0x400800, filesz := 0x10, memsz := 0x20 }
def exH : ElfSeg := { ptype := PT_GNU_STACK, flags := 6, offset := 0, vaddr := 0, filesz := 0, memsz := 0 }
def exG2 : ElfSeg := { ptype := PT_LOAD, flags := 6, offset := 0x10, vaddr := 0x401000, filesz := 4, memsz := 0x1004 }

theorem exG1_good : GoodLoad exFile exG1 := ⟨rfl, by decide, by decide, by decide, by decide, by decide⟩
theorem exG2_good : GoodLoad exFile exG2 := ⟨rfl, by decide, by decide, by decide, by decide, by decide⟩

example : WellFormed exFile [exG1, exH, exG2] := by
  refine ⟨?_, ?_, by decide⟩
  · intro g hg
    simp only [List.mem_cons, List.mem_nil_iff, or_false] at hg
    rcases hg with rfl | rfl | rfl
    · exact Or.inr exG1_good
    · exact Or.inl (Or.inl rfl)
    · exact Or.inr exG2_good
  · refine List.pairwise_cons.mpr ⟨?_, List.pairwise_cons.mpr ⟨?_, List.pairwise_cons.mpr ⟨by simp, List.Pairwise.nil⟩⟩⟩
    · intro b hb _ hgb
      simp only [List.mem_cons, List.mem_nil_iff, or_false] at hb
      rcases hb with rfl | rfl
      · exact absurd hgb.va (by decide)
      · left; decide
    · intro b hb hga
      exact absurd hga.va (by decide)

end Ax.C15
