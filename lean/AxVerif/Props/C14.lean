/-
  C14 — the built-in pipe handler implements FIFO byte streams.

  The pipe table is a list of (read end, write end, unread bytes).  For every history of
  pipe()/write()/read() calls — any interleaving, any sizes, any descriptor numbers the host RNG
  hands out — each pipe satisfies the conservation law

      bytes read so far ++ bytes still queued = bytes written so far      (in order)

  which is exactly "no loss, no duplication, FIFO order".
-/
import AxVerif.Model.Step
namespace Ax.C14
open Ax

/-- read ends are pairwise distinct -/
def Distinct (ps : Pipes) : Prop := (ps.map (·.1)).Nodup

/-- bytes queued on the pipe with read end `r` -/
def queued (ps : Pipes) (r : Nat) : Option (List Byte) := (ps.find? (fun p => p.1 == r)).map (·.2.2)

/-- one call -/
inductive PipeOp where
  | create (r w : Nat)
  | write (fd : Nat) (bytes : List Byte)
  | read (fd count : Nat)

/-- ghost history per read end: everything written / everything returned by reads -/
structure Hist where
  written : Nat → List Byte
  read : Nat → List Byte

def Hist.empty : Hist := ⟨fun _ => [], fun _ => []⟩

/-- run one op on table + ghost history; the third component is what the guest sees:
    `none` = left to other hooks, `some bytes` = bytes delivered (read) / accepted (write) -/
def stepOp (ps : Pipes) (h : Hist) : PipeOp → Pipes × Hist × Option (List Byte)
  | .create r w =>
    match pipeCreate ps r w with
    | some ps' => (ps', h, some [])
    | none => (ps, h, none)
  | .write fd bytes =>
    match pipeWrite ps fd bytes, ps.find? (fun p => p.2.1 == fd) with
    | some ps', some q =>
      (ps', { h with written := fun x => if x = q.1 then h.written x ++ bytes else h.written x }, some bytes)
    | _, _ => (ps, h, none)
  | .read fd count =>
    match pipeRead ps fd count with
    | some (bytes, ps') => (ps', { h with read := fun x => if x = fd then h.read x ++ bytes else h.read x }, some bytes)
    | none => (ps, h, none)

def runOps (ps : Pipes) (h : Hist) : List PipeOp → Pipes × Hist
  | [] => (ps, h)
  | op :: ops => runOps (stepOp ps h op).1 (stepOp ps h op).2.1 ops

/-- the conservation law for every pipe of the table; descriptors that are no read end have no history -/
def Conserved (ps : Pipes) (h : Hist) : Prop :=
  (∀ p ∈ ps, h.read p.1 ++ p.2.2 = h.written p.1) ∧
  (∀ r, (∀ p ∈ ps, p.1 ≠ r) → h.read r = [] ∧ h.written r = [])

/-! ## single operations -/

/-- **A read returns at most the requested and at most the available byte count** — exactly the
    first `min count available` queued bytes. -/
theorem read_bounded (ps : Pipes) (fd count : Nat) (bytes : List Byte) (ps' : Pipes)
    (h : pipeRead ps fd count = some (bytes, ps')) :
    ∃ c, queued ps fd = some c ∧ bytes = c.take (min count c.length) ∧
      bytes.length ≤ count ∧ bytes.length ≤ c.length := by
  unfold pipeRead at h
  cases hf : ps.find? (fun p => p.1 == fd) with
  | none => simp [hf] at h
  | some q =>
    simp only [hf, Option.some.injEq, Prod.mk.injEq] at h
    refine ⟨q.2.2, by simp [queued, hf], h.1.symm, ?_, ?_⟩
    · rw [← h.1]; simp; omega
    · rw [← h.1]; simp; omega

/-- **Descriptors that are not pipe ends are left for other syscall hooks.** -/
theorem non_pipe_unhandled (ps : Pipes) (fd : Nat) (hr : ∀ p ∈ ps, p.1 ≠ fd) (hw : ∀ p ∈ ps, p.2.1 ≠ fd) :
    (∀ count, pipeRead ps fd count = none) ∧ (∀ bytes, pipeWrite ps fd bytes = none) := by
  constructor
  · intro count
    have : ps.find? (fun p => p.1 == fd) = none :=
      List.find?_eq_none.mpr (fun p hm => by simpa using hr p hm)
    simp [pipeRead, this]
  · intro bytes
    have : ps.find? (fun p => p.2.1 == fd) = none :=
      List.find?_eq_none.mpr (fun p hm => by simpa using hw p hm)
    simp [pipeWrite, this]

/-- the read hook leaves the machine exactly as it is for a non-pipe descriptor: a later user hook
    sees the call as issued -/
theorem read_hook_unhandled (s : Machine) (hrax : s.regs.get RAX = 0)
    (hr : ∀ p ∈ s.sys.pipes, p.1 ≠ (s.regs.get RDI).toNat) :
    hookPipeRead s = .ok .unhandled s := by
  have : s.sys.pipes.find? (fun p => p.1 == (s.regs.get RDI).toNat) = none :=
    List.find?_eq_none.mpr (fun p hm => by simpa using hr p hm)
  simp [hookPipeRead, hrax, pipeRead, this]

theorem write_hook_unhandled (s : Machine) (hrax : s.regs.get RAX = 1)
    (hw : ∀ p ∈ s.sys.pipes, p.2.1 ≠ (s.regs.get RDI).toNat) :
    hookPipeWrite s = .ok .unhandled s := by
  have : s.sys.pipes.find? (fun p => p.2.1 == (s.regs.get RDI).toNat) = none :=
    List.find?_eq_none.mpr (fun p hm => by simpa using hw p hm)
  simp [hookPipeWrite, hrax, pipeWrite, this]

/-! ## the syscall hooks are the abstract operations (what ties `fifo_all_histories` to guest calls) -/

/-- **A handled read() is exactly `pipeRead`**: the delivered bytes are stored at RSI, RAX is their number, the table is
    the one `pipeRead` returns, and nothing else of the machine changes. -/
theorem read_hook_spec (s s' : Machine) (h : hookPipeRead s = .ok .handled s') :
    ∃ bytes ps m, pipeRead s.sys.pipes (s.regs.get RDI).toNat (s.regs.get RDX).toNat = some (bytes, ps) ∧
      memWriteBytes s.mem (s.regs.get RSI).toNat bytes = .ok m ∧
      s' = setGpr { s with mem := m, sys := { s.sys with pipes := ps } } RAX (BitVec.ofNat 64 bytes.length) := by
  unfold hookPipeRead at h
  split at h
  · cases h
  · dsimp only at h
    split at h
    · cases h
    · rename_i bytes ps hp
      split at h
      · cases h
      · cases h
      · rename_i m hm
        refine ⟨bytes, ps, m, hp, hm, ?_⟩
        injection h with _ h2
        exact h2.symm

/-- **A failed read() loses nothing**: when the destination cannot take the bytes the call is an error and the machine —
    in particular the queue — is exactly as before; the next read still gets those bytes. -/
theorem failed_read_keeps_queue (s s' : Machine) (h : hookPipeRead s = .err s') : s' = s := by
  unfold hookPipeRead at h
  split at h
  · cases h
  · dsimp only at h
    split at h
    · cases h
    · split at h
      · injection h with h; exact h.symm
      · cases h
      · cases h

/-- **A handled write() is exactly `pipeWrite`** of the RDX bytes at RSI; RAX is the count. -/
theorem write_hook_spec (s s' : Machine) (h : hookPipeWrite s = .ok .handled s') :
    ∃ bytes ps, memReadBytes s.mem (s.regs.get RSI).toNat (s.regs.get RDX).toNat = .ok bytes ∧
      pipeWrite s.sys.pipes (s.regs.get RDI).toNat bytes = some ps ∧
      s' = setGpr { s with sys := { s.sys with pipes := ps } } RAX (BitVec.ofNat 64 (s.regs.get RDX).toNat) := by
  unfold hookPipeWrite at h
  split at h
  · cases h
  · dsimp only at h
    split at h
    · cases h
    · split at h
      · cases h
      · cases h
      · rename_i bytes hb
        split at h
        · cases h
        · rename_i ps hp
          refine ⟨bytes, ps, hb, hp, ?_⟩
          injection h with _ h2
          exact h2.symm

/-- a failed write() (unreadable source) queues nothing -/
theorem failed_write_queues_nothing (s s' : Machine) (h : hookPipeWrite s = .err s') : s' = s := by
  unfold hookPipeWrite at h
  split at h
  · cases h
  · dsimp only at h
    split at h
    · cases h
    · split at h
      · injection h with h; exact h.symm
      · cases h
      · split at h <;> cases h

/-! ## the read ends never change, only queue contents -/

theorem write_keys (ps ps' : Pipes) (fd : Nat) (bytes) (h : pipeWrite ps fd bytes = some ps') :
    ps'.map (·.1) = ps.map (·.1) := by
  unfold pipeWrite at h
  split at h
  · cases h
  · simp only [Option.some.injEq] at h
    subst h
    simp only [List.map_map, Function.comp_def]
    apply List.map_congr_left
    intro p _
    split <;> rfl

theorem read_keys (ps ps' : Pipes) (fd count : Nat) (bytes) (h : pipeRead ps fd count = some (bytes, ps')) :
    ps'.map (·.1) = ps.map (·.1) := by
  unfold pipeRead at h
  split at h
  · cases h
  · simp only [Option.some.injEq, Prod.mk.injEq] at h
    rw [← h.2]
    simp only [List.map_map, Function.comp_def]
    apply List.map_congr_left
    intro p _
    split <;> rfl

theorem nodup_fst_unique {ps : Pipes} (hd : Distinct ps) {p q} (hp : p ∈ ps) (hq : q ∈ ps) (e : p.1 = q.1) :
    p = q := by
  unfold Distinct at hd
  induction ps with
  | nil => cases hp
  | cons x xs ih =>
    simp only [List.map_cons, List.nodup_cons, List.mem_map, not_exists, not_and] at hd
    rcases List.mem_cons.mp hp with rfl | hp' <;> rcases List.mem_cons.mp hq with rfl | hq'
    · rfl
    · exact absurd e.symm (hd.1 q hq')
    · exact absurd e (hd.1 p hp')
    · exact ih hd.2 hp' hq'

/-! ## conservation -/

/-- **Conservation is preserved by every operation** (handled or left to other hooks). -/
theorem step_conserved (ps : Pipes) (h : Hist) (op : PipeOp) (hd : Distinct ps) (hc : Conserved ps h) :
    Distinct (stepOp ps h op).1 ∧ Conserved (stepOp ps h op).1 (stepOp ps h op).2.1 := by
  cases op with
  | create r w =>
    simp only [stepOp]
    cases hcr : pipeCreate ps r w with
    | none => exact ⟨hd, hc⟩
    | some ps' =>
      unfold pipeCreate at hcr
      split at hcr
      · cases hcr
      · rename_i hne
        simp only [Option.some.injEq] at hcr; subst hcr
        simp only [Bool.or_eq_true, not_or, Bool.not_eq_true] at hne
        have hr : ∀ p ∈ ps, p.1 ≠ r := by
          intro p hp e
          have : ps.isEnd r = true := List.any_eq_true.mpr ⟨p, hp, by simp [e]⟩
          rw [hne.1.1] at this; cases this
        refine ⟨?_, ?_, ?_⟩
        · unfold Distinct
          simp only [List.map_append, List.map_cons, List.map_nil]
          apply List.nodup_append.mpr
          refine ⟨hd, by simp, ?_⟩
          intro a ha b hb
          simp only [List.mem_singleton] at hb
          obtain ⟨p, hp, rfl⟩ := List.mem_map.mp ha
          subst hb
          exact hr p hp
        · intro p hp
          rcases List.mem_append.mp hp with hp | hp
          · exact hc.1 p hp
          · simp only [List.mem_singleton] at hp; subst hp
            have := hc.2 r hr
            simp [this.1, this.2]
        · intro x hx
          exact hc.2 x (fun p hp => hx p (List.mem_append_left _ hp))
  | write fd bytes =>
    simp only [stepOp]
    cases hf : ps.find? (fun p => p.2.1 == fd) with
    | none => simp only [pipeWrite, hf]; exact ⟨hd, hc⟩
    | some q =>
      have hq : q ∈ ps := List.mem_of_find?_eq_some hf
      simp only [pipeWrite, hf]
      refine ⟨?_, ?_, ?_⟩
      · unfold Distinct
        have := write_keys ps _ fd bytes (by simp only [pipeWrite, hf]; rfl)
        rw [this]; exact hd
      · intro p' hp'
        obtain ⟨p, hp, rfl⟩ := List.mem_map.mp hp'
        by_cases e : p.1 = q.1
        · simp only [e, beq_self_eq_true, if_true]
          have := hc.1 p hp
          rw [e] at this
          simp only [← List.append_assoc, this]
        · have e' : (p.1 == q.1) = false := by simpa using e
          simp only [e', Bool.false_eq_true, if_false, e]
          exact hc.1 p hp
      · intro x hx
        have hx' : ∀ p ∈ ps, p.1 ≠ x := by
          intro p hp
          have := hx (if p.1 == q.1 then (p.1, p.2.1, p.2.2 ++ bytes) else p) (List.mem_map.mpr ⟨p, hp, rfl⟩)
          split at this <;> exact this
        have hxq : x ≠ q.1 := fun e => hx' q hq e.symm
        have := hc.2 x hx'
        simp [hxq, this.1, this.2]
  | read fd count =>
    simp only [stepOp]
    cases hf : ps.find? (fun p => p.1 == fd) with
    | none => simp only [pipeRead, hf]; exact ⟨hd, hc⟩
    | some q =>
      have hq : q ∈ ps := List.mem_of_find?_eq_some hf
      have hqf : q.1 = fd := by simpa using List.find?_some hf
      simp only [pipeRead, hf]
      refine ⟨?_, ?_, ?_⟩
      · unfold Distinct
        have := read_keys ps _ fd count _ (by simp only [pipeRead, hf]; rfl)
        rw [this]; exact hd
      · intro p' hp'
        obtain ⟨p, hp, rfl⟩ := List.mem_map.mp hp'
        by_cases e : p.1 = fd
        · have hpq : p = q := nodup_fst_unique hd hp hq (e.trans hqf.symm)
          subst hpq
          simp only [e, beq_self_eq_true, if_true]
          have := hc.1 p hp
          rw [e] at this
          rw [List.append_assoc, List.take_append_drop, this]
        · have e' : (p.1 == fd) = false := by simpa using e
          simp only [e', Bool.false_eq_true, if_false, e]
          exact hc.1 p hp
      · intro x hx
        have hx' : ∀ p ∈ ps, p.1 ≠ x := by
          intro p hp
          have := hx (if p.1 == fd then (p.1, p.2.1, p.2.2.drop (min count q.2.2.length)) else p)
            (List.mem_map.mpr ⟨p, hp, rfl⟩)
          split at this <;> exact this
        have hxq : x ≠ fd := fun e => hx' q hq (hqf.trans e.symm)
        have := hc.2 x hx'
        simp [hxq, this.1, this.2]

/-- **FIFO for every history.**  From no pipes at all, after any sequence of pipe()/write()/read()
    calls — any interleaving, sizes and descriptor numbers — every pipe satisfies
    `read so far ++ still queued = written so far`: the bytes returned by reads are exactly the bytes
    written, in order, without loss or duplication. -/
theorem fifo_all_histories (ops : List PipeOp) :
    Distinct (runOps [] Hist.empty ops).1 ∧ Conserved (runOps [] Hist.empty ops).1 (runOps [] Hist.empty ops).2 := by
  suffices ∀ ps h, Distinct ps → Conserved ps h →
      Distinct (runOps ps h ops).1 ∧ Conserved (runOps ps h ops).1 (runOps ps h ops).2 from
    this [] Hist.empty (by simp [Distinct]) ⟨by simp, by simp [Hist.empty]⟩
  induction ops with
  | nil => intro ps h hd hc; exact ⟨hd, hc⟩
  | cons op ops ih =>
    intro ps h hd hc
    obtain ⟨h1, h2⟩ := step_conserved ps h op hd hc
    exact ih _ _ h1 h2

/-- **Distinct pipes never share data**: an operation on one pipe leaves every other pipe's queue
    as it was. -/
theorem pipes_independent (ps : Pipes) (h : Hist) (op : PipeOp) (r : Nat)
    (hother : match op with
      | .create _ _ => True
      | .write fd _ => ∀ q, ps.find? (fun p => p.2.1 == fd) = some q → q.1 ≠ r
      | .read fd _ => fd ≠ r)
    (hr : ∃ p ∈ ps, p.1 = r) :
    queued (stepOp ps h op).1 r = queued ps r := by
  obtain ⟨p0, hp0, hp0r⟩ := hr
  cases op with
  | create a b =>
    simp only [stepOp]
    cases hcr : pipeCreate ps a b with
    | none => rfl
    | some ps' =>
      unfold pipeCreate at hcr
      split at hcr
      · cases hcr
      · simp only [Option.some.injEq] at hcr; subst hcr
        simp only [queued, List.find?_append]
        have : (ps.find? (fun p => p.1 == r)).isSome := by
          rw [List.find?_isSome]; exact ⟨p0, hp0, by simp [hp0r]⟩
        cases hfr : ps.find? (fun p => p.1 == r) with
        | none => simp [hfr] at this
        | some x => simp
  | write fd bytes =>
    simp only [stepOp]
    cases hf : ps.find? (fun p => p.2.1 == fd) with
    | none => simp [pipeWrite, hf]
    | some q =>
      have hne : q.1 ≠ r := hother q hf
      simp only [pipeWrite, hf, queued, List.find?_map]
      have : ((fun p => p.1 == r) ∘ fun (p : Nat × Nat × List Byte) => if p.1 == q.1 then (p.1, p.2.1, p.2.2 ++ bytes) else p) =
          (fun p => p.1 == r) := by
        funext p; simp only [Function.comp]; split <;> rfl
      rw [this]
      cases hfr : ps.find? (fun p => p.1 == r) with
      | none => simp
      | some x =>
        have hx : x.1 = r := by simpa using List.find?_some hfr
        have : ¬ x.1 = q.1 := by rw [hx]; exact fun e => hne e.symm
        simp [this]
  | read fd count =>
    simp only [stepOp]
    cases hf : ps.find? (fun p => p.1 == fd) with
    | none => simp [pipeRead, hf]
    | some q =>
      have hne : fd ≠ r := hother
      simp only [pipeRead, hf, queued, List.find?_map]
      have : ((fun p => p.1 == r) ∘ fun (p : Nat × Nat × List Byte) => if p.1 == fd then (p.1, p.2.1, p.2.2.drop (min count q.2.2.length)) else p) =
          (fun p => p.1 == r) := by
        funext p; simp only [Function.comp]; split <;> rfl
      rw [this]
      cases hfr : ps.find? (fun p => p.1 == r) with
      | none => simp
      | some x =>
        have hx : x.1 = r := by simpa using List.find?_some hfr
        have : ¬ x.1 = fd := by rw [hx]; exact fun e => hne e.symm
        simp [this]

/-! ## Non-vacuity: a write–read–read history with a partial read -/
example :
    let r := runOps [] Hist.empty [.create 5 6, .write 6 [1, 2, 3], .read 5 2, .write 6 [4], .read 5 9, .read 7 1]
    r.2.read 5 = [1, 2, 3, 4] ∧ r.2.written 5 = [1, 2, 3, 4] ∧ queued r.1 5 = some [] := by decide

end Ax.C14
