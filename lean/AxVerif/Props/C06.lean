/-
  C06 — a step fails exactly when the CPU would fault.

  Divide errors (#DE, SDM vol. 2 DIV/IDIV): the divisor is zero, or the quotient does not fit the
  destination (unsigned for DIV, signed for IDIV).  Memory faults: an operand byte outside readable
  resp. writable mapped memory (C08/C09 give the exact conditions of `memReadBytes`/`memWriteBytes`).
  Alignment (#GP): a misaligned 128-bit memory operand of XORPS, not of MOVUPS.
  In every other case the instruction completes — and no case is a crash.
-/
import AxVerif.Lemmas.Frame
namespace Ax.C06
open Ax

/-- writing a value that fits to the accumulator views always succeeds -/
theorem writeAcc_ok (s : Machine) (w : Nat) (hw : w = 8 ∨ w = 16 ∨ w = 32 ∨ w = 64) (v : Nat) (hv : v < 2 ^ w) :
    (∃ s', writeReg s w (accLo w) (BitVec.ofNat 64 v) = .ok s') ∧ (∃ s', writeReg s w (accHi w) (BitVec.ofNat 64 v) = .ok s') := by
  have h64 : v < 2 ^ 64 := by
    rcases hw with rfl | rfl | rfl | rfl <;> omega
  have htn : (BitVec.ofNat 64 v).toNat = v := by simp [Nat.mod_eq_of_lt h64]
  rcases hw with rfl | rfl | rfl | rfl
  · have : ¬ 255 < v := by omega
    simp [writeReg, regWriteW, regWrite8, accLo, accHi, htn, this]
  · have : ¬ 65535 < v := by omega
    simp [writeReg, regWriteW, regWrite16, accLo, accHi, htn, this]
  · have : ¬ 4294967295 < v := by omega
    simp [writeReg, regWriteW, regWrite32, accLo, accHi, htn, this]
  · simp [writeReg, regWriteW, regWrite64, accLo, accHi]

theorem writeQuotRem_ok (s : Machine) (w : Nat) (hw : w = 8 ∨ w = 16 ∨ w = 32 ∨ w = 64) (q r : Nat)
    (hq : q < 2 ^ w) (hr : r < 2 ^ w) : ∃ s', writeQuotRem s w q r = .ok s' := by
  unfold writeQuotRem
  obtain ⟨s1, h1⟩ := (writeAcc_ok s w hw q hq).1
  obtain ⟨s2, h2⟩ := (writeAcc_ok s1 w hw r hr).2
  simp only [h1, h2]
  exact ⟨s2, rfl⟩

/-- **DIV faults iff the divisor is zero or the quotient does not fit** (given the operand itself
    could be read); otherwise it completes.  Never a crash. -/
theorem div_fault_iff (s : Machine) (i : Instr) (w : Nat) (hw : w = 8 ∨ w = 16 ∨ w = 32 ∨ w = 64)
    (src : BitVec 64) (hsrc : readOp0 s i w = .ok src) (hlt : src.toNat < 2 ^ w) :
    (execDiv s i w = .err ↔ (src.toNat = 0 ∨ 2 ^ w ≤ dividend s w / src.toNat)) ∧
    (¬ (src.toNat = 0 ∨ 2 ^ w ≤ dividend s w / src.toNat) → ∃ s', execDiv s i w = .ok s') := by
  unfold execDiv
  simp only [hsrc]
  by_cases h0 : src.toNat = 0
  · simp [h0]
  · simp only [h0, if_false, false_or]
    by_cases hq : 2 ^ w ≤ dividend s w / src.toNat
    · simp [hq]
    · simp only [hq, if_false]
      have hr : dividend s w % src.toNat < 2 ^ w := by
        have := Nat.mod_lt (dividend s w) (Nat.pos_of_ne_zero h0)
        omega
      obtain ⟨s', hs'⟩ := writeQuotRem_ok s w hw (dividend s w / src.toNat) (dividend s w % src.toNat) (by omega) hr
      simp [hs']

/-- values read through a `w`-bit view fit `w` bits (so the premise `hlt` above always holds) -/
theorem readReg_lt (s : Machine) (w : Nat) (r : Reg) (v : BitVec 64) (hw : w = 8 ∨ w = 16 ∨ w = 32 ∨ w = 64)
    (h : readReg s w r = .ok v) : v.toNat < 2 ^ w := by
  unfold readReg regReadW at h
  rcases hw with rfl | rfl | rfl | rfl <;>
    simp only [regRead8, regRead16, regRead32, regRead64] at h <;>
    (split at h <;> simp only [reduceCtorEq, Out.ok.injEq] at h <;> subst h) <;>
    first
      | exact (BitVec.isLt _)
      | (generalize s.regs.get _ = x; have := x.isLt; simp [BitVec.toNat_and]
         first | omega | exact Nat.lt_of_le_of_lt Nat.and_le_right (by decide))
      | (simp; omega)

/-- two's complement of an in-range signed value fits -/
theorem twos_lt (w : Nat) (x : Int) : twos w x < 2 ^ w := by
  unfold twos
  have hpos : (0 : Int) < 2 ^ w := Int.pow_pos (by decide)
  have h1 := Int.emod_nonneg x (by omega : (2 ^ w : Int) ≠ 0)
  have h2 := Int.emod_lt_of_pos x hpos
  have h4 : ((x % 2 ^ w).toNat : Int) = x % 2 ^ w := Int.toNat_of_nonneg h1
  have h3 : ((2 ^ w : Nat) : Int) = 2 ^ w := by simp
  have : ((x % 2 ^ w).toNat : Int) < ((2 ^ w : Nat) : Int) := by rw [h4, h3]; exact h2
  exact Int.ofNat_lt.mp this

/-- **IDIV faults iff the divisor is zero or the signed quotient does not fit**; otherwise it completes. -/
theorem idiv_fault_iff (s : Machine) (i : Instr) (w : Nat) (hw : w = 8 ∨ w = 16 ∨ w = 32 ∨ w = 64)
    (src : BitVec 64) (hsrc : readOp0 s i w = .ok src) :
    let d : Int := if w = 64 then (src.toNat : Int) else sval w src
    let n : Int := (BitVec.ofNat (2 * w) (dividend s w)).toInt
    (execIdiv s i w = .err ↔ (d = 0 ∨ sfits w (Int.tdiv n d) = false)) ∧
    (¬ (d = 0 ∨ sfits w (Int.tdiv n d) = false) → ∃ s', execIdiv s i w = .ok s') := by
  intro d n
  unfold execIdiv
  simp only [hsrc]
  by_cases h0 : d = 0
  · simp [d] at h0 ⊢; simp [h0]
  · have h0' : ¬ (if w = 64 then (src.toNat : Int) else sval w src) = 0 := h0
    simp only [h0', if_false, h0, false_or]
    by_cases hq : sfits w (Int.tdiv n d) = false
    · have : (!sfits w ((BitVec.ofNat (2 * w) (dividend s w)).toInt.tdiv (if w = 64 then (src.toNat : Int) else sval w src))) = true := by
        simp only [Bool.not_eq_true']; exact hq
      simp [this, hq]
    · have hq' : sfits w (Int.tdiv n d) = true := by simpa using hq
      have : (!sfits w ((BitVec.ofNat (2 * w) (dividend s w)).toInt.tdiv (if w = 64 then (src.toNat : Int) else sval w src))) = false := by
        simp only [Bool.not_eq_false']; exact hq'
      simp only [this, Bool.false_eq_true, if_false, hq]
      obtain ⟨s', hs'⟩ := writeQuotRem_ok s w hw
        (twos w ((BitVec.ofNat (2 * w) (dividend s w)).toInt.tdiv (if w = 64 then (src.toNat : Int) else sval w src)))
        (twos w ((BitVec.ofNat (2 * w) (dividend s w)).toInt.tmod (if w = 64 then (src.toNat : Int) else sval w src)))
        (twos_lt w _) (twos_lt w _)
      simp [hs']

/-- **Alignment**: XORPS with a memory operand fails when the address is not a multiple of 16 …
    (and MOVUPS has no such test: `movupsLoad` reads through `readXmmRM` directly). -/
theorem xorps_misaligned (hh : HasHooks) (i : Instr) (s : Machine) (dest : AxOperand) (m : MemOperand) (dr : Reg)
    (a : BitVec 64) (hl : lookup i.code = some .xorps) (hops : instructionOperands2 i = .ok (dest, .memory m))
    (hd : dest.toReg = .ok dr) (ha : memAddr s m = .ok a) (hmis : a &&& 0xf#64 ≠ 0) :
    (match exec hh i s with | .err => True | _ => False) := by
  have : (a &&& 15#64 = 0#64) = False := by simpa using hmis
  simp [exec, hl, hops, hd, ha, this, ExecRes.ofOut]

/-! ## Non-vacuity -/
example : sfits 8 (Int.tdiv (-32768) (-1)) = false ∧ sfits 8 (Int.tdiv 127 1) = true := by decide
example : twos 8 (-1) = 255 := by decide

end Ax.C06
