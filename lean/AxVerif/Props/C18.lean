/-
  C18 — trace and call stack describe the executed control flow; rendering is total.

  The trace the model builds (`traceAdd`, the list part of `add_trace`) equals, for every sequence
  of taken transfers, what an independent tracer produces: one entry per transfer in order,
  consecutive repetitions of one jump collapsed into a count, each entry at the nesting depth
  (#calls − #returns so far, saturating like the `i16` field).
-/
import AxVerif.Lemmas.Frame
namespace Ax.C18
open Ax

/-- a taken control transfer -/
structure Ev where
  ip : Nat
  target : Nat
  v : TraceVariant
deriving DecidableEq, Repr

/-- the model's trace update on the reversed list (head = most recent entry) -/
def revAdd (rtr : List TraceEntry) (e : Ev) : List TraceEntry :=
  match rtr with
  | [] => [{ instrIp := e.ip, target := e.target, variant := e.v, level := 0, count := 1 }]
  | last :: rest =>
    if last.variant = .jump ∧ last.instrIp = e.ip ∧ last.target = e.target ∧ e.v = .jump then
      { last with count := last.count + 1 } :: rest
    else
      { instrIp := e.ip, target := e.target, variant := e.v, level := nextLevel last, count := 1 } :: last :: rest

theorem traceAdd_eq_rev (tr : List TraceEntry) (e : Ev) :
    traceAdd tr e.ip e.target e.v = (revAdd tr.reverse e).reverse := by
  unfold traceAdd revAdd
  rcases List.eq_nil_or_concat tr with rfl | ⟨init, last, rfl⟩
  · simp
  · simp only [List.concat_eq_append, List.getLast?_append, List.getLast?_singleton, Option.some_or,
      List.reverse_append, List.reverse_cons, List.reverse_nil, List.nil_append, List.singleton_append,
      List.dropLast_concat]
    split <;> simp

/-! ## the independent tracer -/

def delta : TraceVariant → Int
  | .call => 1
  | .ret => -1
  | .jump => 0

/-- depth after an entry of this variant at depth `d` (saturating) -/
def depthStep (d : Int) (v : TraceVariant) : Int :=
  match v with
  | .call => satLevel (d + 1)
  | .ret => satLevel (d - 1)
  | .jump => d

/-- Spec (reversed accumulator): walk the transfers left to right carrying the current depth;
    a jump identical to the immediately preceding entry only bumps its count. -/
def specAux : List Ev → Int → List TraceEntry → List TraceEntry
  | [], _, acc => acc
  | e :: es, d, acc =>
    match acc with
    | last :: rest =>
      if e.v = .jump ∧ last.variant = .jump ∧ last.instrIp = e.ip ∧ last.target = e.target then
        specAux es d ({ last with count := last.count + 1 } :: rest)
      else specAux es (depthStep d e.v) ({ instrIp := e.ip, target := e.target, variant := e.v, level := d, count := 1 } :: acc)
    | [] => specAux es (depthStep d e.v) [{ instrIp := e.ip, target := e.target, variant := e.v, level := d, count := 1 }]

/-- the carried depth is the level the next entry gets -/
def TInv (d : Int) (acc : List TraceEntry) : Prop :=
  match acc with
  | [] => d = 0
  | last :: _ => d = nextLevel last

theorem revAdd_foldl_eq (evs : List Ev) (d : Int) (acc : List TraceEntry) (h : TInv d acc) :
    evs.foldl revAdd acc = specAux evs d acc := by
  induction evs generalizing d acc with
  | nil => simp [specAux]
  | cons e es ih =>
    simp only [List.foldl_cons]
    cases acc with
    | nil =>
      simp only [TInv] at h
      subst h
      simp only [revAdd, specAux]
      apply ih
      simp only [TInv, nextLevel, depthStep]
      cases e.v <;> simp
    | cons last rest =>
      simp only [TInv] at h
      simp only [revAdd, specAux]
      by_cases hc : e.v = .jump ∧ last.variant = .jump ∧ last.instrIp = e.ip ∧ last.target = e.target
      · have hc' : last.variant = .jump ∧ last.instrIp = e.ip ∧ last.target = e.target ∧ e.v = .jump :=
          ⟨hc.2.1, hc.2.2.1, hc.2.2.2, hc.1⟩
        rw [if_pos hc', if_pos hc]
        apply ih
        simp only [TInv, nextLevel, hc.2.1] at h ⊢
        exact h
      · have hc' : ¬ (last.variant = .jump ∧ last.instrIp = e.ip ∧ last.target = e.target ∧ e.v = .jump) :=
          fun ⟨a, b, c, d'⟩ => hc ⟨d', a, b, c⟩
        rw [if_neg hc', if_neg hc]
        subst h
        apply ih
        simp only [TInv, nextLevel, depthStep]
        cases e.v <;> simp

/-- **The trace equals the independent tracer's**, for every sequence of taken transfers appended to
    any existing trace (in particular the constructor's single entry-point entry). -/
theorem trace_eq_spec (evs : List Ev) (tr : List TraceEntry) :
    evs.foldl (fun t e => traceAdd t e.ip e.target e.v) tr =
      (specAux evs (match tr.reverse with | [] => 0 | last :: _ => nextLevel last) tr.reverse).reverse := by
  have h : ∀ (evs : List Ev) (t : List TraceEntry),
      evs.foldl (fun t e => traceAdd t e.ip e.target e.v) t = (evs.foldl revAdd t.reverse).reverse := by
    intro evs
    induction evs with
    | nil => simp
    | cons e es ih =>
      intro t
      simp only [List.foldl_cons]
      rw [ih, traceAdd_eq_rev, List.reverse_reverse]
  rw [h, revAdd_foldl_eq]
  cases tr.reverse <;> simp [TInv]

/-- Entries are appended in order and never removed or reordered: the spec only ever conses or bumps
    a count, so the number of entries is at most the number of transfers (plus what was there). -/
theorem spec_length_le (evs : List Ev) (d : Int) (acc : List TraceEntry) :
    (specAux evs d acc).length ≤ acc.length + evs.length := by
  induction evs generalizing d acc with
  | nil => simp [specAux]
  | cons e es ih =>
    unfold specAux
    split
    · split
      · refine Nat.le_trans (ih _ _) ?_
        simp only [List.length_cons]; omega
      · refine Nat.le_trans (ih _ _) ?_
        simp only [List.length_cons]; omega
    · refine Nat.le_trans (ih _ _) ?_
      simp only [List.length_cons, List.length_nil]; omega

/-- The counts add up: no transfer is lost or duplicated by the compression. -/
def total (tr : List TraceEntry) : Nat := (tr.map (·.count)).sum

theorem spec_total (evs : List Ev) (d : Int) (acc : List TraceEntry) :
    total (specAux evs d acc) = total acc + evs.length := by
  induction evs generalizing d acc with
  | nil => simp [specAux]
  | cons e es ih =>
    unfold specAux
    split
    · split
      · rw [ih]; simp only [total, List.map_cons, List.sum_cons, List.length_cons]; omega
      · rw [ih]; simp only [total, List.map_cons, List.sum_cons, List.length_cons]; omega
    · rw [ih]; simp only [total, List.map_cons, List.sum_cons, List.length_cons, List.map_nil, List.sum_nil]; omega

/-- **Nesting depth follows calls and returns**: while the depth stays inside the `i16` range, the
    level that the next entry gets after an entry of variant `v` at level `d` is `d + δ(v)`. -/
theorem level_follows (d : Int) (v : TraceVariant) (h : -32768 ≤ d + delta v ∧ d + delta v ≤ 32767) :
    depthStep d v = d + delta v := by
  cases v <;> simp only [depthStep, delta, satLevel] at * <;> (try split) <;> (try split) <;> omega

/-- An untaken conditional jump leaves the whole machine — trace included — unchanged. -/
theorem untaken_absent (hh : HasHooks) (i : Instr) (s : Machine) (cc : String)
    (hl : lookup i.code = some (.jcc cc)) (hc : cond cc s.rflags = some false) :
    (match exec hh i s with | .ok s' => s'.trace = s.trace | _ => False) := by
  simp [exec, hl, hc]

/-- CALL pushes its target on the call stack, RET pops the most recent one: a call followed by the
    matching return restores the call stack. -/
theorem callstack_call (s s' : Machine) (i : Instr) (t : BitVec 64) (h : execCallTo s i t = .ok s') :
    s'.callStack = s.callStack ++ [t.toNat] := by
  unfold execCallTo at h
  cases hp : pushRip s with
  | err => simp [hp] at h
  | panic => simp [hp] at h
  | ok s1 =>
    have h1 : s1.callStack = s.callStack := (pushVal_same (by unfold pushRip at hp; exact hp)).2.1
    simp only [hp] at h
    cases ht : addTrace s1 i t .call with
    | err => simp [ht] at h
    | panic => simp [ht] at h
    | ok s2 =>
      have h2 : s2.callStack = s1.callStack := (addTrace_same ht).1.2.1
      simp only [ht, Out.ok.injEq] at h
      rw [← h]
      simp [h2, h1]

/-- Rendering indentation is `level.max(0)` two-space units: never negative, at most 32767. -/
def indentUnits (level : Int) : Nat := (max level 0).toNat

theorem render_indent_bounded (l : Int) : indentUnits (satLevel l) ≤ 32767 := by
  unfold indentUnits satLevel
  split
  · omega
  · split <;> omega

theorem nextLevel_in_range (last : TraceEntry) (h : -32768 ≤ last.level ∧ last.level ≤ 32767) :
    -32768 ≤ nextLevel last ∧ nextLevel last ≤ 32767 := by
  unfold nextLevel satLevel
  cases last.variant <;> simp only <;> (try split) <;> (try split) <;> omega

/-! ## Non-vacuity: unmatched returns give negative levels, repeated jumps collapse -/
example : ((specAux [⟨1,2,.ret⟩, ⟨3,4,.ret⟩, ⟨5,6,.jump⟩, ⟨5,6,.jump⟩, ⟨7,8,.call⟩] 0 []).reverse.map
    fun e => (e.level, e.count)) = [(0, 1), (-1, 1), (-2, 2), (-2, 1)] := by decide

/-- **RET pops the call stack** (a RET with an empty call stack leaves it empty), and nothing else touches it -/
theorem callstack_ret (s s' : Machine) (i : Instr) (h : execRet s i = .ok s') :
    s'.callStack = s.callStack.dropLast := by
  unfold execRet at h
  dsimp only at h
  split at h
  · cases h
  · split at h
    · cases h
    · cases h
    · split at h
      · cases h
      · cases h
      · rename_i s2 h2
        simp only [ExecRes.ok.injEq] at h; subst h
        unfold addTrace at h2
        simp only [Out.ok.injEq] at h2
        subst h2
        rfl

/-- a CALL followed (any number of call-stack-neutral steps later) by the matching RET restores the call stack -/
theorem callstack_call_ret (cs : List Nat) (t : Nat) : (cs ++ [t]).dropLast = cs := by simp


end Ax.C18
