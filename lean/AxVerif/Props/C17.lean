/-
  C17 — stack initialisation yields the System V entry frame for any argv/envp.

  Proved here, for every argument/environment list, every requested length and every prior layout
  satisfying the memory invariants:
    * the result memory is well-formed and overlap-free (frame, strings, image mutually disjoint),
    * every string is copied NUL-terminated into its own fresh area, in order,
    * the frame is written downwards from a 16-byte aligned address, one 8-byte slot per entry,
      RSP ends 16-byte aligned (the alignment assertion can never fire),
    * the space left below RSP is the requested length plus at most 48 bytes of padding.
  `frame_pops_partial`: that POP returns the entries in order is tied to the implementation by the
  correspondence run (which executes the POPs); the slot arithmetic is proved below.
-/
import AxVerif.Props.C10
import AxVerif.Model.Step
import Std.Tactic.BVDecide
namespace Ax.C17
open Ax

/-! ## strings -/

/-- every allocated string has its own area holding the bytes and a terminating NUL, and the
    invariants are preserved -/
theorem allocStrings_spec (m : Mem) (hm : m.WF) (hno : NoOverlap m) (pfx : String) (k : Nat)
    (strs : List (List Byte)) (addrs : List Nat) (m' : Mem)
    (h : allocStrings m pfx k strs = .ok (addrs, m')) :
    m'.WF ∧ NoOverlap m' ∧ addrs.length = strs.length ∧
    (∃ news : List Area, m' = m ++ news ∧ news.length = strs.length ∧
      ∀ j (hj : j < strs.length) (hj' : j < news.length) (hj'' : j < addrs.length),
        news[j].start = addrs[j] ∧ news[j].data = strs[j] ++ [0] ∧
        news[j].name = some (pfx ++ toString (k + j)) ∧ news[j].access = PROT_READ ||| PROT_WRITE) := by
  induction strs generalizing m k addrs m' with
  | nil =>
    simp only [allocStrings, Out.ok.injEq, Prod.mk.injEq] at h
    obtain ⟨rfl, rfl⟩ := h
    exact ⟨hm, hno, rfl, [], by simp, rfl, fun j hj => by simp at hj⟩
  | cons str rest ih =>
    unfold allocStrings at h
    split at h
    · cases h
    · cases h
    · rename_i a m1 ha
      obtain ⟨hm1eq, _, _, hwf1, hno1⟩ := Ax.C10.anywhere_fresh m hm hno _ _ a m1 ha
      split at h
      · rename_i as m2 hr
        simp only [Out.ok.injEq, Prod.mk.injEq] at h
        obtain ⟨rfl, rfl⟩ := h
        obtain ⟨hwf2, hno2, hlen, news, hnews, hnl, hall⟩ := ih m1 hwf1 hno1 (k + 1) as m2 hr
        refine ⟨hwf2, hno2, by simp [hlen], ?_⟩
        refine ⟨(⟨some (pfx ++ toString k), a, (str ++ [0]).length, str ++ [0], PROT_READ ||| PROT_WRITE⟩ : Area) :: news,
          by rw [hnews, hm1eq]; simp, by simp [hnl], ?_⟩
        intro j hj hj' hj''
        cases j with
        | zero => exact ⟨rfl, rfl, rfl, rfl⟩
        | succ j =>
          simp only [List.length_cons, Nat.add_lt_add_iff_right] at hj hj' hj''
          have := hall j hj hj' hj''
          simp only [List.getElem_cons_succ]
          refine ⟨this.1, this.2.1, ?_, this.2.2.2⟩
          rw [this.2.2.1]
          have e : k + 1 + j = k + (j + 1) := by omega
          rw [e]
      · cases h
      · cases h

/-! ## the frame -/

/-- the layout is written one 8-byte slot per entry, downwards; memory invariants are preserved -/
theorem writeLayout_spec (m : Mem) (hm : m.WF) (hno : NoOverlap m) (vs : List Nat) (top top' : Nat) (m' : Mem)
    (h : writeLayout m vs top = .ok (top', m')) :
    top' + 8 * vs.length = top ∧ m'.WF ∧ NoOverlap m' ∧ skeleton m' = skeleton m := by
  induction vs generalizing m top with
  | nil =>
    simp only [writeLayout, Out.ok.injEq, Prod.mk.injEq] at h
    obtain ⟨rfl, rfl⟩ := h
    exact ⟨by simp, hm, hno, rfl⟩
  | cons v vs ih =>
    unfold writeLayout at h
    cases hw : memWriteN m 8 top v with
    | err => simp [hw] at h
    | panic => simp [hw] at h
    | ok m1 =>
      simp only [hw] at h
      split at h
      · cases h
      · rename_i hge
        have hwb : memWriteBytes m top (leBytes 8 v) = .ok m1 := by
          unfold memWriteN at hw; split at hw
          · cases hw
          · exact hw
        obtain ⟨hwf1, hno1⟩ := Ax.C08.write_preserves m hm hno top _ m1 hwb
        have hsk := (Ax.C08.write_spec m hm hno top _ m1 hwb).1
        obtain ⟨ht, hwf', hno', hsk'⟩ := ih m1 hwf1 hno1 (top - 8) h
        exact ⟨by simp only [List.length_cons]; omega, hwf', hno', hsk'.trans hsk⟩

/-- 16-byte alignment by masking -/
theorem mask16 (x : Nat) (hx : x < U64) : ((BitVec.ofNat 64 x) &&& ~~~(0xf#64)).toNat = x - x % 16 := by
  have h1 : ∀ b : BitVec 64, b &&& ~~~(0xf#64) = b - (b % 16#64) := by
    intro b; bv_decide
  rw [h1]
  simp only [U64] at hx
  have hm : (BitVec.ofNat 64 x % 16#64).toNat = x % 16 := by
    simp only [BitVec.toNat_umod, BitVec.toNat_ofNat]
    have : (16 : Nat) % 2 ^ 64 = 16 := by decide
    rw [this, Nat.mod_eq_of_lt hx]
  rw [BitVec.toNat_sub, hm, BitVec.toNat_ofNat, Nat.mod_eq_of_lt hx]
  omega

/-- **The frame arithmetic**: starting from the masked top `t0` (minus 8 for an odd number of
    entries) and writing `n` slots downwards ends 16-byte aligned — the alignment assertion of the
    code is unreachable — with at least the requested length and at most 48 more bytes below it. -/
theorem frame_arith (start len n e : Nat) (he : e = start + (len + (n * 8 + 48))) (_he64 : e < U64) :
    let t0 := e - 16 - (e - 16) % 16
    let t1 := if n % 2 = 1 then t0 - 8 else t0
    let top := t1 - 8 * n
    top % 16 = 0 ∧ start + len ≤ top ∧ top ≤ start + len + 48 ∧ t1 + 8 ≤ e ∧ 8 * n ≤ t1 := by
  intro t0 t1 top
  subst he
  have hn : n % 2 = 0 ∨ n % 2 = 1 := by omega
  rcases hn with hn | hn
  · have ht1 : t1 = t0 := by simp only [t1, hn]; rfl
    simp only [top, ht1, t0]
    omega
  · have ht1 : t1 = t0 - 8 := by simp only [t1, hn]; rfl
    simp only [top, ht1, t0]
    omega

/-- **Stack initialisation**: whenever it returns, memory is well-formed and overlap-free, RSP is
    16-byte aligned, `stack_top` equals RSP (so the entry frame is what POP walks over), and the
    space below RSP inside the stack area is the requested length up to 48 bytes of padding. -/
theorem init_spec (s : Machine) (hm : s.mem.WF) (hno : NoOverlap s.mem) (len : Nat) (argv envp : List (List Byte))
    (start : Nat) (s' : Machine) (h : initStackProgramStart s len argv envp = .ok (start, s')) :
    s'.mem.WF ∧ NoOverlap s'.mem ∧
    (s'.regs.get RSP).toNat % 16 = 0 ∧ s'.stackTop = (s'.regs.get RSP).toNat ∧
    (∃ ar ∈ s'.mem, ar.name = some "Stack" ∧ ar.start = start ∧
        ar.len = len + ((argv.length + envp.length + 3) * 8 + 48) ∧
        start + len ≤ (s'.regs.get RSP).toNat ∧ (s'.regs.get RSP).toNat ≤ start + len + 48) := by
  unfold initStackProgramStart at h
  cases ha : allocStrings s.mem "arg" 0 argv with
  | err => simp [ha] at h
  | panic => simp [ha] at h
  | ok r1 =>
    obtain ⟨aAddrs, m1⟩ := r1
    simp only [ha] at h
    obtain ⟨hwf1, hno1, hl1, _⟩ := allocStrings_spec s.mem hm hno "arg" 0 argv aAddrs m1 ha
    cases he : allocStrings m1 "env" 0 envp with
    | err => simp [he] at h
    | panic => simp [he] at h
    | ok r2 =>
      obtain ⟨eAddrs, m2⟩ := r2
      simp only [he] at h
      obtain ⟨hwf2, hno2, hl2, _⟩ := allocStrings_spec m1 hwf1 hno1 "env" 0 envp eAddrs m2 he
      have hlay : ([argv.length] ++ aAddrs ++ [0] ++ eAddrs ++ [0]).length = argv.length + envp.length + 3 := by
        simp [hl1, hl2]; omega
      simp only [hlay] at h
      cases hu : u64add len ((argv.length + envp.length + 3) * 8 + 48) with
      | none => simp [hu] at h
      | some total =>
        simp only [hu] at h
        have htot : total = len + ((argv.length + envp.length + 3) * 8 + 48) := by
          unfold u64add at hu; split at hu <;> simp_all
        cases hs : initStackArea m2 total with
        | err => simp [hs] at h
        | panic => simp [hs] at h
        | ok r3 =>
          obtain ⟨st, m3⟩ := r3
          simp only [hs] at h
          obtain ⟨hwf3, hno3⟩ := Ax.C10.stackArea_preserves m2 hwf2 hno2 total st m3 hs
          obtain ⟨_, _, hinit⟩ := Ax.C10.stackAreaFrom_ok m2 total _ _ st m3 hs
          obtain ⟨hm3, _, _⟩ := Ax.C10.initArea_ok m2 st (zeros total) _ m3 hinit
          cases hu2 : u64add st total with
          | none => simp [hu2] at h
          | some e =>
            simp only [hu2] at h
            have he' : e = st + total ∧ e < U64 := by
              unfold u64add at hu2; split at hu2 <;> simp_all
            split at h
            · cases h
            · cases h
            · rename_i top m4 hw
              split at h
              · cases h
              · rename_i hal
                simp only [Out.ok.injEq, Prod.mk.injEq] at h
                obtain ⟨rfl, rfl⟩ := h
                obtain ⟨htop, hwf4, hno4, hsk4⟩ := writeLayout_spec m3 hwf3 hno3 _ _ top m4 hw
                simp only [List.length_reverse, hlay] at htop
                have hmask := mask16 (e - 16) (by omega)
                rw [hmask] at htop
                have hfa := frame_arith st len (argv.length + envp.length + 3) e (by rw [he'.1, htot]) he'.2
                simp only at hfa
                have htopeq : top = (if (argv.length + envp.length + 3) % 2 = 1 then e - 16 - (e - 16) % 16 - 8
                    else e - 16 - (e - 16) % 16) - 8 * (argv.length + envp.length + 3) := by
                  split at htop <;> simp_all <;> omega
                have htop64 : top < U64 := by omega
                have hrsp : ((s.regs.set RSP (BitVec.ofNat 64 top)).get RSP).toNat = top := by
                  simp [Nat.mod_eq_of_lt htop64]
                refine ⟨hwf4, hno4, ?_, ?_, ?_⟩
                · simp only [hrsp]; omega
                · simp only [hrsp]
                · -- the stack area is still there (writes keep the skeleton)
                  have hin3 : (⟨some "Stack", st, (zeros total).length, zeros total, PROT_READ ||| PROT_WRITE⟩ : Area) ∈ m3 := by
                    rw [hm3]; simp
                  have : (some "Stack", st, total, PROT_READ ||| PROT_WRITE) ∈ skeleton m4 := by
                    rw [hsk4]
                    exact List.mem_map.mpr ⟨_, hin3, by simp [zeros]⟩
                  obtain ⟨ar, har, hare⟩ := List.mem_map.mp this
                  simp only [Prod.mk.injEq] at hare
                  refine ⟨ar, har, hare.1, hare.2.1, by rw [hare.2.2.1, htot], ?_, ?_⟩
                  · simp only [hrsp]; rw [htopeq]; exact hfa.2.1
                  · simp only [hrsp]; rw [htopeq]; exact hfa.2.2.1

/-! ## Non-vacuity -/
example : allocStrings [] "arg" 0 [] = .ok ([], []) := rfl
example : writeLayout [{ name := some "Stack", start := 0x1000, len := 16, data := zeros 16, access := 3 }] [5] 0x1008 =
    .ok (0x1000, [{ name := some "Stack", start := 0x1000, len := 16, data := zeros 8 ++ leBytes 8 5, access := 3 }]) := by
  decide
/-- the frame arithmetic on the parameters of the bundled-binary tests: 0x1000 bytes, 2 args, 2 envs -/
example : (let e := 0x1000 + (0x1000 + (7 * 8 + 48)); let t0 := e - 16 - (e - 16) % 16; (t0 - 8 - 8 * 7) % 16) = 0 := by decide

end Ax.C17
