/-
  C17 — stack initialisation yields the System V entry frame for any argv/envp.

  Proved here, for every argument/environment list, every requested length and every prior layout
  satisfying the memory invariants:
    * the result memory is well-formed and overlap-free (frame, strings, image mutually disjoint),
    * every string is copied NUL-terminated into its own fresh area, in order,
    * the frame is written downwards from a 16-byte aligned address, one 8-byte slot per entry,
      RSP ends 16-byte aligned (the alignment assertion can never fire),
    * the space left below RSP is the requested length plus at most 48 bytes of padding.
  `frame_contents` / `frame_pops`: the slots above RSP hold argc, argv pointers, 0, envp pointers, 0 in this order and the
  load each POP performs returns them one after the other (whenever it succeeds, which the correspondence run observes).
-/
import AxVerif.Props.C10
import AxVerif.Model.Step
import Std.Tactic.BVDecide
namespace Ax.C17
open Ax

/-! ## strings -/

/-- every allocated string has its own area holding the bytes and a terminating NUL, and the
    invariants are preserved -/
theorem allocStrings_spec (m : Mem) (hm : m.WF) (hno : NoOverlap m) (pfx : String) (k : Nat)
    (strs : List (List Byte)) (addrs : List Nat) (m' : Mem)
    (h : allocStrings m pfx k strs = .ok (addrs, m')) :
    m'.WF ∧ NoOverlap m' ∧ addrs.length = strs.length ∧
    (∃ news : List Area, m' = m ++ news ∧ news.length = strs.length ∧
      ∀ j (hj : j < strs.length) (hj' : j < news.length) (hj'' : j < addrs.length),
        news[j].start = addrs[j] ∧ news[j].data = strs[j] ++ [0] ∧
        news[j].name = some (pfx ++ toString (k + j)) ∧ news[j].access = PROT_READ ||| PROT_WRITE) := by
  induction strs generalizing m k addrs m' with
  | nil =>
    simp only [allocStrings, Out.ok.injEq, Prod.mk.injEq] at h
    obtain ⟨rfl, rfl⟩ := h
    exact ⟨hm, hno, rfl, [], by simp, rfl, fun j hj => by simp at hj⟩
  | cons str rest ih =>
    unfold allocStrings at h
    split at h
    · cases h
    · cases h
    · rename_i a m1 ha
      obtain ⟨hm1eq, _, _, hwf1, hno1⟩ := Ax.C10.anywhere_fresh m hm hno _ _ a m1 ha
      split at h
      · rename_i as m2 hr
        simp only [Out.ok.injEq, Prod.mk.injEq] at h
        obtain ⟨rfl, rfl⟩ := h
        obtain ⟨hwf2, hno2, hlen, news, hnews, hnl, hall⟩ := ih m1 hwf1 hno1 (k + 1) as m2 hr
        refine ⟨hwf2, hno2, by simp [hlen], ?_⟩
        refine ⟨(⟨some (pfx ++ toString k), a, (str ++ [0]).length, str ++ [0], PROT_READ ||| PROT_WRITE⟩ : Area) :: news,
          by rw [hnews, hm1eq]; simp, by simp [hnl], ?_⟩
        intro j hj hj' hj''
        cases j with
        | zero => exact ⟨rfl, rfl, rfl, rfl⟩
        | succ j =>
          simp only [List.length_cons, Nat.add_lt_add_iff_right] at hj hj' hj''
          have := hall j hj hj' hj''
          simp only [List.getElem_cons_succ]
          refine ⟨this.1, this.2.1, ?_, this.2.2.2⟩
          rw [this.2.2.1]
          have e : k + 1 + j = k + (j + 1) := by omega
          rw [e]
      · cases h
      · cases h

/-! ## the frame -/

/-- the layout is written one 8-byte slot per entry, downwards; memory invariants are preserved -/
theorem writeLayout_spec (m : Mem) (hm : m.WF) (hno : NoOverlap m) (vs : List Nat) (top top' : Nat) (m' : Mem)
    (h : writeLayout m vs top = .ok (top', m')) :
    top' + 8 * vs.length = top ∧ m'.WF ∧ NoOverlap m' ∧ skeleton m' = skeleton m := by
  induction vs generalizing m top with
  | nil =>
    simp only [writeLayout, Out.ok.injEq, Prod.mk.injEq] at h
    obtain ⟨rfl, rfl⟩ := h
    exact ⟨by simp, hm, hno, rfl⟩
  | cons v vs ih =>
    unfold writeLayout at h
    cases hw : memWriteN m 8 top v with
    | err => simp [hw] at h
    | panic => simp [hw] at h
    | ok m1 =>
      simp only [hw] at h
      split at h
      · cases h
      · rename_i hge
        have hwb : memWriteBytes m top (leBytes 8 v) = .ok m1 := by
          unfold memWriteN at hw; split at hw
          · cases hw
          · exact hw
        obtain ⟨hwf1, hno1⟩ := Ax.C08.write_preserves m hm hno top _ m1 hwb
        have hsk := (Ax.C08.write_spec m hm hno top _ m1 hwb).1
        obtain ⟨ht, hwf', hno', hsk'⟩ := ih m1 hwf1 hno1 (top - 8) h
        exact ⟨by simp only [List.length_cons]; omega, hwf', hno', hsk'.trans hsk⟩

/-- 16-byte alignment by masking -/
theorem mask16 (x : Nat) (hx : x < U64) : ((BitVec.ofNat 64 x) &&& ~~~(0xf#64)).toNat = x - x % 16 := by
  have h1 : ∀ b : BitVec 64, b &&& ~~~(0xf#64) = b - (b % 16#64) := by
    intro b; bv_decide
  rw [h1]
  simp only [U64] at hx
  have hm : (BitVec.ofNat 64 x % 16#64).toNat = x % 16 := by
    simp only [BitVec.toNat_umod, BitVec.toNat_ofNat]
    have : (16 : Nat) % 2 ^ 64 = 16 := by decide
    rw [this, Nat.mod_eq_of_lt hx]
  rw [BitVec.toNat_sub, hm, BitVec.toNat_ofNat, Nat.mod_eq_of_lt hx]
  omega

/-- **The frame arithmetic**: starting from the masked top `t0` (minus 8 for an odd number of
    entries) and writing `n` slots downwards ends 16-byte aligned — the alignment assertion of the
    code is unreachable — with at least the requested length and at most 48 more bytes below it. -/
theorem frame_arith (start len n e : Nat) (he : e = start + (len + (n * 8 + 48))) (_he64 : e < U64) :
    let t0 := e - 16 - (e - 16) % 16
    let t1 := if n % 2 = 1 then t0 - 8 else t0
    let top := t1 - 8 * n
    top % 16 = 0 ∧ start + len ≤ top ∧ top ≤ start + len + 48 ∧ t1 + 8 ≤ e ∧ 8 * n ≤ t1 := by
  intro t0 t1 top
  subst he
  have hn : n % 2 = 0 ∨ n % 2 = 1 := by omega
  rcases hn with hn | hn
  · have ht1 : t1 = t0 := by simp only [t1, hn]; rfl
    simp only [top, ht1, t0]
    omega
  · have ht1 : t1 = t0 - 8 := by simp only [t1, hn]; rfl
    simp only [top, ht1, t0]
    omega

/-- **Stack initialisation**: whenever it returns, memory is well-formed and overlap-free, RSP is
    16-byte aligned, `stack_top` equals RSP (so the entry frame is what POP walks over), and the
    space below RSP inside the stack area is the requested length up to 48 bytes of padding. -/
theorem init_spec (s : Machine) (hm : s.mem.WF) (hno : NoOverlap s.mem) (len : Nat) (argv envp : List (List Byte))
    (start : Nat) (s' : Machine) (h : initStackProgramStart s len argv envp = .ok (start, s')) :
    s'.mem.WF ∧ NoOverlap s'.mem ∧
    (s'.regs.get RSP).toNat % 16 = 0 ∧ s'.stackTop = (s'.regs.get RSP).toNat ∧
    (∃ ar ∈ s'.mem, ar.name = some "Stack" ∧ ar.start = start ∧
        ar.len = len + ((argv.length + envp.length + 3) * 8 + 48) ∧
        start + len ≤ (s'.regs.get RSP).toNat ∧ (s'.regs.get RSP).toNat ≤ start + len + 48) := by
  unfold initStackProgramStart at h
  cases ha : allocStrings s.mem "arg" 0 argv with
  | err => simp [ha] at h
  | panic => simp [ha] at h
  | ok r1 =>
    obtain ⟨aAddrs, m1⟩ := r1
    simp only [ha] at h
    obtain ⟨hwf1, hno1, hl1, _⟩ := allocStrings_spec s.mem hm hno "arg" 0 argv aAddrs m1 ha
    cases he : allocStrings m1 "env" 0 envp with
    | err => simp [he] at h
    | panic => simp [he] at h
    | ok r2 =>
      obtain ⟨eAddrs, m2⟩ := r2
      simp only [he] at h
      obtain ⟨hwf2, hno2, hl2, _⟩ := allocStrings_spec m1 hwf1 hno1 "env" 0 envp eAddrs m2 he
      have hlay : ([argv.length] ++ aAddrs ++ [0] ++ eAddrs ++ [0]).length = argv.length + envp.length + 3 := by
        simp [hl1, hl2]; omega
      simp only [hlay] at h
      cases hu : u64add len ((argv.length + envp.length + 3) * 8 + 48) with
      | none => simp [hu] at h
      | some total =>
        simp only [hu] at h
        have htot : total = len + ((argv.length + envp.length + 3) * 8 + 48) := by
          unfold u64add at hu; split at hu <;> simp_all
        cases hs : initStackArea m2 total with
        | err => simp [hs] at h
        | panic => simp [hs] at h
        | ok r3 =>
          obtain ⟨st, m3⟩ := r3
          simp only [hs] at h
          obtain ⟨hwf3, hno3⟩ := Ax.C10.stackArea_preserves m2 hwf2 hno2 total st m3 hs
          obtain ⟨_, _, hinit⟩ := Ax.C10.stackAreaFrom_ok m2 total _ _ st m3 hs
          obtain ⟨hm3, _, _⟩ := Ax.C10.initArea_ok m2 st (zeros total) _ m3 hinit
          cases hu2 : u64add st total with
          | none => simp [hu2] at h
          | some e =>
            simp only [hu2] at h
            have he' : e = st + total ∧ e < U64 := by
              unfold u64add at hu2; split at hu2 <;> simp_all
            split at h
            · cases h
            · cases h
            · rename_i top m4 hw
              split at h
              · cases h
              · rename_i hal
                simp only [Out.ok.injEq, Prod.mk.injEq] at h
                obtain ⟨rfl, rfl⟩ := h
                obtain ⟨htop, hwf4, hno4, hsk4⟩ := writeLayout_spec m3 hwf3 hno3 _ _ top m4 hw
                simp only [List.length_reverse, hlay] at htop
                have hmask := mask16 (e - 16) (by omega)
                rw [hmask] at htop
                have hfa := frame_arith st len (argv.length + envp.length + 3) e (by rw [he'.1, htot]) he'.2
                simp only at hfa
                have htopeq : top = (if (argv.length + envp.length + 3) % 2 = 1 then e - 16 - (e - 16) % 16 - 8
                    else e - 16 - (e - 16) % 16) - 8 * (argv.length + envp.length + 3) := by
                  split at htop <;> simp_all <;> omega
                have htop64 : top < U64 := by omega
                have hrsp : ((s.regs.set RSP (BitVec.ofNat 64 top)).get RSP).toNat = top := by
                  simp [Nat.mod_eq_of_lt htop64]
                refine ⟨hwf4, hno4, ?_, ?_, ?_⟩
                · simp only [hrsp]; omega
                · simp only [hrsp]
                · -- the stack area is still there (writes keep the skeleton)
                  have hin3 : (⟨some "Stack", st, (zeros total).length, zeros total, PROT_READ ||| PROT_WRITE⟩ : Area) ∈ m3 := by
                    rw [hm3]; simp
                  have : (some "Stack", st, total, PROT_READ ||| PROT_WRITE) ∈ skeleton m4 := by
                    rw [hsk4]
                    exact List.mem_map.mpr ⟨_, hin3, by simp [zeros]⟩
                  obtain ⟨ar, har, hare⟩ := List.mem_map.mp this
                  simp only [Prod.mk.injEq] at hare
                  refine ⟨ar, har, hare.1, hare.2.1, by rw [hare.2.2.1, htot], ?_, ?_⟩
                  · simp only [hrsp]; rw [htopeq]; exact hfa.2.1
                  · simp only [hrsp]; rw [htopeq]; exact hfa.2.2.1

/-! ## initialisation never crashes -/

theorem allocStrings_np (pfx : String) (strs : List (List Byte)) : ∀ (m : Mem) (k : Nat),
    allocStrings m pfx k strs ≠ .panic := by
  induction strs with
  | nil => intro m k; simp [allocStrings]
  | cons str rest ih =>
    intro m k
    unfold allocStrings
    cases ha : initAnywhere m (str ++ [0]) (some (pfx ++ toString k)) with
    | err => simp
    | panic => exact absurd ha (Ax.C10.anywhere_never_panics _ _ _ _)
    | ok r =>
      obtain ⟨a, m1⟩ := r
      simp only
      have := ih m1 (k + 1)
      cases hr : allocStrings m1 pfx (k + 1) rest with
      | err => simp
      | panic => exact absurd hr this
      | ok r2 => simp

theorem stackAreaFrom_np (m : Mem) (len : Nat) (s0 : Nat) (h0 : 0 < s0) : initStackAreaFrom m len s0 h0 ≠ .panic := by
  fun_induction initStackAreaFrom m len s0 h0 with
  | case1 => simp
  | case2 => simp
  | case3 start _ hlt hp => exact absurd hp (Ax.C10.initArea_never_panics _ _ _ _)
  | case4 start _ hlt he ih => exact ih

/-- the frame writer cannot crash when the slots it walks over lie above address 8·(number of values) -/
theorem writeLayout_np (vs : List Nat) : ∀ (m : Mem) (_ : m.WF) (_ : NoOverlap m) (top : Nat), 8 * vs.length ≤ top →
    writeLayout m vs top ≠ .panic := by
  induction vs with
  | nil => intro m _ _ top _; simp [writeLayout]
  | cons v vs ih =>
    intro m hm hno top htop
    unfold writeLayout
    cases hw : memWriteN m 8 top v with
    | err => simp
    | panic =>
      unfold memWriteN at hw
      split at hw
      · cases hw
      · exact absurd hw (Ax.C08.write_never_panics m hm top _)
    | ok m1 =>
      simp only
      have hge : ¬ top < 8 := by simp only [List.length_cons] at htop; omega
      simp only [hge, if_false]
      have hwb : memWriteBytes m top (leBytes 8 v) = .ok m1 := by
        unfold memWriteN at hw; split at hw
        · cases hw
        · exact hw
      obtain ⟨hwf1, hno1⟩ := Ax.C08.write_preserves m hm hno top _ m1 hwb
      exact ih m1 hwf1 hno1 (top - 8) (by simp only [List.length_cons] at htop; omega)

/-- **Stack initialisation never crashes**: for every prior layout satisfying the memory invariants, every argument and
    environment list and every length whose total (length + frame) is below 2^63 — every size a host can allocate at
    all — `init_stack_program_start` returns a result or an error. (Sizes above that are rejected as errors by the
    allocation itself, which is outside the model; `length + frame ≥ 2^64` is an error by `checked_add`.) -/
theorem init_never_panics (s : Machine) (hm : s.mem.WF) (hno : NoOverlap s.mem) (len : Nat) (argv envp : List (List Byte))
    (hsz : len + ((argv.length + envp.length + 3) * 8 + 48) < 2 ^ 63) :
    initStackProgramStart s len argv envp ≠ .panic := by
  unfold initStackProgramStart
  cases ha : allocStrings s.mem "arg" 0 argv with
  | err => simp
  | panic => exact absurd ha (allocStrings_np _ _ _ _)
  | ok r1 =>
    obtain ⟨aAddrs, m1⟩ := r1
    simp only
    obtain ⟨hwf1, hno1, hl1, _⟩ := allocStrings_spec s.mem hm hno "arg" 0 argv aAddrs m1 ha
    cases he : allocStrings m1 "env" 0 envp with
    | err => simp
    | panic => exact absurd he (allocStrings_np _ _ _ _)
    | ok r2 =>
      obtain ⟨eAddrs, m2⟩ := r2
      simp only
      obtain ⟨hwf2, hno2, hl2, _⟩ := allocStrings_spec m1 hwf1 hno1 "env" 0 envp eAddrs m2 he
      have hlay : ([argv.length] ++ aAddrs ++ [0] ++ eAddrs ++ [0]).length = argv.length + envp.length + 3 := by
        simp [hl1, hl2]; omega
      simp only [hlay]
      cases hu : u64add len ((argv.length + envp.length + 3) * 8 + 48) with
      | none => simp
      | some total =>
        simp only
        have htot : total = len + ((argv.length + envp.length + 3) * 8 + 48) := by
          unfold u64add at hu; split at hu <;> simp_all
        cases hs : initStackArea m2 total with
        | err => simp
        | panic => exact absurd hs (stackAreaFrom_np _ _ _ _)
        | ok r3 =>
          obtain ⟨st, m3⟩ := r3
          simp only
          obtain ⟨hwf3, hno3⟩ := Ax.C10.stackArea_preserves m2 hwf2 hno2 total st m3 hs
          obtain ⟨hst0, hstE, _⟩ := Ax.C10.stackAreaFrom_ok m2 total _ _ st m3 hs
          have hst63 : st < 2 ^ 63 := by simp only [SEARCH_END] at hstE; omega
          have hadd : u64add st total = some (st + total) := by
            unfold u64add
            have : st + total < U64 := by simp only [U64]; omega
            simp [this]
          simp only [hadd]
          -- the frame writer: the highest slot is far above 8·n
          have hmask := mask16 (st + total - 16) (by simp only [U64]; omega)
          have hfit : 8 * ([argv.length] ++ aAddrs ++ [0] ++ eAddrs ++ [0]).reverse.length ≤
              (if (argv.length + envp.length + 3) % 2 = 1
                then ((BitVec.ofNat 64 (st + total - 16)) &&& ~~~(0xf#64)).toNat - 8
                else ((BitVec.ofNat 64 (st + total - 16)) &&& ~~~(0xf#64)).toNat) := by
            rw [hmask, List.length_reverse, hlay]
            split <;> omega
          cases hw : writeLayout m3 ([argv.length] ++ aAddrs ++ [0] ++ eAddrs ++ [0]).reverse
              (if (argv.length + envp.length + 3) % 2 = 1
                then ((BitVec.ofNat 64 (st + total - 16)) &&& ~~~(0xf#64)).toNat - 8
                else ((BitVec.ofNat 64 (st + total - 16)) &&& ~~~(0xf#64)).toNat) with
          | err => simp
          | panic => exact absurd hw (writeLayout_np _ m3 hwf3 hno3 _ hfit)
          | ok r4 =>
            obtain ⟨top, m4⟩ := r4
            simp only
            obtain ⟨htop, _, _, _⟩ := writeLayout_spec m3 hwf3 hno3 _ _ top m4 hw
            simp only [List.length_reverse, hlay] at htop
            rw [hmask] at htop
            have : top % 16 = 0 := by
              split at htop <;> omega
            simp [this]

/-- `init_stack(length)` never crashes either (same bound on the length) -/
theorem initStack_never_panics (s : Machine) (len : Nat) (hlen : len < 2 ^ 63) : initStack s len ≠ .panic := by
  unfold initStack
  cases hs : initStackArea s.mem len with
  | err => simp
  | panic => exact absurd hs (stackAreaFrom_np _ _ _ _)
  | ok r =>
    obtain ⟨st, m⟩ := r
    simp only
    obtain ⟨hst0, hstE, _⟩ := Ax.C10.stackAreaFrom_ok s.mem len _ _ st m hs
    have hst63 : st < 2 ^ 63 := by simp only [SEARCH_END] at hstE; omega
    have hadd : u64add st len = some (st + len) := by
      unfold u64add
      have : st + len < U64 := by simp only [U64]; omega
      simp [this]
    simp only [hadd]
    have h8 : ¬ st + len < 8 := by omega
    simp only [h8, if_false]
    have hmask := mask16 (st + len - 8) (by simp only [U64]; omega)
    have hadd2 : u64add ((BitVec.ofNat 64 (st + len - 8)) &&& ~~~(0xf#64)).toNat 8 =
        some (((BitVec.ofNat 64 (st + len - 8)) &&& ~~~(0xf#64)).toNat + 8) := by
      unfold u64add
      rw [hmask]
      have : st + len - 8 - (st + len - 8) % 16 + 8 < U64 := by simp only [U64]; omega
      simp [this]
    rw [hadd2]
    simp

/-! ## what POP sees -/

/-- the bytes of the 8-byte slot at `a` are the little-endian bytes of `v` -/
def SlotHolds (m : Mem) (a v : Nat) : Prop := ∀ j, j < 8 → byteAt m (a + j) = (leBytes 8 v)[j]?

/-- **The frame is what was laid out**: after `writeLayout m vs top`, the k-th value sits in the slot at `top − 8k`
    (the first value highest), every value fits 64 bits, and no byte at or above `top + 8` was touched. -/
theorem writeLayout_contents (vs : List Nat) : ∀ (m : Mem) (hm : m.WF) (hno : NoOverlap m) (top top' : Nat) (m' : Mem),
    writeLayout m vs top = .ok (top', m') →
    8 * vs.length ≤ top ∧
    (∀ k (hk : k < vs.length), vs[k] < U64 ∧ SlotHolds m' (top - 8 * k) vs[k]) ∧
    (∀ x, top + 8 ≤ x → byteAt m' x = byteAt m x) := by
  induction vs with
  | nil =>
    intro m hm hno top top' m' h
    simp only [writeLayout, Out.ok.injEq, Prod.mk.injEq] at h
    obtain ⟨rfl, rfl⟩ := h
    exact ⟨by simp, fun k hk => by simp at hk, fun _ _ => rfl⟩
  | cons v vs ih =>
    intro m hm hno top top' m' h
    unfold writeLayout at h
    cases hw : memWriteN m 8 top v with
    | err => simp [hw] at h
    | panic => simp [hw] at h
    | ok m1 =>
      simp only [hw] at h
      split at h
      · cases h
      · rename_i hge
        have hv : v < U64 ∧ memWriteBytes m top (leBytes 8 v) = .ok m1 := by
          unfold memWriteN at hw
          split at hw
          · cases hw
          · exact ⟨by simp only [U64]; omega, hw⟩
        obtain ⟨hwf1, hno1⟩ := Ax.C08.write_preserves m hm hno top _ m1 hv.2
        obtain ⟨_, _, _, hb⟩ := Ax.C08.write_spec m hm hno top _ m1 hv.2
        rw [leBytes_length] at hb
        obtain ⟨hlen, hslots, hframe⟩ := ih m1 hwf1 hno1 (top - 8) top' m' h
        refine ⟨by simp only [List.length_cons]; omega, ?_, ?_⟩
        · intro k hk
          cases k with
          | zero =>
            refine ⟨hv.1, ?_⟩
            intro j hj
            simp only [Nat.mul_zero, Nat.sub_zero, List.getElem_cons_zero]
            rw [hframe (top + j) (by omega), hb (top + j)]
            have : top ≤ top + j ∧ top + j < top + 8 := by omega
            simp only [this, and_self, if_true]
            congr 1; omega
          | succ k =>
            simp only [List.length_cons, Nat.add_lt_add_iff_right] at hk
            have := hslots k hk
            simp only [List.getElem_cons_succ]
            refine ⟨this.1, ?_⟩
            have e : top - 8 * (k + 1) = top - 8 - 8 * k := by omega
            rw [e]; exact this.2
        · intro x hx
          rw [hframe x (by omega), hb x]
          have : ¬ (top ≤ x ∧ x < top + 8) := by omega
          simp only [this, if_false]

/-- **What POP sees.**  After `init_stack_program_start` the slots above RSP hold, in ascending order,
    argc, the argv pointers, 0, the envp pointers, 0 — where the pointers are exactly the addresses at which
    `allocStrings` placed the NUL-terminated copies (`allocStrings_spec`).  ax's POP loads from RSP + 8 and then adds 8
    to RSP, so successive POPs return the entries of `layout` one after the other. -/
theorem frame_contents (s : Machine) (hm : s.mem.WF) (hno : NoOverlap s.mem) (len : Nat) (argv envp : List (List Byte))
    (start : Nat) (s' : Machine) (h : initStackProgramStart s len argv envp = .ok (start, s')) :
    ∃ aAddrs eAddrs m1 m2,
      allocStrings s.mem "arg" 0 argv = .ok (aAddrs, m1) ∧ allocStrings m1 "env" 0 envp = .ok (eAddrs, m2) ∧
      ∀ k (hk : k < ([argv.length] ++ aAddrs ++ [0] ++ eAddrs ++ [0]).length),
        ([argv.length] ++ aAddrs ++ [0] ++ eAddrs ++ [0])[k] < U64 ∧
        SlotHolds s'.mem ((s'.regs.get RSP).toNat + 8 + 8 * k) ([argv.length] ++ aAddrs ++ [0] ++ eAddrs ++ [0])[k] := by
  unfold initStackProgramStart at h
  cases ha : allocStrings s.mem "arg" 0 argv with
  | err => simp [ha] at h
  | panic => simp [ha] at h
  | ok r1 =>
    obtain ⟨aAddrs, m1⟩ := r1
    simp only [ha] at h
    obtain ⟨hwf1, hno1, hl1, _⟩ := allocStrings_spec s.mem hm hno "arg" 0 argv aAddrs m1 ha
    cases he : allocStrings m1 "env" 0 envp with
    | err => simp [he] at h
    | panic => simp [he] at h
    | ok r2 =>
      obtain ⟨eAddrs, m2⟩ := r2
      simp only [he] at h
      obtain ⟨hwf2, hno2, hl2, _⟩ := allocStrings_spec m1 hwf1 hno1 "env" 0 envp eAddrs m2 he
      refine ⟨aAddrs, eAddrs, m1, m2, rfl, he, ?_⟩
      generalize hlay : [argv.length] ++ aAddrs ++ [0] ++ eAddrs ++ [0] = layout at h ⊢
      cases hu : u64add len (layout.length * 8 + 48) with
      | none => simp [hu] at h
      | some total =>
        simp only [hu] at h
        cases hs : initStackArea m2 total with
        | err => simp [hs] at h
        | panic => simp [hs] at h
        | ok r3 =>
          obtain ⟨st, m3⟩ := r3
          simp only [hs] at h
          obtain ⟨hwf3, hno3⟩ := Ax.C10.stackArea_preserves m2 hwf2 hno2 total st m3 hs
          cases hu2 : u64add st total with
          | none => simp [hu2] at h
          | some e =>
            simp only [hu2] at h
            split at h
            · cases h
            · cases h
            · rename_i top m4 hw
              split at h
              · cases h
              · simp only [Out.ok.injEq, Prod.mk.injEq] at h
                obtain ⟨rfl, rfl⟩ := h
                obtain ⟨htop, _, _, _⟩ := writeLayout_spec m3 hwf3 hno3 _ _ top m4 hw
                obtain ⟨hge, hslots, _⟩ := writeLayout_contents _ m3 hwf3 hno3 _ top m4 hw
                simp only [List.length_reverse] at htop hge hslots
                intro k hk
                have hk' : layout.length - 1 - k < layout.length := by omega
                have hs := (hslots (layout.length - 1 - k) hk').2
                have hlt := (hslots (layout.length - 1 - k) hk').1
                have hrev : layout.reverse[layout.length - 1 - k]'(by simpa using hk') = layout[k] := by
                  rw [List.getElem_reverse]
                  congr 1; omega
                rw [hrev] at hs hlt
                refine ⟨hlt, ?_⟩
                have htop64 : top < U64 := by
                  have := (hslots 0 (by omega)).1
                  -- top ≤ t1 < 2^64 because t1 is the value of a 64-bit vector (possibly minus 8)
                  have ht1 : (if layout.length % 2 = 1 then (BitVec.ofNat 64 (e - 16) &&& ~~~15#64).toNat - 8
                      else (BitVec.ofNat 64 (e - 16) &&& ~~~15#64).toNat) < U64 := by
                    have := (BitVec.ofNat 64 (e - 16) &&& ~~~15#64).isLt
                    simp only [U64]; split <;> omega
                  omega
                have hrsp : ((s.regs.set RSP (BitVec.ofNat 64 top)).get RSP).toNat = top := by
                  simp [Nat.mod_eq_of_lt htop64]
                simp only [hrsp]
                have eaddr : top + 8 + 8 * k =
                    (if layout.length % 2 = 1 then (BitVec.ofNat 64 (e - 16) &&& ~~~15#64).toNat - 8
                      else (BitVec.ofNat 64 (e - 16) &&& ~~~15#64).toNat) - 8 * (layout.length - 1 - k) := by
                  omega
                rw [eaddr]; exact hs

/-- a successful 8-byte load from a slot returns the value it holds -/
theorem slot_load (m : Mem) (hm : m.WF) (hno : NoOverlap m) (a v : Nat) (hv : v < U64) (hs : SlotHolds m a v)
    (v' : Nat) (hr : memReadN m 8 a = .ok v') : v' = v := by
  unfold memReadN at hr
  cases hrb : memReadBytes m a 8 with
  | panic => simp [hrb] at hr
  | err => simp [hrb] at hr
  | ok out =>
    simp only [hrb, Out.ok.injEq] at hr
    obtain ⟨hl, hbs⟩ := Ax.C08.read_bytes_eq m hm hno a 8 out hrb
    have : out = leBytes 8 v := by
      apply List.ext_getElem?
      intro j
      by_cases hj : j < 8
      · rw [hbs j hj, hs j hj]
      · have h1 : out[j]? = none := by rw [List.getElem?_eq_none]; omega
        have h2 : (leBytes 8 v)[j]? = none := by rw [List.getElem?_eq_none]; rw [leBytes_length]; omega
        rw [h1, h2]
    rw [← hr, this, leNat_leBytes]
    exact Nat.mod_eq_of_lt (by simpa [U64] using hv)

/-- **POP by POP**: with RSP as `init_stack_program_start` left it, the load that the k-th POP performs (ax loads from
    RSP + 8 and then adds 8) returns the k-th entry of argc, argv…, 0, envp…, 0 — whenever it succeeds, which the
    correspondence run observes for every entry. -/
theorem frame_pops (s : Machine) (hm : s.mem.WF) (hno : NoOverlap s.mem) (len : Nat) (argv envp : List (List Byte))
    (start : Nat) (s' : Machine) (h : initStackProgramStart s len argv envp = .ok (start, s')) :
    ∃ aAddrs eAddrs, aAddrs.length = argv.length ∧ eAddrs.length = envp.length ∧
      ∀ k (hk : k < ([argv.length] ++ aAddrs ++ [0] ++ eAddrs ++ [0]).length) (v' : Nat),
        memReadN s'.mem 8 ((s'.regs.get RSP).toNat + 8 + 8 * k) = .ok v' →
        v' = ([argv.length] ++ aAddrs ++ [0] ++ eAddrs ++ [0])[k] := by
  obtain ⟨aAddrs, eAddrs, m1, m2, ha, he, hslots⟩ := frame_contents s hm hno len argv envp start s' h
  obtain ⟨hwf1, hno1, hl1, _⟩ := allocStrings_spec s.mem hm hno "arg" 0 argv aAddrs m1 ha
  obtain ⟨_, _, hl2, _⟩ := allocStrings_spec m1 hwf1 hno1 "env" 0 envp eAddrs m2 he
  obtain ⟨hwf', hno', _⟩ := init_spec s hm hno len argv envp start s' h
  refine ⟨aAddrs, eAddrs, hl1, hl2, ?_⟩
  intro k hk v' hr
  obtain ⟨hfit, hsl⟩ := hslots k hk
  exact slot_load s'.mem hwf' hno' _ _ hfit hsl v' hr


/-! ## Non-vacuity -/
example : allocStrings [] "arg" 0 [] = .ok ([], []) := rfl
example : writeLayout [{ name := some "Stack", start := 0x1000, len := 16, data := zeros 16, access := 3 }] [5] 0x1008 =
    .ok (0x1000, [{ name := some "Stack", start := 0x1000, len := 16, data := zeros 8 ++ leBytes 8 5, access := 3 }]) := by
  decide
/-- the frame arithmetic on the parameters of the bundled-binary tests: 0x1000 bytes, 2 args, 2 envs -/
example : (let e := 0x1000 + (0x1000 + (7 * 8 + 48)); let t0 := e - 16 - (e - 16) % 16; (t0 - 8 - 8 * 7) % 16) = 0 := by decide

end Ax.C17
