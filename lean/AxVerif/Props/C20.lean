/-
  C20 — execution is a deterministic function of the explicit inputs.

  In the model this is true by construction in one direction — `step`, `execute`, the register
  and memory API and the loaders are *functions* of (machine, hooks, decoder answers); there is no
  hidden state, clock, address or RNG anywhere in the model, and the correspondence check shows the
  implementation computes these functions.  What needs proof is the other half of the statement:
  **the random values the constructor leaves in registers do not reach anything that is defined by
  the explicit inputs.**

  * `new_indep` — the constructed machine depends on the random register file only in the general
    purpose and XMM register contents (not RIP, flags, memory, trace, call stack, code end, …).
  * `AgreeOff U` — two register files that agree outside a set `U` of "never written" GPRs:
      - reads through any view whose parent is outside `U` return the same value (`read_agree`);
      - writes have the same outcome and keep the agreement (`write_agree`);
      - a 64- or 32-bit write makes its register defined: it leaves `U` (`write_full_defines`);
      - effective addresses over registers outside `U` are equal (`ea_agree`).
  * `full_write_erases` — after every GPR, RIP and every XMM register has been written explicitly,
    the register file is *equal* whatever the constructor had put there; by functionality of the
    model, so is everything that follows.
  The implementation side (process-level randomness, hash-map iteration order, error texts) is the
  business of the two-run differential of this check.
-/
import AxVerif.Model.Step
import AxVerif.Props.C05
import AxVerif.Props.C07
import AxVerif.Props.C01
namespace Ax.C20
open Ax

/-! ## the constructor -/

/-- replace the GPR and XMM contents -/
def withRegs (s : Machine) (g : Vector (BitVec 64) 16) (x : Vector (BitVec 128) 16) : Machine :=
  { s with regs := { s.regs with gpr := g, xmm := x } }

/-- **The constructor's randomness lives in GPR/XMM contents only.** -/
theorem new_indep (r1 r2 : Regs) (code : List Byte) (start rip : Nat) :
    (match Machine.new r1 code start rip with
     | .ok s => Out.ok (withRegs s r2.gpr r2.xmm) | .err => .err | .panic => .panic) =
    Machine.new r2 code start rip := by
  simp only [Machine.new]
  cases initArea ([] : Mem) start code none with
  | err => rfl
  | panic => rfl
  | ok m =>
    simp only
    cases memProt m start (PROT_READ ||| PROT_EXEC) with
    | err => rfl
    | panic => rfl
    | ok m' => rfl

/-! ## registers that were never written -/

/-- the two register files agree everywhere except possibly on the GPRs in `U` -/
def AgreeOff (U : Fin 16 → Prop) (a b : Regs) : Prop :=
  a.rip = b.rip ∧ a.xmm = b.xmm ∧ ∀ j, ¬ U j → a.get j = b.get j

/-- parent GPR of a register name, if it is a GPR view -/
def parentOf : Reg → Option (Fin 16)
  | .g64 i | .g32 i | .g16 i | .g8 i => some i
  | .h8 i => some (hiParent i)
  | _ => none

/-- **Reads see only their own register.** -/
theorem read_agree (U : Fin 16 → Prop) (a b : Regs) (h : AgreeOff U a b) (w : Nat) (r : Reg)
    (hr : ∀ p, parentOf r = some p → ¬ U p) : regReadW a w r = regReadW b w r := by
  obtain ⟨hrip, _, hg⟩ := h
  unfold regReadW
  split <;> try rfl
  all_goals
    simp only [regRead8, regRead16, regRead32, regRead64]
    cases r <;> simp only [parentOf] at hr <;> try rfl
  all_goals first
    | (rename_i i; simp only [hg i (hr i rfl)])
    | (rename_i i; simp only [hg (hiParent i) (hr _ rfl)])
    | simp only [hrip]

/-- **Writes have the same outcome on both sides and preserve the agreement.** -/
theorem write_agree (U : Fin 16 → Prop) (a b : Regs) (h : AgreeOff U a b) (w : Nat) (r : Reg) (v : BitVec 64) :
    (match regWriteW a w r v, regWriteW b w r v with
     | .ok a', .ok b' => AgreeOff U a' b'
     | .err, .err => True
     | _, _ => False) := by
  obtain ⟨hrip, hx, hg⟩ := h
  have key : ∀ (i : Fin 16) (fa fb : BitVec 64), (¬ U i → fa = fb) → AgreeOff U (a.set i fa) (b.set i fb) := by
    intro i fa fb hf
    refine ⟨by simpa using hrip, by simpa using hx, ?_⟩
    intro j hj
    by_cases hij : i = j
    · subst hij; simp [hf hj]
    · simp [Regs.get_set_ne _ _ _ _ hij, hg j hj]
  have hw : w = 8 ∨ w = 16 ∨ w = 32 ∨ w = 64 ∨ (w ≠ 8 ∧ w ≠ 16 ∧ w ≠ 32 ∧ w ≠ 64) := by omega
  rcases hw with rfl | rfl | rfl | rfl | hne
  · simp only [regWriteW, regWrite8]
    by_cases hv : 0xFF < v.toNat
    · simp [hv]
    · simp only [hv, if_false]
      cases r <;> simp only [] <;> try trivial
      · rename_i i; exact key i _ _ (fun hi => by rw [hg i hi])
      · rename_i i; exact key (hiParent i) _ _ (fun hi => by rw [hg _ hi])
  · simp only [regWriteW, regWrite16]
    by_cases hv : 0xFFFF < v.toNat
    · simp [hv]
    · simp only [hv, if_false]
      cases r <;> simp only [] <;> try trivial
      rename_i i; exact key i _ _ (fun hi => by rw [hg i hi])
  · simp only [regWriteW, regWrite32]
    by_cases hv : 0xFFFFFFFF < v.toNat
    · simp [hv]
    · simp only [hv, if_false]
      cases r <;> simp only [] <;> try trivial
      rename_i i; exact key i _ _ (fun _ => rfl)
  · simp only [regWriteW, regWrite64]
    cases r <;> simp only [] <;> try trivial
    all_goals first
      | exact ⟨rfl, hx, hg⟩
      | (rename_i i; exact key i _ _ (fun _ => rfl))
  · have e : ∀ x : Regs, regWriteW x w r v = .err := by
      intro x; unfold regWriteW; split <;> first | omega | rfl
    simp only [e]

/-- **A 64- or 32-bit write defines its register**: afterwards the files agree on it even if they
    did not before. -/
theorem write_full_defines (U : Fin 16 → Prop) (a b : Regs) (h : AgreeOff U a b) (i : Fin 16) (v : BitVec 64) :
    AgreeOff (fun j => U j ∧ j ≠ i) (a.set i v) (b.set i v) ∧
    AgreeOff (fun j => U j ∧ j ≠ i) (a.set i ((v.setWidth 32).setWidth 64)) (b.set i ((v.setWidth 32).setWidth 64)) := by
  obtain ⟨hrip, hx, hg⟩ := h
  have key : ∀ x : BitVec 64, AgreeOff (fun j => U j ∧ j ≠ i) (a.set i x) (b.set i x) := by
    intro x
    refine ⟨by simpa using hrip, by simpa using hx, ?_⟩
    intro j hj
    by_cases hij : i = j
    · subst hij; simp
    · have : ¬ U j := fun hu => hj ⟨hu, fun e => hij e.symm⟩
      simp [Regs.get_set_ne _ _ _ _ hij, hg j this]
  exact ⟨key _, key _⟩

/-- effective addresses over defined registers are equal -/
theorem ea_agree (U : Fin 16 → Prop) (a b : Regs) (h : AgreeOff U a b) (m : MemOperand)
    (hb : ∀ r p, m.base = some r → parentOf r = some p → ¬ U p)
    (hi : ∀ r p, m.index = some r → parentOf r = some p → ¬ U p) :
    effectiveAddr a m = effectiveAddr b m := by
  obtain ⟨hrip, _, hg⟩ := h
  have key : ∀ r, (∀ p, parentOf r = some p → ¬ U p) → addrRegister a r = addrRegister b r := by
    intro r hr
    cases r <;> simp only [addrRegister, parentOf] at hr ⊢
    · rw [hrip]
    · rename_i i; rw [hg i (hr i rfl)]
    · rename_i i; rw [hg i (hr i rfl)]
  exact C05.ea_reads_only a b m (fun r hbr => key r (fun p hp => hb r p hbr hp)) (fun r hir => key r (fun p hp => hi r p hir hp))

/-! ## writing everything makes the machines equal -/

def writeAllGpr (rs : Regs) (vals : Fin 16 → BitVec 64) : Regs :=
  (List.finRange 16).foldl (fun acc i => acc.set i (vals i)) rs

theorem writeAllGpr_spec (rs : Regs) (vals : Fin 16 → BitVec 64) :
    (writeAllGpr rs vals).rip = rs.rip ∧ (writeAllGpr rs vals).xmm = rs.xmm ∧
    ∀ j, (writeAllGpr rs vals).get j = vals j := by
  unfold writeAllGpr
  have gen : ∀ (l : List (Fin 16)) (acc : Regs),
      (l.foldl (fun acc i => acc.set i (vals i)) acc).rip = acc.rip ∧
      (l.foldl (fun acc i => acc.set i (vals i)) acc).xmm = acc.xmm ∧
      ∀ j, (l.foldl (fun acc i => acc.set i (vals i)) acc).get j = if j ∈ l then vals j else acc.get j := by
    intro l
    induction l with
    | nil => intro acc; simp
    | cons i rest ih =>
      intro acc
      obtain ⟨h1, h2, h3⟩ := ih (acc.set i (vals i))
      refine ⟨by simpa using h1, by simpa using h2, ?_⟩
      intro j
      simp only [List.foldl_cons, h3 j, List.mem_cons]
      by_cases hjr : j ∈ rest
      · simp [hjr]
      · by_cases hji : j = i
        · subst hji; simp [hjr]
        · simp [hjr, hji, Regs.get_set_ne _ _ _ _ (Ne.symm hji)]
  obtain ⟨h1, h2, h3⟩ := gen (List.finRange 16) rs
  refine ⟨h1, h2, fun j => ?_⟩
  rw [h3 j]
  simp [List.mem_finRange]

/-- **After all registers have been written explicitly, nothing of the constructor's randomness is left.** -/
theorem full_write_erases (r1 r2 : Regs) (vals : Fin 16 → BitVec 64) (rip : BitVec 64) (xs : Vector (BitVec 128) 16) :
    ({ writeAllGpr r1 vals with rip := rip, xmm := xs } : Regs) = { writeAllGpr r2 vals with rip := rip, xmm := xs } := by
  have h1 := (writeAllGpr_spec r1 vals).2.2
  have h2 := (writeAllGpr_spec r2 vals).2.2
  have : (writeAllGpr r1 vals).gpr = (writeAllGpr r2 vals).gpr := by
    apply Vector.ext
    intro i hi
    have a := h1 ⟨i, hi⟩
    have b := h2 ⟨i, hi⟩
    simp only [Regs.get] at a b
    simpa using a.trans b.symm
  simp [this]

/-- each step of `writeAllGpr` is the public `reg_write_64` -/
theorem set_is_api (rs : Regs) (i : Fin 16) (v : BitVec 64) : regWriteW rs 64 (.g64 i) v = .ok (rs.set i v) := rfl

/-- and the model is a function: equal machines, hooks and decoder answers give equal steps -/
theorem step_function (hooks : HookTable) (decode) (s1 s2 : Machine) (h : s1 = s2) :
    step hooks decode s1 = step hooks decode s2 := by rw [h]

/-! ## handler level: the 64-bit register forms of the `r/m, r` family do not look at unwritten registers -/

/-- **Non-interference through the dispatch** for every table row of the `r/m64, r64` family (ADD, ADC, SUB, CMP, AND,
    XOR, MOV) on register operands: two machines that differ only in registers never written (`U`), executing the same
    instruction whose two operands are written registers, have the same outcome; after success their flags are equal and
    their register files still agree outside `U` — nothing of the constructor's randomness reaches the result. -/
theorem rmR64_noninterference (hh : HasHooks) (i : Instr) (s1 s2 : Machine) (d sr : Fin 16) (op : Op2) (set clear : BitVec 64)
    (hrow : lookup i.code = some (.rmR 64 64 op set clear))
    (hops : instructionOperands2 i = .ok (.register (.g64 d), .register (.g64 sr)))
    (U : Fin 16 → Prop) (hA : AgreeOff U s1.regs s2.regs) (hd : ¬ U d) (hs : ¬ U sr) (hfl : s1.rflags = s2.rflags) :
    (match exec hh i s1, exec hh i s2 with
     | .ok a, .ok b => AgreeOff U a.regs b.regs ∧ a.rflags = b.rflags
     | .err, .err => True
     | .panic, .panic => True
     | _, _ => False) := by
  obtain ⟨hrip, hx, hg⟩ := hA
  rw [C01.exec_rmR64_regs hh i s1 d sr op set clear hrow hops, C01.exec_rmR64_regs hh i s2 d sr op set clear hrow hops]
  rw [hg d hd, hg sr hs, hfl]
  cases setFlags (set ||| (applyOp2 op (s2.rflags &&& FLAG_CF != 0) 64 64 (s2.regs.get d) (s2.regs.get sr)).2) clear
      ((applyOp2 op (s2.rflags &&& FLAG_CF != 0) 64 64 (s2.regs.get d) (s2.regs.get sr)).1.setWidth 64) s2.rflags with
  | err => trivial
  | panic => trivial
  | ok f =>
    by_cases hnw : (set &&& NO_WRITEBACK == 0) = true
    · simp only [hnw, if_true, and_true]
      refine ⟨by simpa using hrip, by simpa using hx, ?_⟩
      intro j hj
      by_cases hdj : d = j
      · subst hdj; simp
      · simp [Regs.get_set_ne _ _ _ _ hdj, hg j hj]
    · simp only [hnw, if_false, Bool.false_eq_true, and_true]
      exact ⟨hrip, hx, hg⟩

/-- the same for the mirror family `op r64, r/m64` (also MOV r64, r/m64 and CMOVcc) on register operands -/
theorem rRm64_noninterference (hh : HasHooks) (i : Instr) (s1 s2 : Machine) (d sr : Fin 16) (df : Bool) (op : Op2) (set clear : BitVec 64)
    (hrow : lookup i.code = some (.rRm 64 64 df op set clear))
    (hops : instructionOperands2 i = .ok (.register (.g64 d), .register (.g64 sr)))
    (U : Fin 16 → Prop) (hA : AgreeOff U s1.regs s2.regs) (hd : ¬ U d) (hs : ¬ U sr) (hfl : s1.rflags = s2.rflags) :
    (match exec hh i s1, exec hh i s2 with
     | .ok a, .ok b => AgreeOff U a.regs b.regs ∧ a.rflags = b.rflags
     | .err, .err => True
     | .panic, .panic => True
     | _, _ => False) := by
  obtain ⟨hrip, hx, hg⟩ := hA
  rw [C01.exec_rRm64_regs hh i s1 d sr df op set clear hrow hops, C01.exec_rRm64_regs hh i s2 d sr df op set clear hrow hops]
  rw [hg d hd, hg sr hs, hfl]
  cases setFlags (set ||| (applyOp2 op (s2.rflags &&& FLAG_CF != 0) 64 64 (s2.regs.get d) (s2.regs.get sr)).2) clear
      ((applyOp2 op (s2.rflags &&& FLAG_CF != 0) 64 64 (s2.regs.get d) (s2.regs.get sr)).1.setWidth 64) s2.rflags with
  | err => trivial
  | panic => trivial
  | ok f =>
    by_cases hnw : (set &&& NO_WRITEBACK == 0) = true
    · simp only [hnw, if_true, and_true]
      refine ⟨by simpa using hrip, by simpa using hx, ?_⟩
      intro j hj
      by_cases hdj : d = j
      · subst hdj; simp
      · simp [Regs.get_set_ne _ _ _ _ hdj, hg j hj]
    · simp only [hnw, if_false, Bool.false_eq_true, and_true]
      exact ⟨hrip, hx, hg⟩

/-! ## Non-vacuity -/
example : AgreeOff (fun j => j = 3) (Regs.zero.set 3 5#64) (Regs.zero.set 3 9#64) := by
  refine ⟨rfl, rfl, ?_⟩
  intro j hj
  simp [Regs.get_set_ne _ _ _ _ (Ne.symm hj)]

end Ax.C20
