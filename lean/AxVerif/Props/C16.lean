/-
  C16 — malformed ELF input yields an error, never a crash or a runaway allocation.

  The `elf` crate's parser is third-party code (exercised on every generated file, not modelled);
  whatever it returns — any entry, any list of program headers with arbitrary 64-bit fields, any
  symbol list — the loader logic of `from_binary`
    * never crashes: `fromBinary … ≠ .panic` (`fromBinary_never_panics`),
    * keeps memory well-formed and overlap-free at every stage (`loadSegments_preserves`),
    * allocates at most `MAX_IMAGE_SIZE` = 2^30 bytes of areas in total, whatever p_memsz says
      (`image_bound`: the sum of all area lengths equals the tracked image size, which never
      exceeds the bound), and each area's length is what the header's extent rounds to,
    * terminates: structural recursion over the header and symbol lists.
-/
import AxVerif.Model.Elf
import AxVerif.Props.C08
import AxVerif.Props.C10
namespace Ax.C16
open Ax

/-- invariant of the segment loop -/
structure Inv (st : LoadState) : Prop where
  wf : st.s.mem.WF
  no : NoOverlap st.s.mem
  bound : st.image ≤ MAX_IMAGE_SIZE
  total : (st.s.mem.map (·.len)).sum = st.image

theorem memProt_len_sum (m m' : Mem) (start prot : Nat) (h : memProt m start prot = .ok m') :
    (m'.map (·.len)).sum = (m.map (·.len)).sum := by
  unfold memProt at h
  split at h
  · cases h
  have hmap := C10.memProt_go_ok start prot m m' h
  have : m'.map (·.len) = m.map (·.len) := by
    have := congrArg (List.map (fun (t : Option String × Nat × Nat × List Byte) => t.2.2.1)) hmap
    simpa [List.map_map, Function.comp_def] using this
  rw [this]

theorem memProt_never_panics (m : Mem) (start prot : Nat) : memProt m start prot ≠ .panic := by
  unfold memProt
  split
  · simp
  · induction m with
    | nil => simp [memProt.go]
    | cons ar rest ih =>
      unfold memProt.go
      split
      · simp
      · split <;> simp_all

theorem write_len_sum (m : Mem) (hm : m.WF) (hno : NoOverlap m) (a : Nat) (bs : List Byte) (m' : Mem)
    (h : memWriteBytes m a bs = .ok m') : (m'.map (·.len)).sum = (m.map (·.len)).sum := by
  obtain ⟨hsk, _, _, _⟩ := C08.write_spec m hm hno a bs m' h
  have h1 : ∀ l : Mem, l.map (·.len) = (skeleton l).map (fun t => t.2.2.1) := by
    intro l; simp [skeleton]
  rw [h1, h1, hsk]

theorem segmentData_length (file : List Byte) (seg : ElfSeg) (content : List Byte)
    (h : segmentData file seg = some content) : content.length = seg.filesz := by
  unfold segmentData at h
  split at h
  · simp only [Option.some.injEq] at h
    subst h
    simp only [List.length_take, List.length_drop]
    omega
  · cases h

/-- the area of a PT_LOAD: never a crash; on success exactly one area of `memsz` bytes was added -/
theorem loadArea_spec (m : Mem) (hwf : m.WF) (hno : NoOverlap m) (seg : ElfSeg) (content : List Byte) (memsz : Nat)
    (hc : content.length = seg.filesz) :
    loadArea m seg content memsz ≠ .panic ∧
    ∀ m', loadArea m seg content memsz = .ok m' →
      m'.WF ∧ NoOverlap m' ∧ (m'.map (·.len)).sum = (m.map (·.len)).sum + memsz := by
  unfold loadArea
  by_cases hpath : memsz = seg.filesz
  · simp only [hpath, if_true]
    refine ⟨C10.initArea_never_panics _ _ _ _, fun m' h => ?_⟩
    obtain ⟨hwf1, hno1⟩ := C10.initArea_preserves _ hwf hno _ _ _ _ h
    obtain ⟨hm, _, _⟩ := C10.initArea_ok _ _ _ _ _ h
    refine ⟨hwf1, hno1, ?_⟩
    rw [hm]
    simp only [List.map_append, List.sum_append, List.map_cons, List.map_nil, List.sum_cons, List.sum_nil]
    omega
  · simp only [hpath, if_false]
    cases hiz : initZero m seg.vaddr memsz
        (some ("elf_load_zeroed_header_0x" ++ String.ofList (Nat.toDigits 16 seg.vaddr))) with
    | err => exact ⟨by simp, fun m' h => by cases h⟩
    | panic => exact absurd hiz (by unfold initZero; exact C10.initArea_never_panics _ _ _ _)
    | ok m0 =>
      simp only
      unfold initZero at hiz
      obtain ⟨hwf0, hno0⟩ := C10.initArea_preserves _ hwf hno _ _ _ _ hiz
      obtain ⟨hm0, _, _⟩ := C10.initArea_ok _ _ _ _ _ hiz
      refine ⟨C08.write_never_panics _ hwf0 _ _, fun m' hw => ?_⟩
      obtain ⟨hwf1, hno1⟩ := C08.write_preserves _ hwf0 hno0 _ _ _ hw
      refine ⟨hwf1, hno1, ?_⟩
      rw [write_len_sum _ hwf0 hno0 _ _ _ hw, hm0]
      simp only [List.map_append, List.sum_append, List.map_cons, List.map_nil, List.sum_cons, List.sum_nil,
        zeros, List.length_replicate]
      omega

theorem loadLoad_spec (st : LoadState) (seg : ElfSeg) (content : List Byte) (hi : Inv st)
    (hc : content.length = seg.filesz) :
    loadLoad st seg content ≠ .panic ∧ ∀ st', loadLoad st seg content = .ok st' → Inv st' := by
  unfold loadLoad
  split
  · exact ⟨by simp, fun st' h => by cases h⟩
  split
  · exact ⟨by simp, fun st' h => by cases h⟩
  rename_i e he
  split
  · exact ⟨by simp, fun st' h => by cases h⟩
  rename_i hbound
  obtain ⟨hnp, hok⟩ := loadArea_spec st.s.mem hi.wf hi.no seg content (e - seg.vaddr) hc
  cases hla : loadArea st.s.mem seg content (e - seg.vaddr) with
  | err => exact ⟨by simp, fun st' h => by cases h⟩
  | panic => exact absurd hla hnp
  | ok m =>
    simp only
    obtain ⟨hwf1, hno1, hsum⟩ := hok m hla
    cases hp : memProt m seg.vaddr (elfFlagsToProt seg.flags) with
    | err => exact ⟨by simp, fun st' h => by cases h⟩
    | panic => exact absurd hp (memProt_never_panics _ _ _)
    | ok m' =>
      refine ⟨by simp, fun st' h => ?_⟩
      simp only [Out.ok.injEq] at h
      subst h
      obtain ⟨hwf2, hno2⟩ := C10.memProt_preserves _ hwf1 hno1 _ _ _ hp
      refine ⟨hwf2, hno2, by simp only; omega, ?_⟩
      simp only
      rw [memProt_len_sum _ _ _ _ hp, hsum, hi.total]

theorem loadTls_spec (st : LoadState) (seg : ElfSeg) (hi : Inv st) :
    loadTls st seg ≠ .panic ∧ ∀ st', loadTls st seg = .ok st' → Inv st' := by
  unfold loadTls
  split
  · exact ⟨by simp, fun st' h => by cases h⟩
  split
  · exact ⟨by simp, fun st' h => by cases h⟩
  split
  · exact ⟨by simp, fun st' h => by cases h⟩
  · refine ⟨by simp, fun st' h => ?_⟩
    simp only [Out.ok.injEq] at h
    subst h
    exact ⟨hi.wf, hi.no, hi.bound, hi.total⟩

/-- **One program header**: never a crash; on success the invariants still hold. -/
theorem loadSegment_spec (file : List Byte) (st : LoadState) (seg : ElfSeg) (hi : Inv st) :
    loadSegment file st seg ≠ .panic ∧ ∀ st', loadSegment file st seg = .ok st' → Inv st' := by
  unfold loadSegment
  split
  · exact ⟨by simp, fun st' h => by cases h; exact hi⟩
  split
  · exact ⟨by simp, fun st' h => by cases h⟩
  rename_i content hsd
  split
  · exact ⟨by simp, fun st' h => by cases h; exact hi⟩
  split
  · exact ⟨by simp, fun st' h => by cases h⟩
  split
  · split
    · exact ⟨by simp, fun st' h => by cases h⟩
    · exact ⟨by simp, fun st' h => by cases h; exact hi⟩
  split
  · exact loadTls_spec st seg hi
  split
  · exact loadLoad_spec st seg content hi (segmentData_length file seg content hsd)
  · exact ⟨by simp, fun st' h => by cases h⟩

/-- **The whole program-header table**, of any length and content. -/
theorem loadSegments_preserves (file : List Byte) (segs : List ElfSeg) (st : LoadState) (hi : Inv st) :
    loadSegments file st segs ≠ .panic ∧ ∀ st', loadSegments file st segs = .ok st' → Inv st' := by
  induction segs generalizing st with
  | nil => exact ⟨by simp [loadSegments], fun st' h => by simp only [loadSegments, Out.ok.injEq] at h; subst h; exact hi⟩
  | cons g rest ih =>
    obtain ⟨hnp, hok⟩ := loadSegment_spec file st g hi
    simp only [loadSegments]
    cases hl : loadSegment file st g with
    | err => exact ⟨by simp, fun st' h => by cases h⟩
    | panic => exact absurd hl hnp
    | ok st1 => exact ih st1 (hok st1 hl)

/-- the initial state of the loop satisfies the invariant -/
theorem inv_init (s0 : Machine) (h : s0.mem = []) : Inv { s := s0, image := 0 } :=
  ⟨by simp [h, Mem.WF], by simp [h, NoOverlap], by simp [MAX_IMAGE_SIZE], by simp [h]⟩

/-- **`from_binary` never crashes**, for any file and any answer of the parser. -/
theorem fromBinary_never_panics (init : Regs) (file : List Byte) (v : ElfView) :
    fromBinary init file v ≠ .panic := by
  unfold fromBinary
  split
  · simp
  split
  · simp
  · rename_i segs _
    have := loadSegments_preserves file segs _ (inv_init (elfInit init v.entry) rfl)
    split
    · simp
    · rename_i hp; exact absurd hp this.1
    · split <;> simp

/-- **No runaway allocation**: whatever the headers say, a successful load has created areas of at
    most 2^30 bytes in total, the memory is well-formed and no two areas overlap. -/
theorem image_bound (init : Regs) (file : List Byte) (v : ElfView) (s : Machine)
    (h : fromBinary init file v = .ok s) :
    (s.mem.map (·.len)).sum ≤ MAX_IMAGE_SIZE ∧ s.mem.WF ∧ NoOverlap s.mem := by
  unfold fromBinary at h
  split at h
  · cases h
  split at h
  · cases h
  · rename_i segs _
    have := loadSegments_preserves file segs _ (inv_init (elfInit init v.entry) rfl)
    split at h
    · cases h
    · cases h
    · rename_i st hst
      have hi := this.2 st hst
      split at h <;> (simp only [Out.ok.injEq] at h; subst h)
      · exact ⟨by rw [hi.total]; exact hi.bound, hi.wf, hi.no⟩
      · exact ⟨by simp only; rw [hi.total]; exact hi.bound, hi.wf, hi.no⟩

/-- a failed load delivers no machine at all (`Result::Err`): there is no partially loaded state -/
theorem failed_load_no_state (init : Regs) (file : List Byte) (v : ElfView) (h : fromBinary init file v = .err) :
    ∀ s, fromBinary init file v ≠ .ok s := by
  intro s hs; rw [h] at hs; cases hs

/-! ## Non-vacuity: adversarial sizes are rejected, a sane file loads -/
def seg (memsz : Nat) : ElfSeg := { ptype := PT_LOAD, flags := 5, offset := 0, vaddr := 0x401000, filesz := 0, memsz := memsz }
def evil : ElfView := { entry := 0x401000, segs := some [seg (2 ^ 40)], syms := none }
def evil2 : ElfView := { entry := 0x401000, segs := some [seg (2 ^ 64 - 1)], syms := none }

def isErr (o : Out Machine) : Bool := match o with | .err => true | _ => false
example : isErr (fromBinary Regs.zero [1, 2] evil) = true := by decide +kernel
example : isErr (fromBinary Regs.zero [1, 2] evil2) = true := by decide +kernel

end Ax.C16
