/-
  C03 — branches, calls and returns transfer control exactly as the architecture says.

  (1) The sixteen condition predicates, composed with the flags the model computes for
      `CMP d, s`, decide exactly the architectural comparison (unsigned above/below, signed
      greater/less, equality, sign, overflow, parity) — for all operands at all four widths and
      all incoming flag words.  This ties the predicates to their *meaning*, not to a bit table.
  (2) RIP after every branch form: taken → target, not taken → unchanged (the step has already
      advanced RIP to `next_ip`); JRCXZ/JECXZ test RCX resp. its low 32 bits; indirect forms use
      the full 64-bit operand; CALL/RET targets.
-/
import AxVerif.Lemmas.Frame
import AxVerif.Props.C02
import AxVerif.Props.C01
namespace Ax.C03
open Ax Ax.C02

/-- the flag word after `CMP d, s` as the model computes it (`calculate_*` + `set_flags!`) -/
def cmpFlags {w : Nat} (d s : BitVec w) (rflags : BitVec 64) : Out (BitVec 64) :=
  setFlags (NO_WRITEBACK ||| SZP ||| (opSub d s).2) CO (opSub d s).1 rflags

section
variable (w : Nat)

/-- **Conditions mean what the mnemonics say.**  After `CMP d, s`:
    JA ⇔ d >ᵤ s, JAE ⇔ d ≥ᵤ s, JB ⇔ d <ᵤ s, JBE ⇔ d ≤ᵤ s, JE ⇔ d = s, JNE ⇔ d ≠ s,
    JG ⇔ d >ₛ s, JGE ⇔ d ≥ₛ s, JL ⇔ d <ₛ s, JLE ⇔ d ≤ₛ s,
    JS ⇔ (d − s) negative, JO ⇔ signed overflow of d − s. -/
def CmpJccSpec : Prop := ∀ (d s : BitVec w) (rflags : BitVec 64),
  ∃ f, cmpFlags d s rflags = .ok f ∧
    cond "Ja" f = some (BitVec.ult s d) ∧ cond "Jae" f = some (BitVec.ule s d) ∧
    cond "Jb" f = some (BitVec.ult d s) ∧ cond "Jbe" f = some (BitVec.ule d s) ∧
    cond "Je" f = some (d == s) ∧ cond "Jne" f = some (d != s) ∧
    cond "Jg" f = some (BitVec.slt s d) ∧ cond "Jge" f = some (BitVec.sle s d) ∧
    cond "Jl" f = some (BitVec.slt d s) ∧ cond "Jle" f = some (BitVec.sle d s) ∧
    cond "Js" f = some (d - s).msb ∧ cond "Jns" f = some (!(d - s).msb) ∧
    cond "Jo" f = some (BitVec.ssubOverflow d s) ∧ cond "Jno" f = some (!BitVec.ssubOverflow d s)
end

/-- the CMP masks are `aluSet true` of the operation's flags -/
theorem cmp_set_eq {w : Nat} (d s : BitVec w) :
    NO_WRITEBACK ||| SZP ||| (opSub d s).2 = aluSet true (opSub d s).2 := by
  have : (opSub d s).2 &&& CO = (opSub d s).2 := by
    simp only [opSub, flagIf, CO, FLAG_CF, FLAG_OF]
    generalize ((d ^^^ s) &&& (d ^^^ (d - s))).msb = a
    generalize (!((d.setWidth (w + 1) ||| 1#(w + 1) <<< w) - s.setWidth (w + 1)).getLsbD w) = b
    cases a <;> cases b <;> decide
  simp [aluSet, this]

/-- the conditions as boolean functions of the five status flags -/
theorem cond_as_bools (f : BitVec 64) :
    cond "Ja" f = some (!has f FLAG_CF && !has f FLAG_ZF) ∧ cond "Jae" f = some (!has f FLAG_CF) ∧
    cond "Jb" f = some (has f FLAG_CF) ∧ cond "Jbe" f = some (has f FLAG_CF || has f FLAG_ZF) ∧
    cond "Je" f = some (has f FLAG_ZF) ∧ cond "Jne" f = some (!has f FLAG_ZF) ∧
    cond "Jg" f = some (!has f FLAG_ZF && (has f FLAG_SF == has f FLAG_OF)) ∧
    cond "Jge" f = some (has f FLAG_SF == has f FLAG_OF) ∧
    cond "Jl" f = some (has f FLAG_SF != has f FLAG_OF) ∧
    cond "Jle" f = some (has f FLAG_ZF || (has f FLAG_SF != has f FLAG_OF)) ∧
    cond "Js" f = some (has f FLAG_SF) ∧ cond "Jns" f = some (!has f FLAG_SF) ∧
    cond "Jo" f = some (has f FLAG_OF) ∧ cond "Jno" f = some (!has f FLAG_OF) := by
  simp [cond, flagSet, has]

macro "cmpjcc_tac" sub:ident : tactic => `(tactic|
  (intro d s rflags
   obtain ⟨f, hf, hz, hs, _, hc, ho, _⟩ := setFlags_alu true (opSub d s).2 (opSub d s).1 rflags
   refine ⟨f, by rw [cmpFlags, cmp_set_eq]; exact hf, ?_⟩
   obtain ⟨hr, hcf, hof, _⟩ := $sub d s
   rw [hcf] at hc
   rw [hof] at ho
   rw [hr] at hz hs
   obtain ⟨c1, c2, c3, c4, c5, c6, c7, c8, c9, c10, c11, c12, c13, c14⟩ := cond_as_bools f
   rw [c1, c2, c3, c4, c5, c6, c7, c8, c9, c10, c11, c12, c13, c14, hz, hs, hc, ho]
   simp only [Option.some.injEq]
   refine ⟨?_, ?_, ?_, ?_, ?_, ?_, ?_, ?_, ?_, ?_, ?_, ?_, ?_, ?_⟩ <;> bv_decide))

theorem cmp_jcc_8 : CmpJccSpec 8 := by unfold CmpJccSpec; cmpjcc_tac sub_spec_8
theorem cmp_jcc_16 : CmpJccSpec 16 := by unfold CmpJccSpec; cmpjcc_tac sub_spec_16
theorem cmp_jcc_32 : CmpJccSpec 32 := by unfold CmpJccSpec; cmpjcc_tac sub_spec_32
theorem cmp_jcc_64 : CmpJccSpec 64 := by unfold CmpJccSpec; cmpjcc_tac sub_spec_64

/-- the remaining two predicates read PF -/
theorem parity_conds (f : BitVec 64) :
    cond "Jp" f = some (has f FLAG_PF) ∧ cond "Jnp" f = some (!has f FLAG_PF) := by
  simp [cond, flagSet, has]

/-- every condition depends on CF, PF, ZF, SF, OF only -/
theorem cond_reads_status_only (cc : String) (f g : BitVec 64) (h : f &&& 0x8c5#64 = g &&& 0x8c5#64) :
    cond cc f = cond cc g := by
  have hb : ∀ m : BitVec 64, m &&& ~~~0x8c5#64 = 0 → flagSet f m = flagSet g m := by
    intro m hm
    simp only [flagSet]
    have : f &&& m = g &&& m := by bv_decide
    rw [this]
  have hcf := hb FLAG_CF (by decide)
  have hpf := hb FLAG_PF (by decide)
  have hzf := hb FLAG_ZF (by decide)
  have hsf := hb FLAG_SF (by decide)
  have hof := hb FLAG_OF (by decide)
  unfold cond
  split <;> simp only [hcf, hpf, hzf, hsf, hof]

/-! ## RIP after branches -/

/-- **Conditional jump**: taken exactly under its condition, to `near_branch64`; otherwise the
    machine — RIP = next_ip included — is unchanged. -/
theorem jcc_rip (hh : HasHooks) (i : Instr) (s s' : Machine) (cc : String) (c : Bool)
    (hl : lookup i.code = some (.jcc cc)) (hc : cond cc s.rflags = some c) (h : exec hh i s = .ok s') :
    (c = true → s'.regs.rip = i.nearBranch ∧ s'.regs.gpr = s.regs.gpr ∧ s'.rflags = s.rflags ∧ s'.mem = s.mem) ∧
    (c = false → s' = s) := by
  cases c with
  | false =>
    simp only [exec, hl, hc] at h
    simp only [ExecRes.ok.injEq] at h
    exact ⟨by simp, fun _ => h.symm⟩
  | true =>
    simp only [exec, hl, hc] at h
    refine ⟨fun _ => ?_, by simp⟩
    have h' := ofOut_ok h
    unfold takeBranch at h'
    split at h'
    · split at h'
      · rename_i s1 h1
        simp only [Out.ok.injEq] at h'
        subst h'
        have := addTrace_same h1
        simp [setRip, this.2.1, this.2.2.1, this.2.2.2]
      · cases h'
      · cases h'
    · cases h'

/-- **JRCXZ** jumps iff RCX = 0; **JECXZ** iff the low 32 bits of RCX are 0 (high bits ignored). -/
theorem jrcxz_rip (hh : HasHooks) (i : Instr) (s s' : Machine)
    (hl : lookup i.code = some .jrcxz) (h : exec hh i s = .ok s') :
    (s.regs.get RCX = 0 → s'.regs.rip = i.nearBranch) ∧ (s.regs.get RCX ≠ 0 → s' = s) := by
  simp only [exec, hl] at h
  constructor
  · intro hz
    simp only [hz, beq_self_eq_true, if_true] at h
    have h' := ofOut_ok h
    unfold takeBranch at h'
    repeat' split at h'
    all_goals first | (cases h'; done) | (simp only [Out.ok.injEq] at h'; subst h'; simp [setRip])
  · intro hnz
    have : (s.regs.get RCX == 0) = false := by simpa using hnz
    simp only [this, Bool.false_eq_true, if_false, ExecRes.ok.injEq] at h
    exact h.symm

theorem jecxz_rip (hh : HasHooks) (i : Instr) (s s' : Machine)
    (hl : lookup i.code = some .jecxz) (h : exec hh i s = .ok s') :
    ((s.regs.get RCX).setWidth 32 = 0#32 → s'.regs.rip = i.nearBranch) ∧
    ((s.regs.get RCX).setWidth 32 ≠ 0#32 → s' = s) := by
  simp only [exec, hl] at h
  have key : ((s.regs.get RCX &&& 0xFFFFFFFF#64) == 0) = decide ((s.regs.get RCX).setWidth 32 = 0#32) := by
    generalize s.regs.get RCX = x
    by_cases hx : x.setWidth 32 = 0#32
    · simp only [hx, decide_true]; simp; bv_decide
    · simp only [hx, decide_false]; simp; bv_decide
  rw [key] at h
  constructor
  · intro hz
    simp only [hz, decide_true, if_true] at h
    have h' := ofOut_ok h
    unfold takeBranch at h'
    repeat' split at h'
    all_goals first | (cases h'; done) | (simp only [Out.ok.injEq] at h'; subst h'; simp [setRip])
  · intro hnz
    simp only [hnz, decide_false, Bool.false_eq_true, if_false, ExecRes.ok.injEq] at h
    exact h.symm

/-- **Direct JMP / CALL** go to `near_branch64`; **indirect** forms to the full 64-bit value of the
    register or memory operand (`readRM … 64`). -/
theorem jmp_near_rip (hh : HasHooks) (i : Instr) (s s' : Machine)
    (hl : lookup i.code = some .jmpNear) (h : exec hh i s = .ok s') : s'.regs.rip = i.nearBranch := by
  simp only [exec, hl] at h
  have h' := ofOut_ok h
  unfold takeBranch at h'
  repeat' split at h'
  all_goals first | (cases h'; done) | (simp only [Out.ok.injEq] at h'; subst h'; simp [setRip])

theorem call_to_rip (s s' : Machine) (i : Instr) (t : BitVec 64) (h : execCallTo s i t = .ok s') :
    s'.regs.rip = t := by
  unfold execCallTo at h
  repeat' split at h
  all_goals first | (cases h; done) | (simp only [Out.ok.injEq] at h; subst h; simp [setRip])

/-! ## two instructions, end to end: `cmp ra, rb ; jcc T` branches exactly on the relation -/

theorem slt_from_flags (a b : BitVec 64) : ((a - b).msb != BitVec.ssubOverflow a b) = a.slt b := by bv_decide
theorem ult_from_flags (a b : BitVec 64) : BitVec.usubOverflow a b = a.ult b := by bv_decide

/-- **`cmp ra, rb` followed by `jl T`** (through the whole dispatch, for every machine and every pair of 64-bit
    registers): the compare succeeds and changes only the flags; the jump then goes to T exactly when `ra <ₛ rb`, and
    otherwise changes nothing (the step frame then leaves RIP at the next instruction, `C11.step_rip_next`). -/
theorem cmp_then_jl (hh : HasHooks) (i1 i2 : Instr) (s : Machine) (a b : Fin 16) (hc1 : i1.code = "Cmp_rm64_r64")
    (hops : instructionOperands2 i1 = .ok (.register (.g64 a), .register (.g64 b)))
    (hl2 : lookup i2.code = some (.jcc "Jl")) :
    ∃ s1, exec hh i1 s = .ok s1 ∧ s1.regs = s.regs ∧ s1.mem = s.mem ∧
      ∀ s2, exec hh i2 s1 = .ok s2 →
        ((s.regs.get a).slt (s.regs.get b) = true → s2.regs.rip = i2.nearBranch) ∧
        ((s.regs.get a).slt (s.regs.get b) = false → s2 = s1) := by
  obtain ⟨f, he, _, hof, _, hsf, _, _⟩ := C01.cmp_r64_r64 hh i1 s a b hc1 hops
  refine ⟨_, he, rfl, rfl, ?_⟩
  intro s2 h2
  have hcond : cond "Jl" f = some ((s.regs.get a).slt (s.regs.get b)) := by
    have := (cond_as_bools f).2.2.2.2.2.2.2.2.1
    rw [this, hsf, hof, slt_from_flags]
  have := jcc_rip hh i2 _ s2 "Jl" _ hl2 hcond h2
  exact ⟨fun ht => (this.1 ht).1, this.2⟩

/-- … and `jb T` exactly when `ra <ᵤ rb` -/
theorem cmp_then_jb (hh : HasHooks) (i1 i2 : Instr) (s : Machine) (a b : Fin 16) (hc1 : i1.code = "Cmp_rm64_r64")
    (hops : instructionOperands2 i1 = .ok (.register (.g64 a), .register (.g64 b)))
    (hl2 : lookup i2.code = some (.jcc "Jb")) :
    ∃ s1, exec hh i1 s = .ok s1 ∧ s1.regs = s.regs ∧ s1.mem = s.mem ∧
      ∀ s2, exec hh i2 s1 = .ok s2 →
        ((s.regs.get a).ult (s.regs.get b) = true → s2.regs.rip = i2.nearBranch) ∧
        ((s.regs.get a).ult (s.regs.get b) = false → s2 = s1) := by
  obtain ⟨f, he, hcf, _, _, _, _, _⟩ := C01.cmp_r64_r64 hh i1 s a b hc1 hops
  refine ⟨_, he, rfl, rfl, ?_⟩
  intro s2 h2
  have hcond : cond "Jb" f = some ((s.regs.get a).ult (s.regs.get b)) := by
    have := (cond_as_bools f).2.2.1
    rw [this, hcf, ult_from_flags]
  have := jcc_rip hh i2 _ s2 "Jb" _ hl2 hcond h2
  exact ⟨fun ht => (this.1 ht).1, this.2⟩

/-! ## Non-vacuity -/
example : lookup "Ja_rel8_64" = some (.jcc "Ja") ∧ cond "Ja" 0#64 = some true := by decide
example : lookup "Jecxz_rel8_64" = some .jecxz := by decide

end Ax.C03
