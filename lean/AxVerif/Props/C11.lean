/-
  C11 — execution loop: one instruction per step, exact finish and limit conditions.

  Statements hold for every decoder answer, every instruction semantics reachable through `exec`,
  every hook table whose hooks leave the executed-instruction count alone (native hooks cannot
  reach it: the field is crate-private), every limit and every fuel.
-/
import AxVerif.Lemmas.Frame
import AxVerif.Lemmas.RipFrame
namespace Ax.C11
open Ax

abbrev Dec := Machine → List Byte → DecodeRes

/-- hooks cannot reach the crate-private loop-control fields -/
def HooksKeepCtl (hooks : HookTable) : Prop :=
  ∀ mn e, hooks.get mn = some e → ∀ f, f ∈ e.before ∨ f ∈ e.after →
    ∀ s, (∀ r s', f s = .ok r s' → s'.count = s.count ∧ s'.maxInstr = s.maxInstr ∧ s'.codeEnd = s.codeEnd) ∧
         (∀ s', f s = .err s' → s'.count = s.count ∧ s'.maxInstr = s.maxInstr ∧ s'.codeEnd = s.codeEnd)

/-! ## After the end, and at the limit, a step fails and changes nothing -/

theorem finished_step (hooks : HookTable) (dec : Dec) (s : Machine) (h : s.finished = true) :
    (step hooks dec s).out = .err ∧ (step hooks dec s).s = s := by
  simp [step, h]

theorem limit_step (hooks : HookTable) (dec : Dec) (s : Machine) (N : Nat)
    (hN : s.maxInstr = some N) (hc : N ≤ s.count) :
    (step hooks dec s).out = .err ∧ (step hooks dec s).s = s := by
  unfold step
  split
  · exact ⟨rfl, rfl⟩
  · simp [limitReached, hN, hc]

/-- Below the limit the step is not refused: it is exactly the unguarded step. -/
theorem limit_not_early (hooks : HookTable) (dec : Dec) (s : Machine) (N : Nat)
    (hf : s.finished = false) (hN : s.maxInstr = some N) (hc : s.count < N) :
    step hooks dec s = stepBody hooks dec s := by
  have : ¬ N ≤ s.count := by omega
  simp [step, hf, limitReached, hN, this]

theorem no_limit (hooks : HookTable) (dec : Dec) (s : Machine)
    (hf : s.finished = false) (hN : s.maxInstr = none) : step hooks dec s = stepBody hooks dec s := by
  simp [step, hf, limitReached, hN]

/-! ## Hook chains keep the count -/

theorem runChain_count (fs : List HookFn) (s : Machine)
    (hk : ∀ f ∈ fs, ∀ s, (∀ r s', f s = .ok r s' → s'.count = s.count ∧ s'.maxInstr = s.maxInstr ∧ s'.codeEnd = s.codeEnd) ∧
         (∀ s', f s = .err s' → s'.count = s.count ∧ s'.maxInstr = s.maxInstr ∧ s'.codeEnd = s.codeEnd)) :
    (∀ s', runChain fs s = .ok s' → s'.count = s.count ∧ s'.maxInstr = s.maxInstr ∧ s'.codeEnd = s.codeEnd) ∧
    (∀ s', runChain fs s = .err s' → s'.count = s.count ∧ s'.maxInstr = s.maxInstr ∧ s'.codeEnd = s.codeEnd) := by
  induction fs generalizing s with
  | nil => simp [runChain]
  | cons f fs ih =>
    have hf := hk f (List.mem_cons_self ..) s
    have ih' := fun s1 => ih s1 (fun g hg => hk g (List.mem_cons_of_mem _ hg))
    unfold runChain
    cases hfs : f s with
    | panic => simp
    | err s1 =>
      have := hf.2 s1 hfs
      simp only [reduceCtorEq, false_implies, implies_true, ChainRes.err.injEq, true_and]
      intro s' e; subst e; exact this
    | ok r s1 =>
      have h1 := hf.1 r s1 hfs
      simp only
      split
      · simp only [ChainRes.ok.injEq, reduceCtorEq, false_implies, implies_true, and_true]
        intro s' e; subst e; exact h1
      · have := ih' s1
        constructor
        · intro s' e
          have := this.1 s' e
          exact ⟨this.1.trans h1.1, this.2.1.trans h1.2.1, this.2.2.trans h1.2.2⟩
        · intro s' e
          have := this.2 s' e
          exact ⟨this.1.trans h1.1, this.2.1.trans h1.2.1, this.2.2.trans h1.2.2⟩

theorem runFunctions_count (fs : List HookFn) (s : Machine)
    (hk : ∀ f ∈ fs, ∀ s, (∀ r s', f s = .ok r s' → s'.count = s.count ∧ s'.maxInstr = s.maxInstr ∧ s'.codeEnd = s.codeEnd) ∧
         (∀ s', f s = .err s' → s'.count = s.count ∧ s'.maxInstr = s.maxInstr ∧ s'.codeEnd = s.codeEnd)) :
    (∀ s', runFunctions fs s = .ok s' → s'.count = s.count ∧ s'.maxInstr = s.maxInstr ∧ s'.codeEnd = s.codeEnd) ∧
    (∀ s', runFunctions fs s = .err s' → s'.count = s.count ∧ s'.maxInstr = s.maxInstr ∧ s'.codeEnd = s.codeEnd) := by
  have := runChain_count fs { s with hooksRunning := true } hk
  unfold runFunctions
  cases hr : runChain fs { s with hooksRunning := true } with
  | panic => simp
  | ok s1 =>
    have := this.1 s1 hr
    simp only [ChainRes.ok.injEq, reduceCtorEq, false_implies, implies_true, and_true]
    intro s' e; subst e; exact this
  | err s1 =>
    have := this.2 s1 hr
    simp only [ChainRes.err.injEq, reduceCtorEq, false_implies, implies_true, true_and]
    intro s' e; subst e; exact this

/-! ## A successful step executes exactly one instruction -/

/-- what the loop-control fields look like relative to an earlier state -/
def Kept (s s' : Machine) (k : Nat) : Prop :=
  s'.count = s.count + k ∧ s'.maxInstr = s.maxInstr ∧ s'.codeEnd = s.codeEnd

theorem runEntry_kept (hooks : HookTable) (hk : HooksKeepCtl hooks) (mn : String) (before : Bool) (s : Machine) :
    (∀ s', runEntry (hooks.get mn) before s = .ok s' → Kept s s' 0) ∧
    (∀ s', runEntry (hooks.get mn) before s = .err s' → Kept s s' 0) := by
  unfold runEntry
  cases he : hooks.get mn with
  | none => simp [Kept]
  | some e =>
    simp only
    have := runFunctions_count (if before then e.before else e.after) s (by
      intro f hf
      apply hk mn e he f
      cases before <;> simp_all)
    exact ⟨fun s' h => by have := this.1 s' h; exact ⟨by omega, this.2.1, this.2.2⟩,
           fun s' h => by have := this.2 s' h; exact ⟨by omega, this.2.1, this.2.2⟩⟩

theorem stepAfterExec_ok (hooks : HookTable) (hk : HooksKeepCtl hooks) (mn : String) (s3 : Machine) (b : Bool)
    (h : (stepAfterExec (hooks.get mn) s3).out = .ok b) :
    Kept s3 (stepAfterExec (hooks.get mn) s3).s 1 ∧ b = !(stepAfterExec (hooks.get mn) s3).s.finished := by
  unfold stepAfterExec at h ⊢
  simp only at h ⊢
  generalize hs5 : (if s3.regs.rip.toNat = s3.codeEnd then
      ({ s3 with count := s3.count + 1, finished := true } : Machine) else { s3 with count := s3.count + 1 }) = s5 at h ⊢
  have h5 : Kept s3 s5 1 := by
    rw [← hs5]; split <;> exact ⟨rfl, rfl, rfl⟩
  cases hr : runEntry (hooks.get mn) false s5 with
  | panic => simp [hr] at h
  | err s6 => simp [hr] at h
  | ok s6 =>
    simp only [hr, StepOut.ok.injEq] at h ⊢
    have := (runEntry_kept hooks hk mn false s5).1 s6 hr
    exact ⟨⟨by have := this.1; have := h5.1; omega, this.2.1.trans h5.2.1, this.2.2.trans h5.2.2⟩, h.symm⟩

theorem stepExec_ok (hooks : HookTable) (hk : HooksKeepCtl hooks) (mn : String) (i : Instr) (s2 : Machine) (b : Bool)
    (h : (stepExec hooks (hooks.get mn) i s2).out = .ok b) :
    Kept s2 (stepExec hooks (hooks.get mn) i s2).s 1 ∧ b = !(stepExec hooks (hooks.get mn) i s2).s.finished := by
  unfold stepExec at h ⊢
  cases hx : exec (fun mn => (hooks.get mn).isSome) i s2 with
  | err => simp [hx] at h
  | panic => simp [hx] at h
  | finish =>
    simp only [hx] at h ⊢
    have := stepAfterExec_ok hooks hk mn _ b h
    exact ⟨⟨this.1.1, this.1.2.1, this.1.2.2⟩, this.2⟩
  | ok s3 =>
    simp only [hx] at h ⊢
    have hc3 := (exec_ctl hx).1
    have e1 := congrArg Ctl.count hc3
    have e2 := congrArg Ctl.maxInstr hc3
    have e3 := congrArg Ctl.codeEnd hc3
    simp only [Machine.ctl] at e1 e2 e3
    have := stepAfterExec_ok hooks hk mn s3 b h
    exact ⟨⟨by rw [this.1.1, e1], this.1.2.1.trans e2, this.1.2.2.trans e3⟩, this.2⟩

theorem stepDecoded_ok (hooks : HookTable) (hk : HooksKeepCtl hooks) (i : Instr) (s : Machine) (b : Bool)
    (h : (stepDecoded hooks i s).out = .ok b) :
    Kept s (stepDecoded hooks i s).s 1 ∧ b = !(stepDecoded hooks i s).s.finished := by
  unfold stepDecoded at h ⊢
  simp only at h ⊢
  split at h
  · simp at h
  · rename_i hsup
    simp only [hsup, if_false] at ⊢
    cases hr : runEntry (hooks.get i.mnem) true (setRip s i.nextIp) with
    | panic => simp [hr] at h
    | err s2 => simp [hr] at h
    | ok s2 =>
      simp only [hr] at h ⊢
      simp only [Bool.false_eq_true, if_false]
      have k2 := (runEntry_kept hooks hk i.mnem true (setRip s i.nextIp)).1 s2 hr
      have := stepExec_ok hooks hk i.mnem i s2 b h
      refine ⟨⟨?_, ?_, ?_⟩, this.2⟩
      · rw [this.1.1, k2.1]; simp [setRip]
      · rw [this.1.2.1, k2.2.1]; simp [setRip]
      · rw [this.1.2.2, k2.2.2]; simp [setRip]

/-- **Each successful step advances the executed-instruction count by exactly one**, keeps the limit
    and the code end, and reports `continue` exactly when execution has not finished. -/
theorem step_ok_effects (hooks : HookTable) (dec : Dec) (s : Machine) (hk : HooksKeepCtl hooks) (b : Bool)
    (h : (stepBody hooks dec s).out = .ok b) :
    (stepBody hooks dec s).s.count = s.count + 1 ∧
    (stepBody hooks dec s).s.maxInstr = s.maxInstr ∧
    (stepBody hooks dec s).s.codeEnd = s.codeEnd ∧
    b = !(stepBody hooks dec s).s.finished := by
  unfold stepBody at h ⊢
  cases hw : memReadExec s.mem s.regs.rip.toNat with
  | err => simp [hw] at h
  | panic => simp [hw] at h
  | ok window =>
    simp only [hw] at h ⊢
    by_cases hne : window.isEmpty = true
    · simp [hne] at h
    · simp only [hne, Bool.false_eq_true, if_false] at h ⊢
      cases hdec : dec s window with
      | invalid => simp [hdec] at h
      | instr i =>
        simp only [hdec] at h ⊢
        have := stepDecoded_ok hooks hk i s b h
        exact ⟨this.1.1, this.1.2.1, this.1.2.2, this.2⟩

/-- Without hooks on the instruction's mnemonic, execution finishes exactly when the instruction was a
    top-level RET or the instruction pointer reached the end of the code (or it was finished before). -/
theorem finish_iff (hooks : HookTable) (i : Instr) (s2 : Machine) (hno : hooks.get i.mnem = none) (b : Bool)
    (h : (stepExec hooks (hooks.get i.mnem) i s2).out = .ok b) :
    (stepExec hooks (hooks.get i.mnem) i s2).s.finished = true ↔
      (exec (fun mn => (hooks.get mn).isSome) i s2 matches .finish) ∨
      (∃ s3, exec (fun mn => (hooks.get mn).isSome) i s2 = .ok s3 ∧
        (s3.regs.rip.toNat = s3.codeEnd ∨ s3.finished = true)) := by
  unfold stepExec at h ⊢
  cases hx : exec (fun mn => (hooks.get mn).isSome) i s2 with
  | err => simp [hx] at h
  | panic => simp [hx] at h
  | finish =>
    simp only [hx, hno, stepAfterExec, runEntry]
    split <;> simp
  | ok s3 =>
    simp only [hx, hno, stepAfterExec, runEntry]
    split <;> simp_all

/-! ## Running to completion is stepping repeatedly -/

theorem execute_succ (hooks : HookTable) (dec : Dec) (fuel : Nat) (s : Machine) :
    execute hooks dec (fuel + 1) s =
      (match (step hooks dec s).out with
       | .ok true => execute hooks dec fuel (step hooks dec s).s
       | _ => step hooks dec s) := rfl

/-- Fuel only bounds the model's recursion: once a run has ended (anything but "continue"),
    more fuel gives the same result. -/
theorem execute_stable (hooks : HookTable) (dec : Dec) (n : Nat) (s : Machine)
    (h : (execute hooks dec n s).out ≠ .ok true) (m : Nat) (hm : n ≤ m) :
    execute hooks dec m s = execute hooks dec n s := by
  induction n generalizing s m with
  | zero => simp [execute] at h
  | succ n ih =>
    cases m with
    | zero => omega
    | succ m =>
      rw [execute_succ, execute_succ] at *
      split
      · rename_i hs
        simp only [hs] at h
        exact ih _ h m (by omega)
      · rfl

/-- **The limit is exact**: from a fresh count, `k` successful steps leave the count at `k`; so with
    limit `N` the first `N` steps are never refused for the limit and step `N+1` is. -/
def stepN (hooks : HookTable) (dec : Dec) : Nat → Machine → Option Machine
  | 0, s => some s
  | k + 1, s =>
    match (step hooks dec s).out with
    | .ok _ => stepN hooks dec k (step hooks dec s).s
    | _ => none

theorem count_after_steps (hooks : HookTable) (dec : Dec) (hk : HooksKeepCtl hooks) (k : Nat) (s s' : Machine)
    (h : stepN hooks dec k s = some s') :
    s'.count = s.count + k ∧ s'.maxInstr = s.maxInstr := by
  induction k generalizing s with
  | zero => simp only [stepN, Option.some.injEq] at h; subst h; exact ⟨rfl, rfl⟩
  | succ k ih =>
    unfold stepN at h
    cases ho : (step hooks dec s).out with
    | err => simp [ho] at h
    | panic => simp [ho] at h
    | ok b =>
      simp only [ho] at h
      have hbody : step hooks dec s = stepBody hooks dec s := by
        unfold step at ho ⊢
        split at ho
        · cases ho
        · split at ho
          · cases ho
          · rename_i h1 h2; simp [h1, h2]
      rw [hbody] at ho h
      have e := step_ok_effects hooks dec s hk b ho
      have := ih _ h
      exact ⟨by omega, this.2.trans e.2.1⟩

theorem limit_exact (hooks : HookTable) (dec : Dec) (hk : HooksKeepCtl hooks) (N : Nat) (s s' : Machine)
    (h0 : s.count = 0) (hN : s.maxInstr = some N) (h : stepN hooks dec N s = some s') :
    (step hooks dec s').out = .err ∧ (step hooks dec s').s = s' := by
  obtain ⟨hc, hm⟩ := count_after_steps hooks dec hk N s s' h
  by_cases hf : s'.finished = true
  · exact finished_step hooks dec s' hf
  · exact limit_step hooks dec s' N (hm.trans hN) (by omega)

/-- **The limit counts instructions since construction, whenever it is set**: if the limit N is (re)set on a machine
    that has already executed `s.count ≤ N` instructions, then exactly `N - s.count` further steps are possible and the
    step after them is refused and changes nothing; if `N ≤ s.count` the very next step is refused. -/
theorem limit_absolute (hooks : HookTable) (dec : Dec) (hk : HooksKeepCtl hooks) (N : Nat) (s s' : Machine)
    (h : stepN hooks dec (N - s.count) (setMaxInstr s N) = some s') :
    (step hooks dec s').out = .err ∧ (step hooks dec s').s = s' := by
  obtain ⟨hc, hm⟩ := count_after_steps hooks dec hk _ _ s' h
  by_cases hf : s'.finished = true
  · exact finished_step hooks dec s' hf
  · refine limit_step hooks dec s' N (hm.trans rfl) ?_
    simp only [setMaxInstr] at hc
    omega

/-- … and none of those `N - s.count` steps is refused on account of the limit -/
theorem limit_absolute_not_early (hooks : HookTable) (dec : Dec) (hk : HooksKeepCtl hooks) (N k : Nat) (s s' : Machine)
    (hkN : s.count + k < N) (hf : s'.finished = false) (h : stepN hooks dec k (setMaxInstr s N) = some s') :
    step hooks dec s' = stepBody hooks dec s' := by
  obtain ⟨hc, hm⟩ := count_after_steps hooks dec hk _ _ s' h
  refine limit_not_early hooks dec s' N hf (hm.trans rfl) ?_
  simp only [setMaxInstr] at hc
  omega

/-! ## Non-vacuity -/
example : HooksKeepCtl [] := by
  intro mn e h; simp [HookTable.get] at h

/-! ## RIP after a step -/

/-- **Each successful step leaves RIP at the following instruction unless it transfers control**: for an instruction
    without hooks whose form is not a jump, call or return, RIP after the step is `next_ip`. -/
theorem step_rip_next (hooks : HookTable) (i : Instr) (s : Machine) (hd : Handler) (b : Bool)
    (hnh : hooks.get i.mnem = none) (hl : lookup i.code = some hd) (ht : hd.isTransfer = false) (hno : NoRipOperand i)
    (h : (stepDecoded hooks i s).out = .ok b) : (stepDecoded hooks i s).s.regs.rip = i.nextIp := by
  unfold stepDecoded at h ⊢
  simp only at h ⊢
  split at h
  · simp at h
  · rename_i hsup
    simp only [hsup, if_false, hnh, runEntry, stepExec] at h ⊢
    cases hx : exec (fun mn => (hooks.get mn).isSome) i (setRip s i.nextIp) with
    | err => simp [hx] at h
    | panic => simp [hx] at h
    | finish =>
      -- only RET signals the finish, and RET is a transfer
      have := exec_finish_ret hx
      rw [hl] at this
      simp only [Option.some.injEq] at this
      subst this
      simp [Handler.isTransfer] at ht
    | ok s3 =>
      have hr := exec_rip hl ht hno hx
      simp only [hx, stepAfterExec, runEntry]
      have hr' : s3.regs.rip = i.nextIp := by rw [hr]; rfl
      split
      · simp [setRip]
      · split <;> simp [hr']


end Ax.C11
