/-
  C08 — guest memory is a consistent little-endian byte store with strict bounds.

  Statements are for every area layout satisfying the representation invariant `Mem.WF`
  (preserved by every operation: C10) and `NoOverlap` (C10), every address and every length —
  including addresses and lengths at or beyond 2^64 − 1; nothing is bounded.
-/
import AxVerif.Lemmas.Mem
namespace Ax.C08
open Ax

/-! ## Reads -/

/-- A read succeeds exactly when the whole range lies in the (first) area containing the start
    address and that area is readable. -/
theorem read_ok_iff (m : Mem) (hm : m.WF) (a n : Nat) :
    (∃ bs, memReadBytes m a n = .ok bs) ↔
      ∃ ar, findArea m a = some ar ∧ a + n ≤ ar.start + ar.len ∧ hasPerm ar.access PROT_READ = true := by
  unfold memReadBytes
  cases hf : findArea m a with
  | none => simp
  | some ar =>
    obtain ⟨hin, hc⟩ := findArea_some hf
    have hwf := (hm ar hin).1
    rw [contains_iff] at hc
    simp only [Option.some.injEq, exists_eq_left']
    by_cases h1 : ar.len - (a - ar.start) < n
    · simp only [h1, if_true, reduceCtorEq, exists_false, false_iff]; omega
    · by_cases h2 : hasPerm ar.access PROT_READ = true
      · have h3 : a - ar.start + n ≤ ar.data.length := by omega
        simp only [h1, if_false, h2, Bool.not_true, Bool.false_eq_true, h3, if_true]
        constructor
        · intro _; exact ⟨by omega, trivial⟩
        · intro _; exact ⟨_, rfl⟩
      · simp [h1, h2]

/-- A successful read returns exactly the addressed bytes of the byte map. -/
theorem read_bytes_eq (m : Mem) (hm : m.WF) (hno : NoOverlap m) (a n : Nat) (bs : List Byte)
    (h : memReadBytes m a n = .ok bs) :
    bs.length = n ∧ ∀ i, i < n → bs[i]? = byteAt m (a + i) := by
  unfold memReadBytes at h
  cases hf : findArea m a with
  | none => simp [hf] at h
  | some ar =>
    obtain ⟨hin, hc⟩ := findArea_some hf
    have hwf := (hm ar hin).1
    rw [contains_iff] at hc
    simp only [hf] at h
    split at h
    · cases h
    split at h
    · cases h
    split at h
    · rename_i h1 h2 h3
      simp only [Out.ok.injEq] at h
      subst h
      refine ⟨by simp; omega, fun i hi => ?_⟩
      have hci : ar.contains (a + i) = true := by rw [contains_iff]; omega
      have := findArea_of_mem hno hin hci
      simp only [byteAt, this]
      rw [List.getElem?_take_of_lt hi, List.getElem?_drop]
      congr 1; omega
    · cases h

/-- No address, length or layout makes a read crash (in particular none reaches an arithmetic
    overflow or an out-of-range slice). -/
theorem read_never_panics (m : Mem) (hm : m.WF) (a n : Nat) : memReadBytes m a n ≠ .panic := by
  unfold memReadBytes
  cases hf : findArea m a with
  | none => simp
  | some ar =>
    obtain ⟨hin, hc⟩ := findArea_some hf
    have hwf := (hm ar hin).1
    rw [contains_iff] at hc
    simp only
    repeat' split
    all_goals first | (exfalso; omega) | simp

/-- A successful access never wraps around the end of the address space. -/
theorem read_never_wraps (m : Mem) (hm : m.WF) (a n : Nat) (bs) (h : memReadBytes m a n = .ok bs) :
    a + n ≤ U64 := by
  obtain ⟨ar, hf, hle, _⟩ := (read_ok_iff m hm a n).mp ⟨bs, h⟩
  obtain ⟨hin, hc⟩ := findArea_some hf
  rw [contains_iff] at hc
  have := (hm ar hin).2
  omega

/-- Unmapped start address, range past the end of its area, or `address + length` beyond 2^64:
    the read is an error value. -/
theorem read_out_of_range_err (m : Mem) (hm : m.WF) (a n : Nat)
    (h : findArea m a = none ∨ (∃ ar, findArea m a = some ar ∧ ar.start + ar.len < a + n) ∨ U64 < a + n) :
    memReadBytes m a n = .err := by
  have hnp := read_never_panics m hm a n
  cases hr : memReadBytes m a n with
  | err => rfl
  | panic => exact absurd hr hnp
  | ok bs =>
    exfalso
    obtain ⟨ar, hf, hle, _⟩ := (read_ok_iff m hm a n).mp ⟨bs, hr⟩
    have := read_never_wraps m hm a n bs hr
    rcases h with h | ⟨ar', hf', hlt⟩ | h
    · simp [hf] at h
    · rw [hf] at hf'; cases hf'; omega
    · omega

/-! ## Writes -/

theorem write_never_panics (m : Mem) (hm : m.WF) (a : Nat) (bs : List Byte) :
    memWriteBytes m a bs ≠ .panic := by
  induction m with
  | nil => simp [memWriteBytes]
  | cons ar rest ih =>
    have hwf := (hm ar (List.mem_cons_self ..)).1
    have ih' := ih (fun x hx => hm x (List.mem_cons_of_mem _ hx))
    unfold memWriteBytes
    by_cases hc : ar.contains a = true
    · rw [contains_iff] at hc
      have hc2 : ar.contains a = true := (contains_iff _ _).mpr hc
      simp only [hc2, if_true]
      repeat' split
      all_goals first | (exfalso; omega) | simp
    · have hc' : ar.contains a = false := by simpa using hc
      simp only [hc', Bool.false_eq_true, if_false]
      cases hr : memWriteBytes rest a bs <;> simp_all

/-- A successful write: the range lies in one writable area; names, extents and permissions are
    unchanged; exactly the addressed bytes change, to the written data. -/
theorem write_spec (m : Mem) (hm : m.WF) (hno : NoOverlap m) (a : Nat) (bs : List Byte) (m' : Mem)
    (h : memWriteBytes m a bs = .ok m') :
    skeleton m' = skeleton m ∧ m'.WF ∧
    (∃ ar ∈ m, ar.contains a = true ∧ a + bs.length ≤ ar.start + ar.len ∧ hasPerm ar.access PROT_WRITE = true) ∧
    ∀ x, byteAt m' x = if a ≤ x ∧ x < a + bs.length then bs[x - a]? else byteAt m x := by
  induction m generalizing m' with
  | nil => simp [memWriteBytes] at h
  | cons ar rest ih =>
    have hwfa := hm ar (List.mem_cons_self ..)
    have hmr : Mem.WF rest := fun x hx => hm x (List.mem_cons_of_mem _ hx)
    have hp := List.pairwise_cons.mp hno
    unfold memWriteBytes at h
    by_cases hc : ar.contains a = true
    · simp only [hc, if_true] at h
      split at h
      · cases h
      split at h
      · cases h
      split at h
      · rename_i h1 h2 h3
        simp only [Out.ok.injEq] at h
        subst h
        have hc' := (contains_iff _ _).mp hc
        refine ⟨by simp [skeleton], ?_, ⟨ar, List.mem_cons_self .., hc, by omega, by simpa using h2⟩, ?_⟩
        · intro x hx
          rcases List.mem_cons.mp hx with rfl | hx
          · exact ⟨by simp [splice_length _ _ _ h3, hwfa.1], hwfa.2⟩
          · exact hmr x hx
        · intro x
          simp only [byteAt, findArea_cons]
          have hcx : ({ ar with data := splice ar.data (a - ar.start) bs } : Area).contains x = ar.contains x := rfl
          rw [hcx]
          by_cases hx : ar.contains x = true
          · have hx' := (contains_iff _ _).mp hx
            simp only [hx, if_true]
            rw [splice_getElem? _ _ _ _ h3]
            have e : (a - ar.start ≤ x - ar.start ∧ x - ar.start < a - ar.start + bs.length) ↔ (a ≤ x ∧ x < a + bs.length) := by omega
            simp only [e]
            split
            · congr 1; omega
            · rfl
          · have hx' : ¬ (ar.start ≤ x ∧ x < ar.start + ar.len) := by rwa [contains_iff] at hx
            have : ¬ (a ≤ x ∧ x < a + bs.length) := by omega
            simp [hx, this]
      · cases h
    · have hc' : ar.contains a = false := by simpa using hc
      simp only [hc', Bool.false_eq_true, if_false] at h
      cases hr : memWriteBytes rest a bs with
      | err => simp [hr] at h
      | panic => simp [hr] at h
      | ok rest' =>
        simp only [hr, Out.ok.injEq] at h
        subst h
        obtain ⟨hsk, hwf', ⟨ar2, hin2, hc2, hle2, hw2⟩, hb⟩ := ih hmr hp.2 rest' hr
        refine ⟨by simp [skeleton] at hsk ⊢; exact hsk, ?_, ⟨ar2, List.mem_cons_of_mem _ hin2, hc2, hle2, hw2⟩, ?_⟩
        · intro x hx
          rcases List.mem_cons.mp hx with rfl | hx
          · exact hwfa
          · exact hwf' x hx
        · intro x
          simp only [byteAt, findArea_cons]
          by_cases hx : ar.contains x = true
          · simp only [hx, if_true]
            -- x lies in `ar`, which is disjoint from the written area `ar2`
            have hd := hp.1 ar2 hin2
            have hx' := (contains_iff _ _).mp hx
            have hc2' := (contains_iff _ _).mp hc2
            have : ¬ (a ≤ x ∧ x < a + bs.length) := by
              unfold Area.disjoint at hd; omega
            simp [this]
          · simp only [hx]
            have := hb x
            simpa [byteAt] using this

/-- A failed write returns an error value and no new memory: nothing changes.  (By construction the
    model returns a memory only on success; stated for the record.) -/
theorem write_err_no_state (m : Mem) (a : Nat) (bs : List Byte) (h : memWriteBytes m a bs = .err) :
    ¬ ∃ m', memWriteBytes m a bs = .ok m' := by
  simp [h]

theorem write_never_wraps (m : Mem) (hm : m.WF) (hno : NoOverlap m) (a : Nat) (bs) (m')
    (h : memWriteBytes m a bs = .ok m') : a + bs.length ≤ U64 := by
  obtain ⟨_, _, ⟨ar, hin, hc, hle, _⟩, _⟩ := write_spec m hm hno a bs m' h
  rw [contains_iff] at hc
  have := (hm ar hin).2
  omega

/-- `NoOverlap` and `WF` survive every write (so the statements above chain over histories). -/
theorem write_preserves (m : Mem) (hm : m.WF) (hno : NoOverlap m) (a : Nat) (bs) (m')
    (h : memWriteBytes m a bs = .ok m') : m'.WF ∧ NoOverlap m' := by
  obtain ⟨hsk, hwf, _, _⟩ := write_spec m hm hno a bs m' h
  exact ⟨hwf, noOverlap_of_extents (skeleton_extents hsk) hno⟩

/-! ## Read after write -/

/-- A read after a write returns the written bytes on the written range and the old contents
    elsewhere — for any two (address, length) pairs, overlapping or not. -/
theorem read_after_write (m : Mem) (hm : m.WF) (hno : NoOverlap m) (a : Nat) (bs : List Byte) (m' : Mem)
    (hw : memWriteBytes m a bs = .ok m') (a2 n2 : Nat) (out : List Byte)
    (hr : memReadBytes m' a2 n2 = .ok out) :
    out.length = n2 ∧ ∀ i, i < n2 → out[i]? =
      if a ≤ a2 + i ∧ a2 + i < a + bs.length then bs[a2 + i - a]? else byteAt m (a2 + i) := by
  obtain ⟨hwf', hno'⟩ := write_preserves m hm hno a bs m' hw
  obtain ⟨hl, hb⟩ := read_bytes_eq m' hwf' hno' a2 n2 out hr
  refine ⟨hl, fun i hi => ?_⟩
  rw [hb i hi, (write_spec m hm hno a bs m' hw).2.2.2 (a2 + i)]

/-- One operation of a write history. -/
structure WriteOp where
  addr : Nat
  data : List Byte

/-- apply a history of writes; failed writes change nothing -/
def runWrites (m : Mem) : List WriteOp → Mem
  | [] => m
  | op :: ops =>
    match memWriteBytes m op.addr op.data with
    | .ok m' => runWrites m' ops
    | _ => runWrites m ops

/-- the reference byte map: apply the successful writes, in order, to the initial map -/
def refMap (m : Mem) (f : Nat → Option Byte) : List WriteOp → (Nat → Option Byte)
  | [] => f
  | op :: ops =>
    match memWriteBytes m op.addr op.data with
    | .ok m' => refMap m' (fun x => if op.addr ≤ x ∧ x < op.addr + op.data.length then op.data[x - op.addr]? else f x) ops
    | _ => refMap m f ops

/-- **Histories.** After any sequence of writes (successful or rejected) memory shows, at every
    address, the most recently written byte or the initial content; the invariants still hold. -/
theorem history_consistent (ops : List WriteOp) (m : Mem) (hm : m.WF) (hno : NoOverlap m) :
    (runWrites m ops).WF ∧ NoOverlap (runWrites m ops) ∧
    ∀ x, byteAt (runWrites m ops) x = refMap m (byteAt m) ops x := by
  induction ops generalizing m with
  | nil => exact ⟨hm, hno, fun _ => rfl⟩
  | cons op ops ih =>
    simp only [runWrites, refMap]
    cases hw : memWriteBytes m op.addr op.data with
    | ok m' =>
      obtain ⟨hwf', hno'⟩ := write_preserves m hm hno _ _ m' hw
      have hb := (write_spec m hm hno _ _ m' hw).2.2.2
      have := ih m' hwf' hno'
      simp only
      have e : byteAt m' = fun x => if op.addr ≤ x ∧ x < op.addr + op.data.length then op.data[x - op.addr]? else byteAt m x :=
        funext hb
      rw [← e]
      exact this
    | err => exact ih m hm hno
    | panic => exact ih m hm hno

/-! ## Typed accessors agree with byte accesses; little endian -/

/-- `to_le_bytes`/`from_le_bytes` round trip for every width. -/
theorem le_roundtrip (n v : Nat) (h : v < 2 ^ (8 * n)) : leNat (leBytes n v) = v := by
  rw [leNat_leBytes, Nat.mod_eq_of_lt h]

theorem le_roundtrip_bytes (bs : List Byte) : leBytes bs.length (leNat bs) = bs := leBytes_leNat bs

/-- A typed read is the little-endian value of the byte read. -/
theorem typed_read_eq_bytes (m : Mem) (n a : Nat) :
    memReadN m n a = (memReadBytes m a n).map' leNat := by
  unfold memReadN Out.map'
  cases memReadBytes m a n <;> rfl

/-- A typed write of a value that fits is the byte write of its little-endian bytes; a value that
    does not fit is rejected. -/
theorem typed_write_eq_bytes (m : Mem) (n a v : Nat) :
    memWriteN m n a v = if 2 ^ (8 * n) ≤ v then .err else memWriteBytes m a (leBytes n v) := rfl

/-- Typed write followed by a typed read of the same width at the same address: whenever the read
    succeeds (the area may be write-only) it returns the written value. -/
theorem typed_write_read (m : Mem) (hm : m.WF) (hno : NoOverlap m) (n a v : Nat) (m' : Mem)
    (hw : memWriteN m n a v = .ok m') (v' : Nat) (hr : memReadN m' n a = .ok v') : v' = v := by
  unfold memWriteN at hw
  split at hw
  · cases hw
  rename_i hv
  have hv : v < 2 ^ (8 * n) := by omega
  obtain ⟨hwf', hno'⟩ := write_preserves m hm hno a _ m' hw
  obtain ⟨_, _, _, hb⟩ := write_spec m hm hno a _ m' hw
  rw [leBytes_length] at hb
  unfold memReadN at hr
  cases hrb : memReadBytes m' a n with
  | panic => simp [hrb] at hr
  | err => simp [hrb] at hr
  | ok out =>
    simp only [hrb, Out.ok.injEq] at hr
    obtain ⟨hl, hbs⟩ := read_bytes_eq m' hwf' hno' a n out hrb
    have : out = leBytes n v := by
      apply List.ext_getElem?
      intro i
      by_cases hi : i < n
      · rw [hbs i hi, hb (a + i)]
        have : a ≤ a + i ∧ a + i < a + n := by omega
        simp only [this, and_self, if_true]
        congr 1; omega
      · rw [List.getElem?_eq_none (by omega), List.getElem?_eq_none (by rw [leBytes_length]; omega)]
    rw [← hr, this, le_roundtrip n v hv]

/-! ## Non-vacuity -/

/-- a two-area layout with an area ending exactly at 2^64 satisfies the invariants -/
def exMem : Mem :=
  [{ name := none, start := 0x1000, len := 4, data := [1, 2, 3, 4], access := 3 },
   { name := some "top", start := U64 - 2, len := 2, data := [9, 8], access := 3 }]

example : exMem.WF ∧ NoOverlap exMem := by
  refine ⟨?_, ?_⟩
  · intro ar har
    simp only [exMem, List.mem_cons, List.not_mem_nil, or_false] at har
    rcases har with rfl | rfl <;> simp [Area.WF, U64]
  · simp [NoOverlap, exMem, Area.disjoint, U64]

example : memReadBytes exMem (U64 - 1) 1 = .ok [8] := by decide
example : memReadBytes exMem (U64 - 1) 2 = .err := by decide
example : memReadBytes exMem (U64 - 16) 16 = .err := by decide
example : (memWriteBytes exMem 0x1001 [7, 7]).bind (fun m' => memReadBytes m' 0x1000 4) = .ok [1, 7, 7, 4] := by decide

end Ax.C08
