/-
  C13 — the built-in brk handler gives the guest a working, growing heap.

  `brkCall` is the handler's computation on (memory, heap start, heap length).  The statements hold
  for every surrounding layout satisfying the memory invariants and every argument.
-/
import AxVerif.Props.C10
import AxVerif.Model.Step
namespace Ax.C13
open Ax

/-- the heap area is where the bookkeeping says: once initialised, the first area starting at
    `start` has exactly `len` bytes and is readable and writable -/
def HeapInv (st : BrkState) : Prop :=
  st.mem.WF ∧ NoOverlap st.mem ∧
  (st.start ≠ 0 → ∃ i, areaIndex st.mem st.start = some i ∧ ∃ hi : i < st.mem.length,
      st.mem[i].len = st.len ∧ st.mem[i].access = PROT_READ ||| PROT_WRITE)

theorem areaIndex_append_new (m : Mem) (ar : Area) (h : ∀ x ∈ m, x.start ≠ ar.start) :
    areaIndex (m ++ [ar]) ar.start = some m.length := by
  unfold areaIndex
  rw [List.findIdx?_append]
  have : m.findIdx? (fun x => decide (x.start = ar.start)) = none := by
    apply List.findIdx?_eq_none_iff.mpr
    intro x hx; simpa using h x hx
  simp [this]

/-- the lazily created heap satisfies the invariant -/
theorem init_heap (m : Mem) (hm : m.WF) (hno : NoOverlap m) (a : Nat) (m' : Mem)
    (h : initZeroAnywhere m 0x1000 = .ok (a, m')) :
    HeapInv { mem := m', start := a, len := 0x1000 } ∧ 0x1000 ≤ a := by
  obtain ⟨hm', hwf, hno'⟩ := Ax.C10.zero_anywhere_fresh m hm hno 0x1000 a m' h
  have hge : 0x1000 ≤ a := (Ax.C10.anywhereFrom_ok m _ none _ a m' h).1
  refine ⟨⟨hwf, hno', fun _ => ?_⟩, hge⟩
  subst hm'
  -- no existing area starts at `a`: it would collide with the new 0x1000-byte area
  have hcol := (Ax.C10.initArea_ok m a (zeros 0x1000) none _
    (Ax.C10.anywhereFrom_ok m _ none _ a _ h).2.2).2.2
  have hns : ∀ x ∈ m, x.start ≠ a := by
    intro x hx e
    have := hcol x hx
    simp only [collides, zeros, List.length_replicate, Bool.or_eq_false_iff, Bool.and_eq_false_iff,
      decide_eq_false_iff_not] at this
    omega
  refine ⟨m.length, ?_, by simp, ?_, ?_⟩
  · have := areaIndex_append_new m { name := none, start := a, len := 0x1000, data := zeros 0x1000, access := PROT_READ ||| PROT_WRITE } hns
    simpa using this
  · simp
  · simp

theorem brkInit_inv (st s1 : BrkState) (h : HeapInv st) (hi : brkInit st = .ok s1) : HeapInv s1 ∧ s1.start ≠ 0 := by
  unfold brkInit at hi
  split at hi
  · cases hz : initZeroAnywhere st.mem 0x1000 with
    | err => simp [hz] at hi
    | panic => simp [hz] at hi
    | ok r =>
      obtain ⟨a, m⟩ := r
      simp only [hz, Out.ok.injEq] at hi
      subst hi
      have := init_heap st.mem h.1 h.2.1 a m hz
      exact ⟨this.1, by have := this.2; simp only; omega⟩
  · simp only [Out.ok.injEq] at hi; subst hi; exact ⟨h, by assumption⟩

theorem brkMove_inv (s1 : BrkState) (arg : Nat) (h1 : HeapInv s1) (hne : s1.start ≠ 0) :
    match brkMove s1 arg with
    | .ok _ st' => HeapInv st' ∧ st'.start ≠ 0
    | .err st' => HeapInv st'
    | .panic => True := by
  unfold brkMove
  by_cases hlt : arg < s1.start
  · simp only [hlt, if_true]
    cases u64add s1.start s1.len <;> simp [h1, hne]
  · simp only [hlt, if_false]
    cases hr : resizeSection s1.mem s1.start (arg - s1.start) with
    | err => exact h1
    | panic => trivial
    | ok m =>
      simp only
      cases u64add s1.start (arg - s1.start) with
      | none => trivial
      | some b =>
        simp only
        refine ⟨⟨?_, ?_, fun _ => ?_⟩, hne⟩
        · exact (Ax.C10.resize_preserves s1.mem h1.1 h1.2.1 _ _ m hr).1
        · exact (Ax.C10.resize_preserves s1.mem h1.1 h1.2.1 _ _ m hr).2
        · obtain ⟨i, hi, hil, hlen, hkeep, hmod⟩ := Ax.C10.resize_prefix_zero s1.mem s1.start _ m hr
          obtain ⟨j, hj, hjl, _, hacc⟩ := h1.2.2 hne
          have hij : j = i := by rw [hi] at hj; exact (Option.some.inj hj).symm
          subst hij
          have hi' : j < m.length := by omega
          obtain ⟨hs, hl, ha, _, _⟩ := hmod hi'
          refine ⟨j, ?_, hi', hl, ?_⟩
          · -- still the first area with this start: earlier areas are unchanged
            unfold areaIndex at hi ⊢
            obtain ⟨_, _, hbefore⟩ := List.findIdx?_eq_some_iff_getElem.mp hi
            apply List.findIdx?_eq_some_iff_getElem.mpr
            refine ⟨hi', by simpa using hs, ?_⟩
            intro k hk
            have hk1 : k < s1.mem.length := by omega
            have := hkeep k hk1 (by omega) (by omega)
            rw [this]
            exact hbefore k hk
          · rw [ha]; exact hacc

/-- **Every call preserves the invariants** (memory well-formed, no overlap, heap where the
    bookkeeping says) — whether it succeeds or fails. -/
theorem brk_preserves (st : BrkState) (arg : Nat) (h : HeapInv st) :
    match brkCall st arg with
    | .ok _ st' => HeapInv st' ∧ st'.start ≠ 0
    | .err st' => HeapInv st'
    | .panic => True := by
  unfold brkCall
  cases hi : brkInit st with
  | err => exact h
  | panic => trivial
  | ok s1 =>
    obtain ⟨h1, hne⟩ := brkInit_inv st s1 h hi
    exact brkMove_inv s1 arg h1 hne

/-- **brk(0)** — and any argument below the heap start — **returns the current break** and moves nothing. -/
theorem brk_query (st : BrkState) (arg : Nat) (hs : st.start ≠ 0) (ha : arg < st.start)
    (hfit : st.start + st.len < U64) :
    brkCall st arg = .ok (st.start + st.len) st := by
  simp [brkCall, brkInit, brkMove, hs, ha, u64add, hfit]

/-- **brk(p) with p at or above the heap start moves the break to p and returns p** whenever the new
    extent is free (`resize_iff` says exactly when). -/
theorem brk_set (st : BrkState) (arg : Nat) (hs : st.start ≠ 0) (ha : st.start ≤ arg) (harg : arg < U64)
    (m : Mem) (hr : resizeSection st.mem st.start (arg - st.start) = .ok m) :
    brkCall st arg = .ok arg { st with mem := m, len := arg - st.start } := by
  have : ¬ arg < st.start := by omega
  have e : st.start + (arg - st.start) = arg := by omega
  simp [brkCall, brkInit, brkMove, hs, this, hr, u64add, e, harg]

/-! ## the first call (the one that creates the heap) is an ordinary call on a fresh one-page heap -/

/-- **The call that creates the heap obeys its argument like every other call**: with no heap yet (`start = 0` is the
    "not created" sentinel — it is the *bookkeeping* that decides, never the presence of some area, e.g. one at address 0)
    the call first creates a fresh 0x1000-byte area at an address `a ≥ 0x1000` that collides with nothing and then behaves
    exactly as `brk(arg)` on that heap. -/
theorem brk_first_call (st : BrkState) (arg a : Nat) (m : Mem) (h0 : st.start = 0)
    (hz : initZeroAnywhere st.mem 0x1000 = .ok (a, m)) :
    brkCall st arg = brkMove { mem := m, start := a, len := 0x1000 } arg := by
  simp [brkCall, brkInit, h0, hz]

/-- first call as a query: brk(0), or anything below the new heap, reports base + 0x1000 -/
theorem brk_first_query (st : BrkState) (arg a : Nat) (m : Mem) (h0 : st.start = 0)
    (hz : initZeroAnywhere st.mem 0x1000 = .ok (a, m)) (ha : arg < a) (hfit : a + 0x1000 < U64) :
    brkCall st arg = .ok (a + 0x1000) { mem := m, start := a, len := 0x1000 } := by
  rw [brk_first_call st arg a m h0 hz]
  simp [brkMove, ha, u64add, hfit]

/-- first call with an address inside or above the new heap: the break moves there at once (no query needed before) -/
theorem brk_first_set (st : BrkState) (arg a : Nat) (m m' : Mem) (h0 : st.start = 0)
    (hz : initZeroAnywhere st.mem 0x1000 = .ok (a, m)) (ha : a ≤ arg) (harg : arg < U64)
    (hr : resizeSection m a (arg - a) = .ok m') :
    brkCall st arg = .ok arg { mem := m', start := a, len := arg - a } := by
  rw [brk_first_call st arg a m h0 hz]
  have : ¬ arg < a := by omega
  have e : a + (arg - a) = arg := by omega
  simp [brkMove, this, hr, u64add, e, harg]

/-- with a heap in place (`start ≠ 0`) no area is ever created, whatever else is mapped (also at address 0) -/
theorem brk_later_calls_create_nothing (st : BrkState) (arg : Nat) (hs : st.start ≠ 0) :
    brkCall st arg = brkMove st arg := by
  simp [brkCall, brkInit, hs]

/-- a write into one readable-writable area of a well-formed, overlap-free memory succeeds -/
theorem write_ok_in_area (m : Mem) (hm : m.WF) (hno : NoOverlap m) (ar : Area) (har : ar ∈ m) (a : Nat) (bs : List Byte)
    (hc : ar.start ≤ a) (hle : a + bs.length ≤ ar.start + ar.len) (hpos : 0 < bs.length)
    (hp : hasPerm ar.access PROT_WRITE = true) : ∃ m', memWriteBytes m a bs = .ok m' := by
  induction m with
  | nil => cases har
  | cons b rest ih =>
    have hp' := List.pairwise_cons.mp hno
    have hca : ar.contains a = true := by rw [contains_iff]; omega
    unfold memWriteBytes
    by_cases hb : b.contains a = true
    · have : b = ar := by
        rcases List.mem_cons.mp har with rfl | hin
        · rfl
        · exact absurd ⟨hb, hca⟩ (disjoint_not_both (hp'.1 ar hin) a)
      subst this
      have hwf := (hm b (List.mem_cons_self ..)).1
      simp only [hb, if_true]
      have h1 : ¬ b.len - (a - b.start) < bs.length := by omega
      have h3 : a - b.start + bs.length ≤ b.data.length := by omega
      simp [h1, hp, h3]
    · have hb' : b.contains a = false := by simpa using hb
      simp only [hb', Bool.false_eq_true, if_false]
      rcases List.mem_cons.mp har with rfl | hin
      · exact absurd hca hb
      · obtain ⟨m', hm'⟩ := ih (fun x hx => hm x (List.mem_cons_of_mem _ hx)) hp'.2 hin
        simp [hm']

/-- **Every byte between the heap start and the break is readable and writable** by guest
    instructions (which go through `memReadBytes` / `memWriteBytes`). -/
theorem heap_rw (st : BrkState) (h : HeapInv st) (hs : st.start ≠ 0) (a : Nat) (bs : List Byte)
    (hlo : st.start ≤ a) (hhi : a + bs.length ≤ st.start + st.len) (hpos : 0 < bs.length) :
    (∃ out, memReadBytes st.mem a bs.length = .ok out) ∧ (∃ m', memWriteBytes st.mem a bs = .ok m') := by
  obtain ⟨i, hi, hil, hlen, hacc⟩ := h.2.2 hs
  obtain ⟨_, hst, _⟩ := List.findIdx?_eq_some_iff_getElem.mp hi
  simp only [decide_eq_true_eq] at hst
  have hin : st.mem[i] ∈ st.mem := List.getElem_mem _
  constructor
  · apply (Ax.C08.read_ok_iff st.mem h.1 a bs.length).mpr
    refine ⟨st.mem[i], findArea_of_mem h.2.1 hin (by rw [contains_iff]; omega), by omega, ?_⟩
    rw [hacc]; decide
  · exact write_ok_in_area st.mem h.1 h.2.1 st.mem[i] hin a bs (by omega) (by omega) hpos (by rw [hacc]; decide)

/-- **The heap keeps what was written before the break moved**: the bytes below both the old and the
    new break are unchanged by a successful brk(p). -/
theorem heap_keeps_prefix (st : BrkState) (h : HeapInv st) (hs : st.start ≠ 0) (arg : Nat) (ret : Nat) (st' : BrkState)
    (hc : brkCall st arg = .ok ret st') (x : Nat) (hx : st.start ≤ x) (hx1 : x < st.start + st.len)
    (hx2 : x < st'.start + st'.len) :
    byteAt st'.mem x = byteAt st.mem x := by
  simp only [brkCall, brkInit, hs, if_false, brkMove] at hc
  by_cases hlt : arg < st.start
  · simp only [hlt, if_true] at hc
    cases hu : u64add st.start st.len with
    | none => simp [hu] at hc
    | some b => simp only [hu, BrkOut.ok.injEq] at hc; rw [← hc.2]
  · simp only [hlt, if_false] at hc
    cases hr : resizeSection st.mem st.start (arg - st.start) with
    | err => simp [hr] at hc
    | panic => simp [hr] at hc
    | ok m =>
      simp only [hr] at hc
      cases hu : u64add st.start (arg - st.start) with
      | none => simp [hu] at hc
      | some b =>
        simp only [hu, BrkOut.ok.injEq] at hc
        obtain ⟨_, rfl⟩ := hc
        simp only at hx2 ⊢
        obtain ⟨i, hi, hil, hlen, hkeep, hmod⟩ := Ax.C10.resize_prefix_zero st.mem st.start _ m hr
        obtain ⟨j, hj, _, hjlen, _⟩ := h.2.2 hs
        have hij : j = i := by rw [hi] at hj; exact (Option.some.inj hj).symm
        subst hij
        have hi' : j < m.length := by omega
        obtain ⟨hs', hl', _, _, hdata⟩ := hmod hi'
        obtain ⟨_, hst, _⟩ := List.findIdx?_eq_some_iff_getElem.mp hi
        simp only [decide_eq_true_eq] at hst
        have hno' := (Ax.C10.resize_preserves st.mem h.1 h.2.1 _ _ m hr).2
        have f1 : findArea st.mem x = some st.mem[j] :=
          findArea_of_mem h.2.1 (List.getElem_mem _) (by rw [contains_iff]; omega)
        have f2 : findArea m x = some m[j] :=
          findArea_of_mem hno' (List.getElem_mem _) (by rw [contains_iff]; omega)
        simp only [byteAt, f1, f2, hs', hst]
        rw [hdata]
        have hwf := (h.1 st.mem[j] (List.getElem_mem _)).1
        have h1 : x - st.start < arg - st.start := by omega
        have h2 : x - st.start < st.mem[j].data.length := by omega
        simp [h1, h2]

/-! ## Non-vacuity: query, grow, shrink on a layout with a neighbour right behind the search start -/
def exSt : BrkState :=
  { mem := [{ name := none, start := 0x400000, len := 2, data := [0x0f, 0x05], access := 5 }], start := 0, len := 0 }

example : HeapInv exSt := ⟨by intro a h; simp [exSt] at h; subst h; simp [Area.WF, U64], by simp [NoOverlap, exSt],
  by simp [exSt]⟩

end Ax.C13
