/-
  C02 — status flags after every instruction match the architecture where it defines them.

  Architectural definitions (Intel SDM vol. 1 §3.4.3.1, vol. 2 per instruction) are stated with
  `toNat`/`toInt` arithmetic through core's `BitVec.uaddOverflow`, `saddOverflow`, `usubOverflow`,
  `ssubOverflow` (whose definitions are literally "unsigned sum ≥ 2^w" and "signed result outside
  [−2^(w−1), 2^(w−1))"), and compared with the emulator's bit tricks for all operands, all four
  operand widths, all incoming flag words and all 256 shift counts.
-/
import AxVerif.Model.Exec
import Std.Tactic.BVDecide
namespace Ax.C02
open Ax

/-- is a flag bit set in a flag word? -/
def has (f m : BitVec 64) : Bool := f &&& m != 0

/-! ## the flag macro -/

/-- **Parity**: the counting loop of `set_flags!` is the xor of the low eight result bits. -/
theorem parity_loop_eq_8 (r : BitVec 8) :
    parityEven r = !(r.getLsbD 0 ^^ r.getLsbD 1 ^^ r.getLsbD 2 ^^ r.getLsbD 3 ^^ r.getLsbD 4 ^^ r.getLsbD 5 ^^ r.getLsbD 6 ^^ r.getLsbD 7) := by
  revert r; decide

theorem parityEven_low8 {w : Nat} (r : BitVec w) : parityEven r = parityEven (r.setWidth 8) := by
  unfold parityEven
  have : (List.range 8).filter (fun i => r.getLsbD i) = (List.range 8).filter (fun i => (r.setWidth 8).getLsbD i) := by
    apply List.filter_congr
    intro i hi
    simp only [List.mem_range] at hi
    simp [BitVec.getLsbD_setWidth, hi]
  rw [this]

/-- **Unaffected**: with `FLAGS_UNAFFECTED` the flag word is returned as it is (MOV, LEA, NOT, MOVZX,
    MOVSXD, CMOVcc, SETcc, shifts by a masked count of 0 …). -/
theorem unaffected_kept {w : Nat} (clear : BitVec 64) (r : BitVec w) (rflags : BitVec 64) :
    setFlags FLAGS_UNAFFECTED clear r rflags = .ok rflags := by
  simp [setFlags]

/-- a set mask of an ALU family: SF, ZF, PF requested, plus CF/OF from the operation
    (`nw`: CMP/TEST additionally carry the NO_WRITEBACK marker bit) -/
def aluSet (nw : Bool) (fl : BitVec 64) : BitVec 64 := (if nw then NO_WRITEBACK else 0) ||| SZP ||| (fl &&& CO)

/-- **What the macro computes** for the ALU masks (set ⊇ SF|ZF|PF, clear = CF|OF, operation flags ⊆ CF|OF):
    ZF ⇔ result = 0, SF ⇔ sign bit, PF ⇔ even parity of the low byte, CF/OF exactly as the operation
    reported, and every other bit of RFLAGS (AF, DF, TF, IF, …) unchanged (bit 63, which is reserved
    and always 0, is cleared by the NO_WRITEBACK marker). -/
theorem setFlags_alu {w : Nat} (nw : Bool) (fl : BitVec 64) (r : BitVec w) (rflags : BitVec 64) :
    ∃ f, setFlags (aluSet nw fl) CO r rflags = .ok f ∧
      has f FLAG_ZF = decide (r = 0) ∧ has f FLAG_SF = r.msb ∧ has f FLAG_PF = parityEven r ∧
      has f FLAG_CF = has fl FLAG_CF ∧ has f FLAG_OF = has fl FLAG_OF ∧
      f &&& ~~~(SZP ||| CO ||| NO_WRITEBACK) = rflags &&& ~~~(SZP ||| CO ||| NO_WRITEBACK) := by
  unfold setFlags aluSet
  have hne : ((if nw then NO_WRITEBACK else 0) ||| SZP ||| fl &&& CO) ≠ FLAGS_UNAFFECTED := by
    cases nw <;> simp only [NO_WRITEBACK, SZP, CO, FLAG_SF, FLAG_ZF, FLAG_PF, FLAG_CF, FLAG_OF, FLAGS_UNAFFECTED] <;> bv_decide
  have hass : (((if nw then NO_WRITEBACK else 0) ||| SZP ||| fl &&& CO) &&& FLAGS_ASSERTED != 0) = false := by
    cases nw <;> simp only [NO_WRITEBACK, SZP, CO, FLAG_SF, FLAG_ZF, FLAG_PF, FLAG_CF, FLAG_OF, FLAGS_ASSERTED] <;> bv_decide
  simp only [hne, if_false, hass, Bool.false_eq_true]
  refine ⟨_, rfl, ?_⟩
  generalize hz : decide (r = 0) = z
  generalize hs : r.msb = sg
  generalize hp : parityEven r = pe
  have hz' : (r = 0) = (z = true) := by rw [← hz]; simp
  simp only [hz']
  simp only [has, NO_WRITEBACK, SZP, CO, FLAG_SF, FLAG_ZF, FLAG_PF, FLAG_CF, FLAG_OF]
  cases nw <;> cases z <;> cases sg <;> cases pe <;> simp <;> bv_decide

/-! ## ADD / ADC / SUB / CMP / INC / DEC / NEG: the carry and overflow tricks are the architecture's -/

section
variable (w : Nat)

/-- ADD: CF ⇔ unsigned overflow, OF ⇔ signed overflow; result is the wrapped sum. -/
def AddSpec : Prop := ∀ d s : BitVec w,
  (opAdd d s).1 = d + s ∧
  has (opAdd d s).2 FLAG_CF = BitVec.uaddOverflow d s ∧
  has (opAdd d s).2 FLAG_OF = BitVec.saddOverflow d s ∧
  (opAdd d s).2 &&& ~~~CO = 0

/-- SUB/CMP: CF ⇔ borrow (d <ᵤ s), OF ⇔ signed overflow of d − s. -/
def SubSpec : Prop := ∀ d s : BitVec w,
  (opSub d s).1 = d - s ∧
  has (opSub d s).2 FLAG_CF = BitVec.usubOverflow d s ∧
  has (opSub d s).2 FLAG_OF = BitVec.ssubOverflow d s ∧
  (opSub d s).2 &&& ~~~CO = 0

/-- ADC: result d + s + carry-in; CF ⇔ the unsigned sum with the carry does not fit; OF ⇔ the signed
    sum with the carry does not fit (stated on the (w+1)-bit exact sums). -/
def AdcSpec : Prop := ∀ (c : Bool) (d s : BitVec w),
  (opAdc c d s).1 = d + s + (if c then 1 else 0) ∧
  has (opAdc c d s).2 FLAG_CF =
    (d.setWidth (w + 1) + s.setWidth (w + 1) + (if c then 1 else 0)).getLsbD w ∧
  has (opAdc c d s).2 FLAG_OF =
    (((d.signExtend (w + 1) + s.signExtend (w + 1) + (if c then 1 else 0)).getLsbD w) !=
     ((d.signExtend (w + 1) + s.signExtend (w + 1) + (if c then 1 else 0)).getLsbD (w - 1))) ∧
  (opAdc c d s).2 &&& ~~~CO = 0

/-- INC/DEC: CF untouched (never reported), OF ⇔ signed overflow of ±1. -/
def IncDecSpec : Prop := ∀ v : BitVec w,
  (opInc v).1 = v + 1 ∧ has (opInc v).2 FLAG_OF = BitVec.saddOverflow v 1 ∧ (opInc v).2 &&& ~~~FLAG_OF = 0 ∧
  (opDec v).1 = v - 1 ∧ has (opDec v).2 FLAG_OF = BitVec.ssubOverflow v 1 ∧ (opDec v).2 &&& ~~~FLAG_OF = 0

/-- NEG: result 0 − v; CF ⇔ v ≠ 0; OF ⇔ v is the most negative value. -/
def NegSpec : Prop := ∀ v : BitVec w,
  (opNeg v).1 = 0 - v ∧ has (opNeg v).2 FLAG_CF = (v != 0) ∧
  has (opNeg v).2 FLAG_OF = BitVec.ssubOverflow 0 v ∧ (opNeg v).2 &&& ~~~CO = 0
end

macro "alu_tac" : tactic => `(tactic|
  (intros
   simp only [opAdd, opSub, opAdc, opInc, opDec, opNeg, has, flagIf, CO, FLAG_CF, FLAG_OF, BitVec.twoPow]
   refine ⟨?_, ?_, ?_, ?_⟩ <;> bv_decide))

theorem add_spec_8 : AddSpec 8 := by unfold AddSpec; alu_tac
theorem add_spec_16 : AddSpec 16 := by unfold AddSpec; alu_tac
theorem add_spec_32 : AddSpec 32 := by unfold AddSpec; alu_tac
theorem add_spec_64 : AddSpec 64 := by unfold AddSpec; alu_tac

theorem sub_spec_8 : SubSpec 8 := by unfold SubSpec; alu_tac
theorem sub_spec_16 : SubSpec 16 := by unfold SubSpec; alu_tac
theorem sub_spec_32 : SubSpec 32 := by unfold SubSpec; alu_tac
theorem sub_spec_64 : SubSpec 64 := by unfold SubSpec; alu_tac

theorem adc_spec_8 : AdcSpec 8 := by unfold AdcSpec; intro c; cases c <;> alu_tac
theorem adc_spec_16 : AdcSpec 16 := by unfold AdcSpec; intro c; cases c <;> alu_tac
theorem adc_spec_32 : AdcSpec 32 := by unfold AdcSpec; intro c; cases c <;> alu_tac
theorem adc_spec_64 : AdcSpec 64 := by unfold AdcSpec; intro c; cases c <;> alu_tac

macro "incdec_tac" : tactic => `(tactic|
  (intros
   simp only [opInc, opDec, has, flagIf, FLAG_OF]
   refine ⟨?_, ?_, ?_, ?_, ?_, ?_⟩ <;> bv_decide))

theorem incdec_spec_8 : IncDecSpec 8 := by unfold IncDecSpec; incdec_tac
theorem incdec_spec_16 : IncDecSpec 16 := by unfold IncDecSpec; incdec_tac
theorem incdec_spec_32 : IncDecSpec 32 := by unfold IncDecSpec; incdec_tac
theorem incdec_spec_64 : IncDecSpec 64 := by unfold IncDecSpec; incdec_tac

theorem neg_spec_8 : NegSpec 8 := by unfold NegSpec; alu_tac
theorem neg_spec_16 : NegSpec 16 := by unfold NegSpec; alu_tac
theorem neg_spec_32 : NegSpec 32 := by unfold NegSpec; alu_tac
theorem neg_spec_64 : NegSpec 64 := by unfold NegSpec; alu_tac

/-! ## shifts: every count 0–255 -/

/-- masked count of a `w`-bit shift -/
def maskedCount (w : Nat) (s : BitVec 8) : Nat := (s &&& (if w = 64 then 0x3f else 0x1f)).toNat

section
variable (w : Nat)

/-- SHL/SHR for every count byte: a masked count of 0 changes nothing (operand kept, flags
    unaffected); otherwise the result is the logical shift (0 once the count reaches the width),
    CF is the last bit shifted out for counts up to the width, and OF — defined only for a 1-bit
    shift — is MSB(result) xor CF (SHL) resp. the operand's MSB (SHR). -/
def ShiftSpec : Prop := ∀ (d : BitVec w) (s : BitVec 8),
  (maskedCount w s = 0 → opShl d s = (d, FLAGS_UNAFFECTED) ∧ opShr d s = (d, FLAGS_UNAFFECTED)) ∧
  (maskedCount w s ≠ 0 →
    (opShl d s).1 = d <<< maskedCount w s ∧ (opShr d s).1 = d >>> maskedCount w s ∧
    (maskedCount w s ≤ w →
      has (opShl d s).2 FLAG_CF = d.getLsbD (w - maskedCount w s) ∧
      has (opShr d s).2 FLAG_CF = d.getLsbD (maskedCount w s - 1)) ∧
    (maskedCount w s = 1 →
      has (opShl d s).2 FLAG_OF = ((d <<< 1).msb != d.msb) ∧
      has (opShr d s).2 FLAG_OF = d.msb))
end

theorem shift_spec (w : Nat) (hw : w = 8 ∨ w = 16 ∨ w = 32 ∨ w = 64) : ShiftSpec w := by
  intro d s
  have hw0 : 0 < w := by omega
  constructor
  · intro h0
    simp [opShl, opShr, maskedCount] at h0 ⊢
    simp [h0]
  · intro hne
    simp only [maskedCount] at hne ⊢
    generalize hc : (s &&& (if w = 64 then 0x3f else 0x1f)).toNat = c at hne ⊢
    refine ⟨?_, ?_, ?_, ?_⟩
    · simp only [opShl, hc, hne, if_false]
      split
      · rfl
      · rename_i hge
        apply BitVec.eq_of_getLsbD_eq
        intro i hi
        simp [BitVec.getLsbD_shiftLeft]
        omega
    · simp only [opShr, hc, hne, if_false]
      split
      · rfl
      · rename_i hge
        apply BitVec.eq_of_getLsbD_eq
        intro i hi
        rw [BitVec.getLsbD_ushiftRight, BitVec.getLsbD_of_ge d (c + i) (by omega)]
        simp
    · intro hle
      simp only [opShl, opShr, hc, hne, if_false, has]
      have : decide (c ≤ w) = true := by simpa using hle
      simp only [this, Bool.true_and]
      constructor
      · generalize d.getLsbD (w - c) = cf
        generalize (decide (c = 1) && ((if c < w then d <<< c else 0#w).msb != cf)) = ofb
        cases cf <;> cases ofb <;> decide
      · generalize d.getLsbD (c - 1) = cf
        generalize (decide (c = 1) && d.msb) = ofb
        cases cf <;> cases ofb <;> decide
    · intro h1
      subst h1
      simp only [opShl, opShr, hc, has]
      have h1w : (1 < w) = True := by simp; omega
      have h1le : decide (1 ≤ w) = true := by simp; omega
      simp only [Nat.one_ne_zero, if_false, h1w, if_true, h1le, Bool.true_and, decide_true, Nat.sub_self]
      have hmsb : d.getLsbD (w - 1) = d.msb := by
        simp [BitVec.msb_eq_getLsbD_last]
      rw [hmsb]
      constructor
      · generalize (d <<< 1).msb = a
        generalize d.msb = b
        cases a <;> cases b <;> decide
      · generalize d.getLsbD 0 = a
        generalize d.msb = b
        cases a <;> cases b <;> decide

/-! ## Non-vacuity -/
example : has (opAdd (0xff#8) (0x01#8)).2 FLAG_CF = true ∧ has (opAdd (0x7f#8) (0x01#8)).2 FLAG_OF = true := by decide
example : maskedCount 32 0x20#8 = 0 ∧ maskedCount 64 0x20#8 = 32 := by decide

end Ax.C02
