/-
  C04 — stack instructions move RSP by the operand size and transfer exactly the operand at the
  architectural address.

  **The full statement is false of the pinned code and cannot be repaired without editing the
  pinned test-suite** (known finding `C04-slot-shift`): PUSH/CALL store at the *old* RSP and then
  decrement; POP/RET load from RSP + size.  Every slot therefore lives `size` bytes above where the
  architecture puts it.  `full_claim_false` proves the negation on a concrete machine (the same
  witness is replayed against the implementation and a real CPU by corpus/C04/push-slot-shift.case).

  What does hold — and is proved here for all states — is the partial statement:
    * RSP moves by exactly ∓size, modulo 2^64 (`push_rsp`, `pop_rsp`),
    * PUSH stores exactly the operand, nothing else in memory changes (`push_stores`),
    * the slot convention is self-consistent: PUSH v; POP r gives r = v and restores RSP
      (`push_pop_lifo`), CALL t; RET returns to the pushed next-RIP (`call_ret_roundtrip`),
    * RET at the initial stack top is the normal-finish signal, not an error (`ret_top_level`),
    * failed pushes change nothing (`push_err_nothing`).
-/
import AxVerif.Lemmas.Frame
import AxVerif.Props.C08
namespace Ax.C04
open Ax

/-- the load a `POP`/`RET` of `n` bytes performs -/
def popAddr (s : Machine) (n : Nat) : BitVec 64 := s.regs.get RSP + BitVec.ofNat 64 n

/-- **PUSH: RSP moves down by exactly the operand size** (mod 2^64), no other register changes. -/
theorem push_rsp (s s' : Machine) (n : Nat) (v : BitVec 64) (h : pushVal s n v = .ok s') :
    s'.regs.get RSP = s.regs.get RSP - BitVec.ofNat 64 n ∧
    (∀ j : Fin 16, j ≠ RSP → s'.regs.get j = s.regs.get j) ∧ s'.regs.rip = s.regs.rip ∧ s'.rflags = s.rflags := by
  simp only [pushVal] at h
  split at h
  · rename_i s1 h1
    simp only [Out.ok.injEq] at h
    subst h
    unfold writeMem Machine.withMem at h1
    split at h1
    · simp only [Out.ok.injEq] at h1
      subst h1
      refine ⟨by simp [Regs.get_set_self], ?_, by simp [Regs.set], by simp⟩
      intro j hj
      simp [Regs.get_set_ne _ _ _ _ (Ne.symm hj)]
    · cases h1
    · cases h1
  · cases h
  · cases h

/-- **PUSH stores exactly the operand** (little-endian, `n` bytes, at the model's slot address) and
    is otherwise a typed memory write: C08's `write_spec` gives "nothing else changes". -/
theorem push_stores (s s' : Machine) (n : Nat) (v : BitVec 64) (h : pushVal s n v = .ok s') :
    memWriteN s.mem (8 * n / 8) (s.regs.get RSP).toNat v.toNat = .ok s'.mem := by
  simp only [pushVal] at h
  split at h
  · rename_i s1 h1
    simp only [Out.ok.injEq] at h
    subst h
    unfold writeMem Machine.withMem at h1
    split at h1
    · rename_i m hm
      simp only [Out.ok.injEq] at h1
      subst h1
      exact hm
    · cases h1
    · cases h1
  · cases h
  · cases h

/-- a push that fails leaves no trace: the result carries no state at all -/
theorem push_err_nothing (s : Machine) (n : Nat) (v : BitVec 64) (h : pushVal s n v = .err) :
    memWriteN s.mem (8 * n / 8) (s.regs.get RSP).toNat v.toNat = .err := by
  simp only [pushVal] at h
  split at h
  · cases h
  · rename_i h1
    unfold writeMem Machine.withMem at h1
    split at h1
    · cases h1
    · assumption
    · cases h1
  · cases h

/-- **LIFO**: what PUSH stored is what the matching POP loads, and RSP is back where it was —
    for every machine with well-formed memory, every RSP (wrap-around included) and every value. -/
theorem push_pop_lifo (s s' : Machine) (n : Nat) (hn : n = 2 ∨ n = 4 ∨ n = 8) (v : BitVec 64)
    (hm : s.mem.WF) (hno : NoOverlap s.mem)
    (h : pushVal s n v = .ok s') (v' : BitVec 64) (hr : readMem s' (8 * n) (popAddr s' n) = .ok v') :
    v' = v ∧ popAddr s' n = s.regs.get RSP := by
  have hrsp := (push_rsp s s' n v h).1
  have hst := push_stores s s' n v h
  have haddr : popAddr s' n = s.regs.get RSP := by
    unfold popAddr
    rw [hrsp]
    generalize s.regs.get RSP = x
    generalize BitVec.ofNat 64 n = y
    bv_omega
  refine ⟨?_, haddr⟩
  rw [haddr] at hr
  unfold readMem at hr
  split at hr
  · rename_i x hx
    simp only [Out.ok.injEq] at hr
    have := C08.typed_write_read s.mem hm hno _ _ _ _ hst x hx
    subst hr
    rw [this]
    simp
  · cases hr
  · cases hr

/-- **CALL; RET** returns to the address CALL pushed (the RIP after the CALL instruction). -/
theorem call_ret_roundtrip (s s1 : Machine) (hm : s.mem.WF) (hno : NoOverlap s.mem)
    (h : pushRip s = .ok s1) (v' : BitVec 64) (hr : readMem s1 64 (s1.regs.get RSP + 8) = .ok v') :
    v' = s.regs.rip := by
  have := push_pop_lifo s s1 8 (by simp) s.regs.rip hm hno h v' (by simpa [popAddr] using hr)
  exact this.1

/-! ## through the dispatch: `push ra ; pop rc` -/

theorem lookup_push64 : lookup "Push_r64" = some (.pushR 8) := by decide +kernel
theorem lookup_pop64 : lookup "Pop_r64" = some (.popR 8) := by decide +kernel

/-- **`push ra` followed by `pop rc`, from decoded instructions**: for every machine satisfying the memory invariants,
    every RSP (wrap-around included) and every pair of registers with rc ≠ RSP, whenever both instructions succeed rc
    holds what ra held and RSP is back where it was. -/
theorem push_then_pop (hh : HasHooks) (i1 i2 : Instr) (s s1 s2 : Machine) (ra rc : Fin 16)
    (hm : s.mem.WF) (hno : NoOverlap s.mem)
    (hc1 : i1.code = "Push_r64") (hop1 : i1.op0 = some (.reg (.reg (.g64 ra))))
    (hc2 : i2.code = "Pop_r64") (hop2 : i2.op0 = some (.reg (.reg (.g64 rc)))) (hrc : rc ≠ RSP)
    (h1 : exec hh i1 s = .ok s1) (h2 : exec hh i2 s1 = .ok s2) :
    s2.regs.get rc = s.regs.get ra ∧ s2.regs.get RSP = s.regs.get RSP := by
  have hrow1 : lookup i1.code = some (.pushR 8) := by rw [hc1]; exact lookup_push64
  have hrow2 : lookup i2.code = some (.popR 8) := by rw [hc2]; exact lookup_pop64
  -- the push
  unfold exec at h1
  simp only [hrow1, hop1, RegSpec.toSupported, readReg, regReadW, regRead64] at h1
  have hp : pushVal s 8 (s.regs.get ra) = .ok s1 := by
    cases hpv : pushVal s 8 (s.regs.get ra) with
    | err => simp [hpv, ExecRes.ofOut] at h1
    | panic => simp [hpv, ExecRes.ofOut] at h1
    | ok x => simp only [hpv, ExecRes.ofOut, ExecRes.ok.injEq] at h1; rw [h1]
  -- the pop
  unfold exec at h2
  simp only [hrow2, hop2, RegSpec.toSupported] at h2
  cases hr : readMem s1 (8 * 8) (s1.regs.get RSP + BitVec.ofNat 64 8) with
  | err => simp [hr, ExecRes.ofOut] at h2
  | panic => simp [hr, ExecRes.ofOut] at h2
  | ok v =>
    simp only [hr, writeReg, regWriteW, regWrite64, ExecRes.ofOut, ExecRes.ok.injEq] at h2
    obtain ⟨hv, haddr⟩ := push_pop_lifo s s1 8 (by simp) (s.regs.get ra) hm hno hp v (by simpa [popAddr] using hr)
    subst h2
    simp only [popAddr] at haddr
    constructor
    · simp [hv]
    · rw [Regs.get_set_ne _ _ _ _ hrc]
      simp [haddr]

/-- **RET at the initial stack top** is the normal-finish signal; below it RET never "finishes". -/
theorem ret_top_level (s : Machine) (i : Instr) :
    (execRet s i = .finish ↔ (s.regs.get RSP + 8).toNat = s.stackTop) := by
  simp only [execRet]
  by_cases h : (s.regs.get RSP + 8).toNat = s.stackTop
  · simp only [h, if_true]
  · simp only [h, if_false, iff_false]
    repeat' split
    all_goals simp

/-- RET pops: RSP moves up by 8 and RIP is the loaded value -/
theorem ret_rsp (s s' : Machine) (i : Instr) (h : execRet s i = .ok s') :
    s'.regs.get RSP = s.regs.get RSP + 8 ∧ readMem s 64 (s.regs.get RSP + 8) = .ok s'.regs.rip := by
  simp only [execRet] at h
  split at h
  · cases h
  · split at h
    · cases h
    · cases h
    · rename_i rip hrip
      split at h
      · cases h
      · cases h
      · simp only [ExecRes.ok.injEq] at h
        subst h
        refine ⟨by simp [Regs.get_set_self], ?_⟩
        rw [hrip]
        simp [setRip, Regs.set]

/-- a successful RET pops the shadow call stack -/
theorem ret_callstack (s s' : Machine) (i : Instr) (h : execRet s i = .ok s') :
    s'.callStack = s.callStack.dropLast := by
  simp only [execRet] at h
  split at h
  · cases h
  · split at h
    · cases h
    · cases h
    · split at h
      · cases h
      · cases h
      · rename_i s2 hs2
        simp only [ExecRes.ok.injEq] at h
        subst h
        simp only [addTrace, Out.ok.injEq] at hs2
        subst hs2
        simp [setRip]

/-- what a successful near CALL leaves: return address pushed, RIP at the target, the target on the call stack -/
theorem call_spec (s s1 : Machine) (i : Instr) (t : BitVec 64) (h : execCallTo s i t = .ok s1) :
    ∃ sp, pushRip s = .ok sp ∧ s1.mem = sp.mem ∧ s1.regs.gpr = sp.regs.gpr ∧ s1.regs.rip = t ∧
      s1.callStack = s.callStack ++ [t.toNat] := by
  unfold execCallTo at h
  cases hp : pushRip s with
  | err => simp [hp] at h
  | panic => simp [hp] at h
  | ok sp =>
    simp only [hp, addTrace, setRip, Out.ok.injEq] at h
    subst h
    refine ⟨sp, rfl, rfl, rfl, rfl, ?_⟩
    -- the push changes memory and RSP only
    have : sp.callStack = s.callStack := by
      simp only [pushRip, pushVal] at hp
      split at hp
      · rename_i s' hw
        simp only [Out.ok.injEq] at hp
        subst hp
        unfold writeMem Machine.withMem at hw
        split at hw
        · simp only [Out.ok.injEq] at hw; subst hw; rfl
        · cases hw
        · cases hw
      · cases hp
      · cases hp
    simp [this]

/-- **`call T` followed by `ret`, from decoded instructions**: the call goes to T with the return address (the RIP the
    step frame had already advanced to the next instruction) on the stack and T on the call stack; the RET — unless it is
    the top-level one — comes back to exactly that address with RSP and the call stack as they were before the call. -/
theorem call_then_ret (hh : HasHooks) (i1 i2 : Instr) (s s1 s2 : Machine)
    (hm : s.mem.WF) (hno : NoOverlap s.mem)
    (hl1 : lookup i1.code = some .callNear) (hl2 : lookup i2.code = some .ret)
    (h1 : exec hh i1 s = .ok s1) (h2 : exec hh i2 s1 = .ok s2) :
    s1.regs.rip = i1.nearBranch ∧ s1.callStack = s.callStack ++ [i1.nearBranch.toNat] ∧
    s2.regs.rip = s.regs.rip ∧ s2.regs.get RSP = s.regs.get RSP ∧ s2.callStack = s.callStack := by
  unfold exec at h1
  simp only [hl1] at h1
  split at h1
  · have hc : execCallTo s i1 i1.nearBranch = .ok s1 := by
      cases he : execCallTo s i1 i1.nearBranch with
      | err => simp [he, ExecRes.ofOut] at h1
      | panic => simp [he, ExecRes.ofOut] at h1
      | ok x => simp only [he, ExecRes.ofOut, ExecRes.ok.injEq] at h1; rw [h1]
    obtain ⟨sp, hp, hmem, hgpr, hrip, hcs⟩ := call_spec s s1 i1 _ hc
    have hrsp := (push_rsp s sp 8 s.regs.rip hp).1
    unfold exec at h2
    simp only [hl2] at h2
    obtain ⟨hr2, hread⟩ := ret_rsp s1 s2 i2 h2
    have hcs2 := ret_callstack s1 s2 i2 h2
    have hs1rsp : s1.regs.get RSP = sp.regs.get RSP := by simp [Regs.get, hgpr]
    -- the load the RET performs is the load after the push
    have hread' : readMem sp 64 (sp.regs.get RSP + 8) = .ok s2.regs.rip := by
      rw [hs1rsp] at hread
      simpa [readMem, hmem] using hread
    have hv := call_ret_roundtrip s sp hm hno hp s2.regs.rip hread'
    refine ⟨hrip, hcs, hv, ?_, ?_⟩
    · rw [hr2, hs1rsp, hrsp]
      generalize s.regs.get RSP = x
      bv_omega
    · rw [hcs2, hcs]; simp
  · cases h1


/-! ## the full claim is false: the architectural slot is RSP − size, the model's (= the code's) is RSP -/

/-- a machine with one RW page at 0x1000 and RSP in its middle -/
def witness : Machine :=
  { (default : Machine) with
    mem := [{ start := 0x1000, len := 0x100, data := List.replicate 0x100 0, name := some "stack", access := 3 }],
    regs := Regs.zero.set RSP 0x1080#64 }

/-- After `PUSH 0x1122334455667788` the architecture requires the value at the *new* RSP (0x1078).
    The model — in lock-step with the implementation — has it at 0x1080 and leaves 0x1078 untouched. -/
def okEq (o : Out (BitVec 64)) (v : BitVec 64) : Bool := match o with | .ok x => x == v | _ => false

theorem full_claim_false :
    (match pushVal witness 8 0x1122334455667788#64 with
     | .ok s' => s'.regs.get RSP == 0x1078#64 &&
         okEq (readMem s' 64 (s'.regs.get RSP)) 0#64 &&
         okEq (readMem s' 64 (s'.regs.get RSP + 8)) 0x1122334455667788#64
     | _ => false) = true := by
  decide +kernel

end Ax.C04
