/-
  C08 at the instruction level — guest stores and loads through the dispatch are the byte store's writes and reads.

  `mov [m], ra` followed by `mov rc, [m]` (any addressing form, any segment, any machine satisfying the memory
  invariants): whenever both instructions succeed, rc ends up holding ra — the load-after-store law of C08, end to end
  from decoded instructions.
-/
import AxVerif.Props.C08
import AxVerif.Props.C01
namespace Ax.C08
open Ax

theorem lookup_mov_store64 : lookup "Mov_rm64_r64" = some (.rmR 64 64 .mov U 0) := C01.lookup_mov64
theorem lookup_mov_load64 : lookup "Mov_r64_rm64" = some (.rRm 64 64 false .mov U 0) := by decide +kernel

theorem ofNat_toNat64 (x : BitVec 64) : BitVec.ofNat 64 x.toNat = x := by simp

/-- **`mov [m], ra` is the 8-byte little-endian write of ra at the operand's address** (and nothing else) -/
theorem exec_mov_store (hh : HasHooks) (i : Instr) (s s1 : Machine) (m : MemOperand) (ra : Fin 16)
    (hc : i.code = "Mov_rm64_r64")
    (hops : instructionOperands2 i = .ok (.memory m, .register (.g64 ra)))
    (h : exec hh i s = .ok s1) :
    ∃ a m1, memAddr s m = .ok a ∧ memWriteN s.mem 8 a.toNat (s.regs.get ra).toNat = .ok m1 ∧ s1 = { s with mem := m1 } := by
  have hrow : lookup i.code = some (.rmR 64 64 .mov U 0) := by rw [hc]; exact lookup_mov_store64
  unfold exec at h
  simp only [hrow, calcRmR, hops, AxOperand.toReg, readReg, regReadW, regRead64, readRM] at h
  cases ha : memAddr s m with
  | err => simp [ha, ExecRes.ofOut] at h
  | panic => simp [ha, ExecRes.ofOut] at h
  | ok a =>
    simp only [ha] at h
    cases hr : readMem s 64 a with
    | err => simp [hr, ExecRes.ofOut] at h
    | panic => simp [hr, ExecRes.ofOut] at h
    | ok dv =>
      simp only [hr] at h
      have happ : applyOp2 .mov (s.rflags &&& FLAG_CF != 0) 64 64 dv (s.regs.get ra) = (s.regs.get ra, 0) := by
        simp [applyOp2]
      have hu : U ||| (0 : BitVec 64) = FLAGS_UNAFFECTED := by simp [U]
      have hnw : (U &&& NO_WRITEBACK == 0) = true := by simp only [U, FLAGS_UNAFFECTED, NO_WRITEBACK]; decide
      simp only [happ, finish, setFlagsW, hu, C02.unaffected_kept, hnw, if_true, writeRM, ha, writeMem] at h
      cases hw : memWriteN s.mem (64 / 8) a.toNat (s.regs.get ra).toNat with
      | err => simp [hw, Machine.withMem, ExecRes.ofOut] at h
      | panic => simp [hw, Machine.withMem, ExecRes.ofOut] at h
      | ok m1 =>
        simp only [hw, Machine.withMem, ExecRes.ofOut, ExecRes.ok.injEq] at h
        exact ⟨a, m1, rfl, hw, h.symm⟩

/-- **`mov rc, [m]` is the 8-byte little-endian read at the operand's address into rc** (and nothing else) -/
theorem exec_mov_load (hh : HasHooks) (i : Instr) (s s2 : Machine) (m : MemOperand) (rc : Fin 16)
    (hc : i.code = "Mov_r64_rm64")
    (hops : instructionOperands2 i = .ok (.register (.g64 rc), .memory m))
    (h : exec hh i s = .ok s2) :
    ∃ a v, memAddr s m = .ok a ∧ memReadN s.mem 8 a.toNat = .ok v ∧ s2 = { s with regs := s.regs.set rc (BitVec.ofNat 64 v) } := by
  have hrow : lookup i.code = some (.rRm 64 64 false .mov U 0) := by rw [hc]; exact lookup_mov_load64
  unfold exec at h
  simp only [hrow, calcRRm, hops, Bool.false_eq_true, if_false, readRM] at h
  cases ha : memAddr s m with
  | err => simp [ha, ExecRes.ofOut] at h
  | panic => simp [ha, ExecRes.ofOut] at h
  | ok a =>
    simp only [ha, readMem] at h
    cases hr : memReadN s.mem (64 / 8) a.toNat with
    | err => simp [hr, ExecRes.ofOut] at h
    | panic => simp [hr, ExecRes.ofOut] at h
    | ok v =>
      simp only [hr, AxOperand.toReg, readReg, regReadW, regRead64] at h
      have happ : applyOp2 .mov (s.rflags &&& FLAG_CF != 0) 64 64 (s.regs.get rc) (BitVec.ofNat 64 v) = (BitVec.ofNat 64 v, 0) := by
        simp [applyOp2]
      have hu : U ||| (0 : BitVec 64) = FLAGS_UNAFFECTED := by simp [U]
      have hnw : (U &&& NO_WRITEBACK == 0) = true := by simp only [U, FLAGS_UNAFFECTED, NO_WRITEBACK]; decide
      simp only [happ, finish, setFlagsW, hu, C02.unaffected_kept, hnw, if_true, writeRM, writeReg, regWriteW, regWrite64,
        ExecRes.ofOut, ExecRes.ok.injEq] at h
      exact ⟨a, v, rfl, hr, h.symm⟩

/-- **Load after store, from decoded instructions**: `mov [m], ra ; mov rc, [m]` leaves ra's value in rc, for every
    addressing form and segment of `m`, every register pair and every machine satisfying the memory invariants,
    whenever both instructions succeed. -/
theorem store_then_load (hh : HasHooks) (i1 i2 : Instr) (s s1 s2 : Machine) (m : MemOperand) (ra rc : Fin 16)
    (hm : s.mem.WF) (hno : NoOverlap s.mem)
    (hc1 : i1.code = "Mov_rm64_r64") (hops1 : instructionOperands2 i1 = .ok (.memory m, .register (.g64 ra)))
    (hc2 : i2.code = "Mov_r64_rm64") (hops2 : instructionOperands2 i2 = .ok (.register (.g64 rc), .memory m))
    (h1 : exec hh i1 s = .ok s1) (h2 : exec hh i2 s1 = .ok s2) :
    s2.regs.get rc = s.regs.get ra := by
  obtain ⟨a, m1, ha, hw, rfl⟩ := exec_mov_store hh i1 s s1 m ra hc1 hops1 h1
  obtain ⟨a', v, ha', hr, rfl⟩ := exec_mov_load hh i2 _ s2 m rc hc2 hops2 h2
  -- the store changed memory only: the operand's address is the same
  have : memAddr { s with mem := m1 } m = memAddr s m := rfl
  rw [this, ha] at ha'
  cases ha'
  have hv := typed_write_read s.mem hm hno 8 a.toNat (s.regs.get ra).toNat m1 hw v hr
  subst hv
  simp

end Ax.C08
