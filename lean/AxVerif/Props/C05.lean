/-
  C05 — effective addresses of memory operands equal the architecture's for every addressing form.

  SDM vol. 1 §3.7.5: offset = base + index·scale + displacement, computed modulo 2^64, or — with
  the address-size override — from the 32-bit registers modulo 2^32 and zero-extended; RIP- and EIP-
  relative and moffs operands arrive from the decoder as a plain displacement; FS/GS add their
  base (modulo 2^64) for accesses but not for LEA.  Stated in `Nat` arithmetic on `toNat`s, for all
  register values (wrap-around included), all four scales and all displacements.
-/
import AxVerif.Model.Exec
namespace Ax.C05
open Ax

/-- numeric value of an address register as the architecture reads it -/
def addrVal (rs : Regs) : Option Reg → Nat
  | none => 0
  | some (.g64 i) => (rs.get i).toNat
  | some (.g32 i) => (rs.get i).toNat % 2 ^ 32
  | some _ => 0

def is64 : Option Reg → Bool
  | none => true
  | some (.g64 _) => true
  | _ => false

def is32 : Option Reg → Bool
  | none => true
  | some (.g32 _) => true
  | _ => false

theorem and_mask32 (x : BitVec 64) : (x &&& 0xFFFFFFFF#64).toNat = x.toNat % 2 ^ 32 := by
  rw [BitVec.toNat_and]
  have : (0xFFFFFFFF#64).toNat = 2 ^ 32 - 1 := by decide
  rw [this, Nat.and_two_pow_sub_one_eq_mod]

/-- **64-bit addressing**: base + index·scale + displacement modulo 2^64. -/
theorem ea_64 (rs : Regs) (m : MemOperand) (hb : is64 m.base = true) (hi : is64 m.index = true)
    (hs : m.scale = 1 ∨ m.scale = 2 ∨ m.scale = 4 ∨ m.scale = 8) :
    ∃ a, effectiveAddr rs m = .ok a ∧
      a.toNat = (addrVal rs m.base + addrVal rs m.index * m.scale + m.disp.toNat) % 2 ^ 64 := by
  obtain ⟨base, index, seg, scale, disp⟩ := m
  simp only at hb hi hs ⊢
  unfold effectiveAddr
  have hsc : (BitVec.ofNat 64 scale).toNat = scale := by
    rcases hs with rfl | rfl | rfl | rfl <;> decide
  have hz0 : (0 : BitVec 64).toNat = 0 := rfl
  have hd := disp.isLt
  cases base with
  | none =>
    cases index with
    | none =>
      refine ⟨_, rfl, ?_⟩
      simp only [addrVal, Bool.or_self, Bool.false_eq_true, if_false, BitVec.toNat_add, hz0]
      omega
    | some r =>
      cases r <;> simp [is64] at hi
      refine ⟨_, rfl, ?_⟩
      simp only [addrRegister, addrVal, Bool.or_self, Bool.false_eq_true, if_false, BitVec.toNat_add, BitVec.toNat_mul, hsc, hz0]
      rcases hs with rfl | rfl | rfl | rfl <;> omega
  | some b =>
    cases b <;> simp [is64] at hb
    cases index with
    | none =>
      refine ⟨_, rfl, ?_⟩
      simp only [addrRegister, addrVal, Bool.or_self, Bool.false_eq_true, if_false, BitVec.toNat_add, hz0]
      omega
    | some r =>
      cases r <;> simp [is64] at hi
      refine ⟨_, rfl, ?_⟩
      simp only [addrRegister, addrVal, Bool.or_self, Bool.false_eq_true, if_false, BitVec.toNat_add, BitVec.toNat_mul, hsc, hz0]
      rcases hs with rfl | rfl | rfl | rfl <;> omega

/-- **32-bit address size (0x67)**: the 32-bit registers, modulo 2^32, zero-extended — whenever at
    least one 32-bit register takes part (a pure displacement comes zero-extended from the decoder). -/
theorem ea_32 (rs : Regs) (m : MemOperand) (hb : is32 m.base = true) (hi : is32 m.index = true)
    (hreg : m.base ≠ none ∨ m.index ≠ none)
    (hs : m.scale = 1 ∨ m.scale = 2 ∨ m.scale = 4 ∨ m.scale = 8) :
    ∃ a, effectiveAddr rs m = .ok a ∧
      a.toNat = (addrVal rs m.base + addrVal rs m.index * m.scale + m.disp.toNat) % 2 ^ 32 := by
  obtain ⟨base, index, seg, scale, disp⟩ := m
  simp only at hb hi hs hreg ⊢
  unfold effectiveAddr
  have hsc : (BitVec.ofNat 64 scale).toNat = scale := by
    rcases hs with rfl | rfl | rfl | rfl <;> decide
  have hz0 : (0 : BitVec 64).toNat = 0 := rfl
  have hd := disp.isLt
  cases base with
  | none =>
    cases index with
    | none => simp at hreg
    | some r =>
      cases r <;> simp [is32] at hi
      refine ⟨_, rfl, ?_⟩
      simp only [addrRegister, addrVal, Bool.false_or, if_true, and_mask32, BitVec.toNat_add, BitVec.toNat_mul, hsc,
        hz0]
      rcases hs with rfl | rfl | rfl | rfl <;> omega
  | some b =>
    cases b <;> simp [is32] at hb
    cases index with
    | none =>
      refine ⟨_, rfl, ?_⟩
      simp only [addrRegister, addrVal, Bool.or_false, if_true, and_mask32, BitVec.toNat_add, hz0]
      omega
    | some r =>
      cases r <;> simp [is32] at hi
      refine ⟨_, rfl, ?_⟩
      simp only [addrRegister, addrVal, Bool.or_self, if_true, and_mask32, BitVec.toNat_add, BitVec.toNat_mul, hsc, hz0]
      rcases hs with rfl | rfl | rfl | rfl <;> omega

/-- **Segment bases**: FS and GS add their base modulo 2^64; CS, DS, ES, SS (and no segment) add nothing. -/
theorem mem_addr_segment (s : Machine) (m : MemOperand) (a : BitVec 64) (h : effectiveAddr s.regs m = .ok a) :
    ∃ a', memAddr s m = .ok a' ∧
      a'.toNat = (a.toNat + (match m.seg with | some .fs => s.fs.toNat | some .gs => s.gs.toNat | _ => 0)) % 2 ^ 64 := by
  unfold memAddr
  simp only [h]
  refine ⟨_, rfl, ?_⟩
  rcases hseg : m.seg with _ | sg
  · simp; omega
  · cases sg <;> simp [BitVec.toNat_add] <;> omega

/-- the effective address reads nothing but the base and index registers -/
theorem ea_reads_only (rs rs' : Regs) (m : MemOperand)
    (hb : ∀ r, m.base = some r → addrRegister rs r = addrRegister rs' r)
    (hi : ∀ r, m.index = some r → addrRegister rs r = addrRegister rs' r) :
    effectiveAddr rs m = effectiveAddr rs' m := by
  unfold effectiveAddr
  cases hbm : m.base with
  | none =>
    cases him : m.index with
    | none => rfl
    | some r => simp only [hi r him]
  | some b =>
    cases him : m.index with
    | none => simp only [hb b hbm]
    | some r => simp only [hb b hbm, hi r him]

/-- **LEA** stores the effective address — without any segment base — truncated to the operand size. -/
theorem lea_value (hh : HasHooks) (i : Instr) (s s' : Machine) (w : Nat) (dest : AxOperand) (m : MemOperand)
    (hl : lookup i.code = some (.lea w)) (hops : instructionOperands2 i = .ok (dest, .memory m))
    (h : exec hh i s = .ok s') :
    ∃ a dr, effectiveAddr s.regs m = .ok a ∧ dest = .register dr ∧
      writeReg s w dr ((a.setWidth w).setWidth 64) = .ok s' := by
  simp only [exec, hl, hops] at h
  have h' := ofOut_ok' h
  cases ha : effectiveAddr s.regs m with
  | err => simp [ha] at h'
  | panic => simp [ha] at h'
  | ok a =>
    simp only [ha] at h'
    cases dest with
    | register dr => exact ⟨a, dr, rfl, rfl, by simpa [AxOperand.toReg] using h'⟩
    | memory _ => simp [AxOperand.toReg] at h'
    | immediate _ _ => simp [AxOperand.toReg] at h'
where
  ofOut_ok' {o : Out Machine} {s' : Machine} (h : ExecRes.ofOut o = .ok s') : o = .ok s' := by
    cases o <;> simp [ExecRes.ofOut] at h
    rw [h]

/-! ## Non-vacuity: wrap-around and the 0x67 prefix -/
example : (effectiveAddr { Regs.zero with gpr := Regs.zero.gpr.set 3 0xFFFFFFFFFFFFFFF0#64 }
    { base := some (.g64 3), index := none, seg := none, scale := 1, disp := 0x20#64 }) = .ok 0x10#64 := by decide
example : (effectiveAddr { Regs.zero with gpr := Regs.zero.gpr.set 3 0x1FFFFFFF0#64 }
    { base := some (.g32 3), index := some (.g32 3), seg := none, scale := 1, disp := 0#64 }) = .ok 0xFFFFFFE0#64 := by decide

end Ax.C05
