/-
  AxVerif.Model.Machine — the whole emulator state (`Axecutor` + `MachineState`) and its constructor.
-/
import AxVerif.Model.Regs
import AxVerif.Model.Mem
namespace Ax

inductive TraceVariant where
  | call | ret | jump
deriving DecidableEq, Repr, Inhabited

/-- `TraceEntry`; `level` is the Rust `i16` kept as an integer with explicit range checks where the
    code does arithmetic on it. -/
structure TraceEntry where
  instrIp : Nat
  target : Nat
  variant : TraceVariant
  level : Int
  count : Nat
deriving DecidableEq, Repr, Inhabited

/-- `SyscallState` -/
structure SysState where
  registered : List Nat := []          -- syscall numbers, in registration order
  brkStart : Nat := 0
  brkLen : Nat := 0
  /-- pipes as (read end, write end, unread bytes), in creation order -/
  pipes : List (Nat × Nat × List Byte) := []
deriving DecidableEq, Repr, Inhabited

structure Machine where
  regs : Regs := Regs.zero
  rflags : BitVec 64 := 0
  fs : BitVec 64 := 0
  gs : BitVec 64 := 0
  mem : Mem := []
  finished : Bool := false
  count : Nat := 0
  maxInstr : Option Nat := none
  codeEnd : Nat := 0
  stackTop : Nat := 0
  callStack : List Nat := []
  trace : List TraceEntry := []
  hooksRunning : Bool := false
  sys : SysState := {}
  symbols : List (Nat × String) := []
  /-- event log written by scripted hooks (verification only; no counterpart in the emulator) -/
  log : List String := []
deriving Repr, Inhabited

namespace Machine

/-- lift a memory operation returning a new memory -/
@[inline] def withMem (s : Machine) (r : Out Mem) : Out Machine :=
  match r with
  | .ok m => .ok { s with mem := m }
  | .err => .err
  | .panic => .panic

/-- `Axecutor::new(code, code_start_addr, initial_rip)`.
    Registers other than RIP are the constructor's random values: a parameter here. -/
def new (init : Regs) (code : List Byte) (start rip : Nat) : Out Machine :=
  -- `code_start_addr.wrapping_add(code.len() as u64)`
  let cend := (start + code.length) % 2 ^ 64
  let s : Machine := {
    regs := { init with rip := BitVec.ofNat 64 rip },
    codeEnd := cend,
    callStack := [rip],
    symbols := [(rip, "_start")],
    trace := [{ instrIp := 0, target := rip, variant := .call, level := 0, count := 1 }] }
  match initArea s.mem start code none with
  | .ok m =>
    match memProt m start (PROT_READ ||| PROT_EXEC) with
    | .ok m' => .ok { s with mem := m' }
    | .err => .err
    | .panic => .panic
  | .err => .err
  | .panic => .panic

end Machine
end Ax
