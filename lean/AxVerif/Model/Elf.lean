/-
  AxVerif.Model.Elf — `Axecutor::from_binary` (src/elf/elf.rs) from the `elf` crate's parse result
  outward.  The crate (header, program-header and symbol-table parsing) is third-party code and is
  not modelled: the harness serialises what it says about the file (`ElfView`), exactly as the
  decoder's answers are serialised for instructions.  Segment file data is taken from the file
  bytes here (`segment_data` = `file[p_offset .. p_offset + p_filesz]`, an error if that range
  leaves the file).
-/
import AxVerif.Model.Machine
namespace Ax

structure ElfSeg where
  ptype : Nat
  flags : Nat
  offset : Nat
  vaddr : Nat
  filesz : Nat
  memsz : Nat
deriving DecidableEq, Repr, Inhabited

/-- one entry of `.symtab`: value, `is_undefined()`, and the name if `str_table.get` succeeds -/
structure ElfSym where
  value : Nat
  undef : Bool
  name : Option String
deriving DecidableEq, Repr, Inhabited

/-- the answers of `ElfBytes::minimal_parse`, `segments()` and `symbol_table()` -/
structure ElfView where
  entry : Nat
  segs : Option (List ElfSeg)        -- `None`: no program headers
  syms : Option (List ElfSym)        -- `None`: no symbol table (or an error looking for it)
deriving Repr, Inhabited

def PT_NULL : Nat := 0
def PT_LOAD : Nat := 1
def PT_DYNAMIC : Nat := 2
def PT_NOTE : Nat := 4
def PT_SHLIB : Nat := 5
def PT_PHDR : Nat := 6
def PT_TLS : Nat := 7
def PT_GNU_EH_FRAME : Nat := 0x6474e550
def PT_GNU_STACK : Nat := 0x6474e551
def PT_GNU_RELRO : Nat := 0x6474e552
def PT_GNU_PROPERTY : Nat := 0x6474e553

/-- `elf_flags_to_prot`: PF_X = 1, PF_W = 2, PF_R = 4  →  PROT_READ = 1, PROT_WRITE = 2, PROT_EXEC = 4 -/
def elfFlagsToProt (flags : Nat) : Nat :=
  (if flags &&& 4 ≠ 0 then PROT_READ else 0) ||| (if flags &&& 2 ≠ 0 then PROT_WRITE else 0) |||
  (if flags &&& 1 ≠ 0 then PROT_EXEC else 0)

/-- `round_up_to_page_size`: `size.checked_add(0xfff).map(|s| s & !0xfff)` -/
def roundUpPage (n : Nat) : Option Nat :=
  if n + 0xfff < U64 then some ((n + 0xfff) / 0x1000 * 0x1000) else none

def MAX_IMAGE_SIZE : Nat := 2 ^ 30

/-- `file.segment_data(&segment)`: the bytes `[p_offset, p_offset + p_filesz)` of the file -/
def segmentData (file : List Byte) (s : ElfSeg) : Option (List Byte) :=
  if s.offset + s.filesz ≤ file.length then some ((file.drop s.offset).take s.filesz) else none

/-- `symbol_table.insert(addr, name)` on the address → name map (a later insert replaces) -/
def symInsert (t : List (Nat × String)) (a : Nat) (n : String) : List (Nat × String) :=
  (t.filter fun p => p.1 ≠ a) ++ [(a, n)]

/-- `resolve_symbol(addr)` -/
def symLookup (t : List (Nat × String)) (a : Nat) : Option String :=
  (t.find? fun p => p.1 = a).map (·.2)

/-- state of the segment loop: the machine so far and the running image size -/
structure LoadState where
  s : Machine
  image : Nat

/-- PT_TLS: `assert_fatal!(read_fs() == 0)`; the area must start exactly at p_vaddr and be large enough;
    FS := end of that area (wrapping) -/
def loadTls (st : LoadState) (seg : ElfSeg) : Out LoadState :=
  if st.s.fs ≠ 0 then .err else
  match st.s.mem.find? (fun ar => ar.start = seg.vaddr) with
  | none => .err
  | some a =>
    if a.len < seg.memsz then .err
    else .ok { st with s := { st.s with fs := BitVec.ofNat 64 (seg.vaddr + a.len) } }

/-- the area for a PT_LOAD: either the file bytes themselves (when they fill it exactly) or zeros with the
    file bytes written at the front -/
def loadArea (m : Mem) (seg : ElfSeg) (content : List Byte) (memsz : Nat) : Out Mem :=
  if memsz = seg.filesz then
    initArea m seg.vaddr content (some ("elf_load_header_0x" ++ String.ofList (Nat.toDigits 16 seg.vaddr)))
  else match initZero m seg.vaddr memsz (some ("elf_load_zeroed_header_0x" ++ String.ofList (Nat.toDigits 16 seg.vaddr))) with
    | .ok m0 => memWriteBytes m0 seg.vaddr content
    | .err => .err
    | .panic => .panic

/-- PT_LOAD: the area reaches from p_vaddr to the page boundary after the segment's last byte -/
def loadLoad (st : LoadState) (seg : ElfSeg) (content : List Byte) : Out LoadState :=
  if U64 ≤ seg.vaddr + seg.memsz then .err else
  match roundUpPage (seg.vaddr + seg.memsz) with
  | none => .err
  | some e =>
    if MAX_IMAGE_SIZE < st.image + (e - seg.vaddr) then .err else
    match loadArea st.s.mem seg content (e - seg.vaddr) with
    | .err => .err
    | .panic => .panic
    | .ok m =>
      match memProt m seg.vaddr (elfFlagsToProt seg.flags) with
      | .ok m' => .ok { s := { st.s with mem := m' }, image := st.image + (e - seg.vaddr) }
      | .err => .err
      | .panic => .panic

/-- segment types that are skipped without any effect -/
def skippedType (t : Nat) : Bool :=
  t == PT_NULL || t == PT_NOTE || t == PT_SHLIB || t == PT_PHDR || t == PT_GNU_EH_FRAME || t == PT_GNU_PROPERTY ||
  t == PT_GNU_RELRO

/-- one iteration of the segment loop -/
def loadSegment (file : List Byte) (st : LoadState) (seg : ElfSeg) : Out LoadState :=
  if seg.vaddr = 0 then .ok st else
  match segmentData file seg with
  | none => .err
  | some content =>
    if skippedType seg.ptype then .ok st
    else if seg.ptype = PT_DYNAMIC then .err
    else if seg.ptype = PT_GNU_STACK then (if seg.flags ≠ 6 then .err else .ok st)
    else if seg.ptype = PT_TLS then loadTls st seg
    else if seg.ptype = PT_LOAD then loadLoad st seg content
    else .err   -- `fatal_error!("ELF: Unsupported segment type …")`

def loadSegments (file : List Byte) : LoadState → List ElfSeg → Out LoadState
  | st, [] => .ok st
  | st, seg :: rest =>
    match loadSegment file st seg with
    | .ok st' => loadSegments file st' rest
    | .err => .err
    | .panic => .panic

/-- the symbol loop -/
def loadSymbols (t : List (Nat × String)) : List ElfSym → List (Nat × String)
  | [] => t
  | y :: rest =>
    if y.undef then loadSymbols t rest else
    match y.name with
    | none => loadSymbols t rest
    | some n => loadSymbols (symInsert t y.value n) rest

/-- the machine before the segment loop: `Axecutor::empty()` with RIP, the pretended call of `_start` -/
def elfInit (init : Regs) (entry : Nat) : Machine := {
  regs := { init with rip := BitVec.ofNat 64 entry },
  callStack := [entry],
  symbols := [(entry, "_start")],
  trace := [{ instrIp := 0, target := entry, variant := .call, level := 0, count := 1 }] }

/-- `Axecutor::from_binary`, given that `minimal_parse` succeeded with this view.
    `init` are the constructor's random register values. -/
def fromBinary (init : Regs) (file : List Byte) (v : ElfView) : Out Machine :=
  if U64 ≤ v.entry then .err else
  match v.segs with
  | none => .err
  | some segs =>
    match loadSegments file { s := elfInit init v.entry, image := 0 } segs with
    | .err => .err
    | .panic => .panic
    | .ok st =>
      match v.syms with
      | none => .ok st.s
      | some ys => .ok { st.s with symbols := loadSymbols st.s.symbols ys }

end Ax
