/-
  AxVerif.Model.Regs — the register file and the public register API
  (src/state/registers.rs: reg_write_8/16/32/64, reg_read_8/16/32/64, reg_*_128).

  Written the way the Rust computes: mask-and-or on the 64-bit parent value.
-/
import AxVerif.Model.Basic
namespace Ax

/-- Every `SupportedRegister`.  GPR indices follow the hardware encoding
    (0 RAX, 1 RCX, 2 RDX, 3 RBX, 4 RSP, 5 RBP, 6 RSI, 7 RDI, 8..15 R8..R15);
    `h8 i` is AH, CH, DH, BH for i = 0..3 (parent = GPR i). -/
inductive Reg where
  | rip
  | eip
  | g64 (i : Fin 16)
  | g32 (i : Fin 16)
  | g16 (i : Fin 16)
  | g8 (i : Fin 16)
  | h8 (i : Fin 4)
  | xmm (i : Fin 16)
deriving DecidableEq, Repr, Inhabited

/-- Architectural register state: 16 GPRs, RIP, 16 XMM. -/
structure Regs where
  gpr : Vector (BitVec 64) 16
  rip : BitVec 64
  xmm : Vector (BitVec 128) 16
deriving DecidableEq, Repr

namespace Regs

def zero : Regs := ⟨Vector.replicate 16 0, 0, Vector.replicate 16 0⟩

instance : Inhabited Regs := ⟨zero⟩

@[inline] def get (s : Regs) (i : Fin 16) : BitVec 64 := s.gpr[i]
@[inline] def set (s : Regs) (i : Fin 16) (v : BitVec 64) : Regs := { s with gpr := s.gpr.set i v }

@[simp] theorem get_set_self (s : Regs) (i : Fin 16) (v) : (s.set i v).get i = v := by
  simp [get, set]

@[simp] theorem get_set_ne (s : Regs) (i j : Fin 16) (v) (h : i ≠ j) : (s.set i v).get j = s.get j := by
  simp only [get, set]
  have : (i : Nat) ≠ (j : Nat) := fun e => h (Fin.ext e)
  simp [Vector.getElem_set, this]

@[simp] theorem rip_set (s : Regs) (i v) : (s.set i v).rip = s.rip := rfl
@[simp] theorem xmm_set (s : Regs) (i v) : (s.set i v).xmm = s.xmm := rfl

end Regs

/-- Parent GPR of a high-byte register. -/
@[inline] def hiParent (i : Fin 4) : Fin 16 := ⟨i.val, by omega⟩

/-! ### Writes.  `v` is the `u64` argument of the API call. -/

/-- `reg_write_8`: range check, then register-class check, then mask-and-or. -/
def regWrite8 (s : Regs) (r : Reg) (v : BitVec 64) : Out Regs :=
  if 0xFF < v.toNat then .err else
  match r with
  | .g8 i => .ok (s.set i ((s.get i &&& 0xFFFFFFFFFFFFFF00#64) ||| v))
  | .h8 i => .ok (s.set (hiParent i) ((s.get (hiParent i) &&& 0xFFFFFFFFFFFF00FF#64) ||| (v <<< 8)))
  | _ => .err

def regWrite16 (s : Regs) (r : Reg) (v : BitVec 64) : Out Regs :=
  if 0xFFFF < v.toNat then .err else
  match r with
  | .g16 i => .ok (s.set i ((s.get i &&& 0xFFFFFFFFFFFF0000#64) ||| v))
  | _ => .err

/-- `reg_write_32`: `value as u32 as u64` replaces the whole parent. -/
def regWrite32 (s : Regs) (r : Reg) (v : BitVec 64) : Out Regs :=
  if 0xFFFFFFFF < v.toNat then .err else
  match r with
  | .g32 i => .ok (s.set i ((v.setWidth 32).setWidth 64))
  | _ => .err

def regWrite64 (s : Regs) (r : Reg) (v : BitVec 64) : Out Regs :=
  match r with
  | .g64 i => .ok (s.set i v)
  | .rip => .ok { s with rip := v }
  | _ => .err

/-! ### Reads.  The result is the `u64` the API returns. -/

def regRead8 (s : Regs) (r : Reg) : Out (BitVec 64) :=
  match r with
  | .g8 i => .ok (((s.get i &&& 0xFF#64).setWidth 8).setWidth 64)
  | .h8 i => .ok ((((s.get (hiParent i) &&& 0xFF00#64) >>> 8).setWidth 8).setWidth 64)
  | _ => .err

def regRead16 (s : Regs) (r : Reg) : Out (BitVec 64) :=
  match r with
  | .g16 i => .ok (s.get i &&& 0xFFFF#64)
  | _ => .err

def regRead32 (s : Regs) (r : Reg) : Out (BitVec 64) :=
  match r with
  | .g32 i => .ok (s.get i &&& 0xFFFFFFFF#64)
  | _ => .err

def regRead64 (s : Regs) (r : Reg) : Out (BitVec 64) :=
  match r with
  | .g64 i => .ok (s.get i)
  | .rip => .ok s.rip
  | _ => .err

def regWrite128 (s : Regs) (r : Reg) (v : BitVec 128) : Out Regs :=
  match r with
  | .xmm i => .ok { s with xmm := s.xmm.set i v }
  | _ => .err

def regRead128 (s : Regs) (r : Reg) : Out (BitVec 128) :=
  match r with
  | .xmm i => .ok s.xmm[i]
  | _ => .err

/-- One call of the public register API. -/
inductive RegOp where
  | write (width : Nat) (r : Reg) (v : BitVec 64)
  | read (width : Nat) (r : Reg)
deriving Repr, DecidableEq

/-- Width-dispatched write; widths other than 8/16/32/64 do not exist in the API. -/
def regWriteW (s : Regs) (w : Nat) (r : Reg) (v : BitVec 64) : Out Regs :=
  match w with
  | 8 => regWrite8 s r v
  | 16 => regWrite16 s r v
  | 32 => regWrite32 s r v
  | 64 => regWrite64 s r v
  | _ => .err

def regReadW (s : Regs) (w : Nat) (r : Reg) : Out (BitVec 64) :=
  match w with
  | 8 => regRead8 s r
  | 16 => regRead16 s r
  | 32 => regRead32 s r
  | 64 => regRead64 s r
  | _ => .err

/-- Result of one API call as the caller sees it. -/
inductive RegRes where
  | wrote | value (v : BitVec 64) | rejected | crashed
deriving Repr, DecidableEq

/-- Apply one API call: new register file (unchanged on rejection) and the visible result. -/
def regStep (s : Regs) : RegOp → Regs × RegRes
  | .write w r v =>
    match regWriteW s w r v with
    | .ok s' => (s', .wrote)
    | .err => (s, .rejected)
    | .panic => (s, .crashed)
  | .read w r =>
    match regReadW s w r with
    | .ok v => (s, .value v)
    | .err => (s, .rejected)
    | .panic => (s, .crashed)

/-- Run a history of API calls, collecting the visible results. -/
def regRun (s : Regs) : List RegOp → Regs × List RegRes
  | [] => (s, [])
  | op :: ops =>
    let (s', r) := regStep s op
    let (s'', rs) := regRun s' ops
    (s'', r :: rs)

end Ax
