/-
  AxVerif.Model.Mem — guest memory: the area list and the byte/typed accessors
  (src/state/memory.rs: mem_read_bytes, mem_write_bytes, mem_read_executable_bytes,
   mem_read_8..128, mem_write_8..128, mem_init_area_named, mem_init_zero*, mem_prot,
   mem_resize_section, mem_init_zero_anywhere, mem_init_anywhere).

  Addresses and lengths are `Nat`s below 2^64 (the Rust `u64`); the model keeps the Rust's order
  of checks and its panic sites (slice indexing).
-/
import AxVerif.Model.Basic
namespace Ax

def PROT_READ : Nat := 1
def PROT_WRITE : Nat := 2
def PROT_EXEC : Nat := 4

/-- `MemoryArea`. `len` is the `length` field, `data` the `Vec<u8>`. -/
structure Area where
  name : Option String
  start : Nat
  len : Nat
  data : List Byte
  access : Nat
deriving Repr, DecidableEq, Inhabited

abbrev Mem := List Area

/-- `area.start <= address && address - area.start < area.length` -/
def Area.contains (ar : Area) (a : Nat) : Bool := decide (ar.start ≤ a) && decide (a - ar.start < ar.len)

/-- `.iter().find(..)`: the first area containing the address. -/
def findArea (m : Mem) (a : Nat) : Option Area := m.find? (·.contains a)

def hasPerm (access p : Nat) : Bool := access &&& p != 0

/-- `mem_read_bytes(address, length)` -/
def memReadBytes (m : Mem) (a n : Nat) : Out (List Byte) :=
  match findArea m a with
  | none => .err
  | some ar =>
    if ar.len - (a - ar.start) < n then .err
    else if !hasPerm ar.access PROT_READ then .err
    else
      let off := a - ar.start
      -- `&area.data[offset..offset + length]`
      if off + n ≤ ar.data.length then .ok ((ar.data.drop off).take n) else .panic

/-- `mem_read_executable_bytes(address)`: up to 15 bytes, to the end of the area. -/
def memReadExec (m : Mem) (a : Nat) : Out (List Byte) :=
  match findArea m a with
  | none => .err
  | some ar =>
    if !hasPerm ar.access PROT_EXEC then .err
    else
      let off := a - ar.start
      -- `&area.data[offset..min(offset + 15, area.data.len())]`
      if off ≤ ar.data.length then .ok ((ar.data.drop off).take 15) else .panic

/-- Replace `bs.length` bytes of `d` at offset `off` (`copy_from_slice`). -/
def splice (d : List Byte) (off : Nat) (bs : List Byte) : List Byte :=
  d.take off ++ bs ++ d.drop (off + bs.length)

/-- `mem_write_bytes(address, data)`: writes into the first area containing the address. -/
def memWriteBytes : Mem → Nat → List Byte → Out Mem
  | [], _, _ => .err
  | ar :: rest, a, bs =>
    if ar.contains a then
      if ar.len - (a - ar.start) < bs.length then .err
      else if !hasPerm ar.access PROT_WRITE then .err
      else
        let off := a - ar.start
        if off + bs.length ≤ ar.data.length then .ok ({ ar with data := splice ar.data off bs } :: rest)
        else .panic
    else
      match memWriteBytes rest a bs with
      | .ok rest' => .ok (ar :: rest')
      | .err => .err
      | .panic => .panic

/-! ### little-endian conversions (`to_le_bytes` / `from_le_bytes`) -/

/-- `n` little-endian bytes of `v`. -/
def leBytes : Nat → Nat → List Byte
  | 0, _ => []
  | n + 1, v => BitVec.ofNat 8 (v % 256) :: leBytes n (v / 256)

/-- value of a little-endian byte string -/
def leNat : List Byte → Nat
  | [] => 0
  | b :: bs => b.toNat + 256 * leNat bs

/-- `mem_read_8/16/32/64/128`: `n` bytes, little endian, as a number. -/
def memReadN (m : Mem) (n a : Nat) : Out Nat :=
  match memReadBytes m a n with
  | .ok bs => .ok (leNat bs)
  | .err => .err
  | .panic => .panic

/-- `mem_write_8/16/32` reject values that do not fit (assert_fatal); 64/128 take the full type. -/
def memWriteN (m : Mem) (n a v : Nat) : Out Mem :=
  if 2 ^ (8 * n) ≤ v then .err else memWriteBytes m a (leBytes n v)

/-! ### area management -/

/-- the overlap test of `mem_init_area_named` / `mem_resize_section`:
    the new start lies in the existing area, or the existing start lies in the new range -/
def collides (start len : Nat) (ar : Area) : Bool :=
  (decide (start ≥ ar.start) && decide (start - ar.start < ar.len)) ||
  (decide (ar.start ≥ start) && decide (ar.start - start < len))

/-- `len > 0 && start.checked_add(len - 1).is_none()` -/
def pastEnd (start len : Nat) : Bool := decide (0 < len) && decide (U64 ≤ start + (len - 1))

/-- `mem_init_area_named(start, data, name)`; new areas are readable and writable. -/
def initArea (m : Mem) (start : Nat) (data : List Byte) (name : Option String) : Out Mem :=
  if pastEnd start data.length then .err
  else if m.any (collides start data.length) then .err
  else .ok (m ++ [{ name := name, start := start, len := data.length, data := data, access := PROT_READ ||| PROT_WRITE }])

def zeros (n : Nat) : List Byte := List.replicate n 0

def initZero (m : Mem) (start len : Nat) (name : Option String) : Out Mem :=
  initArea m start (zeros len) name

/-- `mem_prot(section_start, prot)`: first area with that start. -/
def memProt (m : Mem) (start prot : Nat) : Out Mem :=
  if 7 < prot then .err else
  let rec go : Mem → Out Mem
    | [] => .err
    | ar :: rest =>
      if ar.start = start then .ok ({ ar with access := prot } :: rest)
      else match go rest with
        | .ok r => .ok (ar :: r)
        | .err => .err
        | .panic => .panic
  go m

/-- index of the first area with this start (`position`) -/
def areaIndex (m : Mem) (start : Nat) : Option Nat := m.findIdx? (fun ar => ar.start = start)

/-- `vec![0; new]` with the common prefix copied -/
def resizeData (d : List Byte) (n : Nat) : List Byte := d.take n ++ zeros (n - d.length)

/-- does any area other than index `skip` collide with `[start, start+len)`? -/
def collidesOther (m : Mem) (skip : Option Nat) (start len : Nat) : Bool :=
  (m.zipIdx).any (fun (ar, i) => (some i != skip) && collides start len ar)

/-- `mem_resize_section(start_addr, new_size)` -/
def resizeSection (m : Mem) (start n : Nat) : Out Mem :=
  let idx := areaIndex m start
  if pastEnd start n then .err
  else if collidesOther m idx start n then .err
  else match idx with
    | none => .err
    | some i =>
      .ok (m.modify i (fun ar => { ar with data := resizeData ar.data n, len := n }))

/-- upper bound of the address search -/
def SEARCH_END : Nat := 0x7fffffffffffffff

/-- `mem_init_anywhere(data, name)` / `mem_init_zero_anywhere(length)`:
    try 0x1000, then advance by max(len, 1) (saturating) until an area can be created. -/
def initAnywhereFrom (m : Mem) (data : List Byte) (name : Option String) (start : Nat) : Out (Nat × Mem) :=
  if SEARCH_END ≤ start then .err
  else match initArea m start data name with
    | .ok m' => .ok (start, m')
    | .panic => .panic
    | .err => initAnywhereFrom m data name (min (start + max data.length 1) (U64 - 1))
termination_by SEARCH_END - start
decreasing_by
  simp only [SEARCH_END, U64] at *
  omega

def initAnywhere (m : Mem) (data : List Byte) (name : Option String) : Out (Nat × Mem) :=
  initAnywhereFrom m data name 0x1000

def initZeroAnywhere (m : Mem) (len : Nat) : Out (Nat × Mem) :=
  initAnywhere m (zeros len) none

/-- the stack search of `init_stack*`: 0x1000, 0x2000, 0x4000, … -/
def initStackAreaFrom (m : Mem) (len : Nat) (start : Nat) (h : 0 < start) : Out (Nat × Mem) :=
  if SEARCH_END ≤ start then .err
  else match initZero m start len (some "Stack") with
    | .ok m' => .ok (start, m')
    | .panic => .panic
    | .err => initStackAreaFrom m len (2 * start) (by omega)
termination_by SEARCH_END - start
decreasing_by
  simp only [SEARCH_END] at *
  omega

def initStackArea (m : Mem) (len : Nat) : Out (Nat × Mem) := initStackAreaFrom m len 0x1000 (by decide)

end Ax
