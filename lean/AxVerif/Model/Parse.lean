/-
  AxVerif.Model.Parse — text helpers of the line protocol (untrusted glue; exercised by every
  correspondence run).
-/
import AxVerif.Model.Regs
import AxVerif.Model.Instr
namespace Ax

def hexDigit? (c : Char) : Option Nat :=
  if '0' ≤ c ∧ c ≤ '9' then some (c.toNat - '0'.toNat)
  else if 'a' ≤ c ∧ c ≤ 'f' then some (c.toNat - 'a'.toNat + 10)
  else if 'A' ≤ c ∧ c ≤ 'F' then some (c.toNat - 'A'.toNat + 10)
  else none

def parseHex? (s : String) : Option Nat :=
  if s.isEmpty then none else
  s.toList.foldl (fun acc c => do
    let a ← acc
    let d ← hexDigit? c
    pure (a * 16 + d)) (some 0)

def hexChar (n : Nat) : Char :=
  if n < 10 then Char.ofNat ('0'.toNat + n) else Char.ofNat ('a'.toNat + n - 10)

partial def toHexAux (n : Nat) (acc : List Char) : List Char :=
  if n < 16 then hexChar n :: acc else toHexAux (n / 16) (hexChar (n % 16) :: acc)

def toHex (n : Nat) : String := String.ofList (toHexAux n [])

def hexByte (b : Byte) : String :=
  String.ofList [hexChar (b.toNat / 16), hexChar (b.toNat % 16)]

def bytesToHex (bs : List Byte) : String :=
  if bs.isEmpty then "-" else String.join (bs.map hexByte)

def parseHexBytes? (s : String) : Option (List Byte) :=
  let rec go : List Char → List Byte → Option (List Byte)
    | [], acc => some acc.reverse
    | [_], _ => none
    | a :: b :: rest, acc => do
      let x ← hexDigit? a
      let y ← hexDigit? b
      go rest (BitVec.ofNat 8 (x * 16 + y) :: acc)
  if s = "-" then some [] else go s.toList []

def gprNames64 : List String :=
  ["RAX","RCX","RDX","RBX","RSP","RBP","RSI","RDI","R8","R9","R10","R11","R12","R13","R14","R15"]
def gprNames32 : List String :=
  ["EAX","ECX","EDX","EBX","ESP","EBP","ESI","EDI","R8D","R9D","R10D","R11D","R12D","R13D","R14D","R15D"]
def gprNames16 : List String :=
  ["AX","CX","DX","BX","SP","BP","SI","DI","R8W","R9W","R10W","R11W","R12W","R13W","R14W","R15W"]
def gprNames8 : List String :=
  ["AL","CL","DL","BL","SPL","BPL","SIL","DIL","R8L","R9L","R10L","R11L","R12L","R13L","R14L","R15L"]
def hiNames : List String := ["AH","CH","DH","BH"]

def findIdx? (l : List String) (s : String) (n : Nat) : Option (Fin n) :=
  match l.idxOf? s with
  | some i => if h : i < n then some ⟨i, h⟩ else none
  | none => none

/-- Parse the Debug name of a `SupportedRegister`. -/
def parseReg? (s : String) : Option Reg :=
  if s = "RIP" then some .rip
  else if s = "EIP" then some .eip
  else if let some i := findIdx? gprNames64 s 16 then some (.g64 i)
  else if let some i := findIdx? gprNames32 s 16 then some (.g32 i)
  else if let some i := findIdx? gprNames16 s 16 then some (.g16 i)
  else if let some i := findIdx? gprNames8 s 16 then some (.g8 i)
  else if let some i := findIdx? hiNames s 4 then some (.h8 i)
  else if s.startsWith "XMM" then
    match (s.drop 3).toString.toNat? with
    | some n => if h : n < 16 then some (.xmm ⟨n, h⟩) else none
    | none => none
  else none

def outStr {α} (f : α → String) : Out α → String
  | .ok a => f a
  | .err => "err"
  | .panic => "panic"

end Ax

namespace Ax

/-- FNV-1a (64 bit) of a byte string; used to compare area contents without printing them. -/
def fnv64 (bs : List Byte) : Nat :=
  (bs.foldl (fun (h : UInt64) b => (h ^^^ b.toNat.toUInt64) * 0x100000001b3) 0xcbf29ce484222325).toNat

def optName (n : Option String) : String :=
  match n with
  | some s => s
  | none => "~"

def parseName (s : String) : Option String := if s = "~" then none else some s

end Ax

namespace Ax

def parseRegSpec (s : String) : RegSpec :=
  if s = "-" then .none else
  match parseReg? s with
  | some r => .reg r
  | none => .unsupported

def parseSegSpec (s : String) : SegSpec :=
  match s with
  | "-" => .none | "ES" => .es | "CS" => .cs | "SS" => .ss | "DS" => .ds | "FS" => .fs | "GS" => .gs
  | _ => .other

def parseOpSpec (s : String) : Option OpSpec :=
  match s.splitOn ":" with
  | ["m"] => some .mem
  | ["o"] => some .other
  | ["r", r] => some (.reg (parseRegSpec r))
  | ["i", sz, v] => do
    let sz ← sz.toNat?
    let v ← parseHex? v
    pure (.imm sz (BitVec.ofNat 64 v))
  | _ => none

def kvGet (kvs : List (String × String)) (k : String) : Option String := (kvs.find? (·.1 == k)).map (·.2)

/-- parse the key=value payload of a `dec` line -/
def parseInstr (toks : List String) : Option Instr := do
  let kvs := toks.filterMap fun t =>
    match t.splitOn "=" with
    | [k, v] => some (k, v)
    | _ => none
  let code ← kvGet kvs "code"
  let mn ← kvGet kvs "mn"
  let len ← (← kvGet kvs "len").toNat?
  let next ← parseHex? (← kvGet kvs "next")
  let nb ← parseHex? (← kvGet kvs "nb")
  let nb64 ← kvGet kvs "nb64"
  let opsS ← kvGet kvs "ops"
  let ops ← if opsS = "-" then some [] else (opsS.splitOn ",").mapM parseOpSpec
  let scale ← (← kvGet kvs "scale").toNat?
  let disp ← parseHex? (← kvGet kvs "disp")
  pure {
    code := code, mnem := mn, len := len, nextIp := BitVec.ofNat 64 next, ops := ops,
    base := parseRegSpec (← kvGet kvs "base"), index := parseRegSpec (← kvGet kvs "index"),
    scale := scale, disp := BitVec.ofNat 64 disp, seg := parseSegSpec (← kvGet kvs "seg"),
    nearBranch := BitVec.ofNat 64 nb, op0NearBranch64 := nb64 == "1" }

end Ax

namespace Ax

/-- deterministic filler for large areas (same generator in the harness and the native oracle) -/
def lcgBytes (seed n : Nat) : List Byte :=
  let rec go : Nat → UInt64 → List Byte → List Byte
    | 0, _, acc => acc.reverse
    | k + 1, x, acc =>
      let x' := x * 6364136223846793005 + 1442695040888963407
      go k x' (BitVec.ofNat 8 (x' >>> 56).toNat :: acc)
  go n seed.toUInt64 []

end Ax
