/-
  AxVerif.Model.Basic — outcome type and shared numeric helpers of the executable model.

  No imports beyond core: the driver links as a `lean_exe`.
-/
namespace Ax

/-- Outcome of a modelled operation.  `err` is an `AxError` value returned to the caller,
    `panic` marks every place where the Rust would unwind or abort (panic!, assert!, unwrap,
    slice index out of range, checked arithmetic overflow under `overflow-checks`). -/
inductive Out (α : Type) where
  | ok (a : α)
  | err
  | panic
deriving Repr, DecidableEq, Inhabited

namespace Out

@[inline] def bind {α β : Type} (x : Out α) (f : α → Out β) : Out β :=
  match x with
  | .ok a => f a
  | .err => .err
  | .panic => .panic

instance : Monad Out where
  pure := .ok
  bind := Out.bind

@[simp] theorem bind_ok {α β} (a : α) (f : α → Out β) : (Out.ok a >>= f) = f a := rfl
@[simp] theorem bind_err {α β} (f : α → Out β) : ((Out.err : Out α) >>= f) = .err := rfl
@[simp] theorem bind_panic {α β} (f : α → Out β) : ((Out.panic : Out α) >>= f) = .panic := rfl
@[simp] theorem pure_eq {α} (a : α) : (pure a : Out α) = .ok a := rfl

def isOk {α} : Out α → Bool
  | .ok _ => true
  | _ => false

def isPanic {α} : Out α → Bool
  | .panic => true
  | _ => false

def map' {α β} (f : α → β) : Out α → Out β
  | .ok a => .ok (f a)
  | .err => .err
  | .panic => .panic

end Out

/-- 2^64, the size of the guest address space and of `u64`. -/
abbrev U64 : Nat := 18446744073709551616

/-- `a + b` on `u64` in a build with overflow checks: `none` is the overflow panic. -/
def u64add (a b : Nat) : Option Nat := if a + b < U64 then some (a + b) else none

abbrev Byte := BitVec 8

end Ax
