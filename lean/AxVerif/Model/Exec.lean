/-
  AxVerif.Model.Exec — instruction semantics: the four operand-plumbing families of
  src/helpers/macros.rs, the per-opcode operations of src/instructions/*.rs, stack and control
  transfer instructions, and the dispatch table (iced `Code` ↦ handler).

  Operation functions are generic in the operand width `w` and written the way the Rust
  computes (widened add and test of bit `w`, sign-bit comparisons, xor trick for SUB …).
-/
import AxVerif.Model.Instr
namespace Ax

def Instr.op0 (i : Instr) : Option OpSpec := i.ops[0]?

/-! ### width-directed access -/

def readReg (s : Machine) (w : Nat) (r : Reg) : Out (BitVec 64) := regReadW s.regs w r

def writeReg (s : Machine) (w : Nat) (r : Reg) (v : BitVec 64) : Out Machine :=
  match regWriteW s.regs w r v with
  | .ok rs => .ok { s with regs := rs }
  | .err => .err
  | .panic => .panic

/-- `mem_read_8/16/32/64` at a computed address -/
def readMem (s : Machine) (w : Nat) (a : BitVec 64) : Out (BitVec 64) :=
  match memReadN s.mem (w / 8) a.toNat with
  | .ok v => .ok (BitVec.ofNat 64 v)
  | .err => .err
  | .panic => .panic

def writeMem (s : Machine) (w : Nat) (a : BitVec 64) (v : BitVec 64) : Out Machine :=
  s.withMem (memWriteN s.mem (w / 8) a.toNat v.toNat)

/-- `Operand -> SupportedRegister` (`.into()`): panics unless the operand is a register -/
def AxOperand.toReg : AxOperand → Out Reg
  | .register r => .ok r
  | _ => .panic

/-- read an r/m operand of width `w`; an immediate here is `fatal_error!` -/
def readRM (s : Machine) (w : Nat) (o : AxOperand) : Out (BitVec 64) :=
  match o with
  | .register r => readReg s w r
  | .memory m =>
    match memAddr s m with
    | .ok a => readMem s w a
    | .err => .err
    | .panic => .panic
  | .immediate _ _ => .err

def writeRM (s : Machine) (w : Nat) (o : AxOperand) (v : BitVec 64) : Out Machine :=
  match o with
  | .register r => writeReg s w r v
  | .memory m =>
    match memAddr s m with
    | .ok a => writeMem s w a v
    | .err => .err
    | .panic => .panic
  | .immediate _ _ => .err

/-! ### operations -/

/-- two-operand operations -/
inductive Op2 where
  | add | adc | sub | and | xor | mov | movzx | movsx
  | cmov (cond : Bool)     -- condition already evaluated
  | shl | shr              -- count in the (8-bit) source
  | shl1 | shr1            -- the D0/D1 forms: count 1 whatever the source says
deriving DecidableEq, Repr, Inhabited

/-- one-operand operations -/
inductive Op1 where
  | inc | dec | neg | not | set (v : Bool)
deriving DecidableEq, Repr, Inhabited

def flagIf (b : Bool) (f : BitVec 64) : BitVec 64 := if b then f else 0

/-- ADD: `d.wrapping_add(s)`; OF by sign comparison, CF from bit `w` of the widened sum. -/
def opAdd {w : Nat} (d s : BitVec w) : BitVec w × BitVec 64 :=
  let r := d + s
  (r, flagIf (r.msb != d.msb && r.msb != s.msb) FLAG_OF |||
      flagIf ((d.setWidth (w + 1) + s.setWidth (w + 1)).getLsbD w) FLAG_CF)

/-- ADC: widened add of both operands and the incoming carry. -/
def opAdc {w : Nat} (cf : Bool) (d s : BitVec w) : BitVec w × BitVec 64 :=
  let r' : BitVec (w + 1) := d.setWidth (w + 1) + s.setWidth (w + 1) + (if cf then 1 else 0)
  let r : BitVec w := r'.setWidth w
  (r, flagIf (r.msb != d.msb && r.msb != s.msb) FLAG_OF ||| flagIf (r'.getLsbD w) FLAG_CF)

/-- SUB/CMP: OF = sign of (d^s)&(d^r); CF = bit `w` of ((d | 2^w) − s) clear. -/
def opSub {w : Nat} (d s : BitVec w) : BitVec w × BitVec 64 :=
  let r := d - s
  (r, flagIf (((d ^^^ s) &&& (d ^^^ r)).msb) FLAG_OF |||
      flagIf (!((d.setWidth (w + 1) ||| (1#(w+1) <<< w)) - s.setWidth (w + 1)).getLsbD w) FLAG_CF)

def opInc {w : Nat} (v : BitVec w) : BitVec w × BitVec 64 :=
  let r := v + 1
  (r, flagIf (!v.msb && r.msb) FLAG_OF)

def opDec {w : Nat} (v : BitVec w) : BitVec w × BitVec 64 :=
  let r := v - 1
  (r, flagIf (v.msb && !r.msb) FLAG_OF)

/-- NEG: `!v + 1`; CF unless v = 0; OF iff the result is the minimum value. -/
def opNeg {w : Nat} (v : BitVec w) : BitVec w × BitVec 64 :=
  let r := ~~~v + 1
  (r, flagIf (v != 0) FLAG_CF ||| flagIf (r == BitVec.twoPow w (w - 1)) FLAG_OF)

/-- `shl_bits`: masked count (5 bits, 6 for 64-bit operands); count 0 leaves everything alone
    (`FLAGS_UNAFFECTED`); CF = last bit shifted out (bit `w - count`), OF only for count 1. -/
def opShl {w : Nat} (d : BitVec w) (s : BitVec 8) : BitVec w × BitVec 64 :=
  let count := (s &&& (if w = 64 then 0x3f else 0x1f)).toNat
  if count = 0 then (d, FLAGS_UNAFFECTED) else
  let r : BitVec w := if count < w then d <<< count else 0
  let cf := decide (count ≤ w) && d.getLsbD (w - count)
  let of := decide (count = 1) && (r.msb != cf)
  (r, flagIf cf FLAG_CF ||| flagIf of FLAG_OF)

/-- `shr_bits`: CF = bit `count - 1`, OF (count 1) = the operand's most significant bit. -/
def opShr {w : Nat} (d : BitVec w) (s : BitVec 8) : BitVec w × BitVec 64 :=
  let count := (s &&& (if w = 64 then 0x3f else 0x1f)).toNat
  if count = 0 then (d, FLAGS_UNAFFECTED) else
  let r : BitVec w := if count < w then d >>> count else 0
  let cf := decide (count ≤ w) && d.getLsbD (count - 1)
  let of := decide (count = 1) && d.msb
  (r, flagIf cf FLAG_CF ||| flagIf of FLAG_OF)

/-- apply a two-operand operation at destination width `w` with a source of width `sw` -/
def applyOp2 (op : Op2) (cfIn : Bool) (w sw : Nat) (d s : BitVec 64) : BitVec 64 × BitVec 64 :=
  let dw : BitVec w := d.setWidth w
  -- the source is the low `sw` bits, extended to `w` (zero extension; `movsx` sign-extends)
  let ssw : BitVec sw := s.setWidth sw
  let sz : BitVec w := ssw.setWidth w
  let (r, f) : BitVec w × BitVec 64 := match op with
    | .add => opAdd dw sz
    | .adc => opAdc cfIn dw sz
    | .sub => opSub dw sz
    | .and => (dw &&& sz, 0)
    | .xor => (dw ^^^ sz, 0)
    | .mov => (sz, 0)
    | .movzx => (sz, 0)
    | .movsx => (ssw.signExtend w, 0)
    | .cmov c => (if c then sz else dw, 0)
    | .shl => opShl dw (s.setWidth 8)
    | .shr => opShr dw (s.setWidth 8)
    | .shl1 => opShl dw 1
    | .shr1 => opShr dw 1
  (r.setWidth 64, f)

def applyOp1 (op : Op1) (w : Nat) (v : BitVec 64) : BitVec 64 × BitVec 64 :=
  let vw : BitVec w := v.setWidth w
  let (r, f) : BitVec w × BitVec 64 := match op with
    | .inc => opInc vw
    | .dec => opDec vw
    | .neg => opNeg vw
    | .not => (~~~vw, 0)
    | .set b => (if b then 1 else 0, 0)
  (r.setWidth 64, f)

/-- `self.set_flags_uN(set | flags, clear, result)` at width `w` on a 64-bit-carried result -/
def setFlagsW (s : Machine) (w : Nat) (set clear : BitVec 64) (res : BitVec 64) : Out Machine :=
  match setFlags set clear (res.setWidth w) s.rflags with
  | .ok f => .ok { s with rflags := f }
  | .err => .err
  | .panic => .panic

/-- common tail of all four families: flags, then write-back unless `NO_WRITEBACK` -/
def finish (s : Machine) (w : Nat) (dest : AxOperand) (set clear fl res : BitVec 64) : Out Machine :=
  match setFlagsW s w (set ||| fl) clear res with
  | .ok s' => if set &&& NO_WRITEBACK == 0 then writeRM s' w dest res else .ok s'
  | .err => .err
  | .panic => .panic

/-- `calculate_rm_r`: destination r/m, source register.  The source register is read first. -/
def calcRmR (s : Machine) (i : Instr) (w sw : Nat) (op : Op2) (set clear : BitVec 64) : Out Machine :=
  match instructionOperands2 i with
  | .err => .err
  | .panic => .panic
  | .ok (dest, src) =>
    match src.toReg with
    | .err => .err
    | .panic => .panic
    | .ok sr =>
      match readReg s sw sr with
      | .err => .err
      | .panic => .panic
      | .ok sv =>
        match dest with
        | .immediate _ _ => .err
        | _ =>
          match readRM s w dest with
          | .err => .err
          | .panic => .panic
          | .ok dv =>
            let (res, fl) := applyOp2 op (s.rflags &&& FLAG_CF != 0) w sw dv sv
            finish s w dest set clear fl res

/-- `calculate_r_rm`: destination register, source r/m.  `dfirst`: the flag-returning variants read
    the destination register before the source, the others after. -/
def calcRRm (s : Machine) (i : Instr) (w sw : Nat) (dfirst : Bool) (op : Op2) (set clear : BitVec 64) : Out Machine :=
  match instructionOperands2 i with
  | .err => .err
  | .panic => .panic
  | .ok (dest, src) =>
    if dfirst then
      match dest.toReg with
      | .err => .err
      | .panic => .panic
      | .ok dr =>
        match readReg s w dr with
        | .err => .err
        | .panic => .panic
        | .ok dv =>
          match readRM s sw src with
          | .err => .err
          | .panic => .panic
          | .ok sv =>
            let (res, fl) := applyOp2 op (s.rflags &&& FLAG_CF != 0) w sw dv sv
            finish s w (.register dr) set clear fl res
    else
      match readRM s sw src with
      | .err => .err
      | .panic => .panic
      | .ok sv =>
        match dest.toReg with
        | .err => .err
        | .panic => .panic
        | .ok dr =>
          match readReg s w dr with
          | .err => .err
          | .panic => .panic
          | .ok dv =>
            let (res, fl) := applyOp2 op (s.rflags &&& FLAG_CF != 0) w sw dv sv
            finish s w (.register dr) set clear fl res

/-- `calculate_rm_imm`: destination r/m, source immediate (`data as uN`). -/
def calcRmImm (s : Machine) (i : Instr) (w sw : Nat) (op : Op2) (set clear : BitVec 64) : Out Machine :=
  match instructionOperands2 i with
  | .err => .err
  | .panic => .panic
  | .ok (dest, src) =>
    match src with
    | .immediate data _ =>
      match dest with
      | .immediate _ _ => .err
      | _ =>
        match readRM s w dest with
        | .err => .err
        | .panic => .panic
        | .ok dv =>
          let (res, fl) := applyOp2 op (s.rflags &&& FLAG_CF != 0) w sw dv data
          finish s w dest set clear fl res
    | _ => .err

/-- `calculate_rm`: one r/m operand. -/
def calcRm (s : Machine) (i : Instr) (w : Nat) (op : Op1) (set clear : BitVec 64) : Out Machine :=
  match instructionOperand i 0 with
  | .err => .err
  | .panic => .panic
  | .ok dest =>
    match dest with
    | .immediate _ _ => .err
    | _ =>
      match readRM s w dest with
      | .err => .err
      | .panic => .panic
      | .ok v =>
        let (res, fl) := applyOp1 op w v
        finish s w dest set clear fl res

/-- TEST r/m, r and TEST r/m, imm: source first, then destination; flags only. -/
def execTest (s : Machine) (i : Instr) (w : Nat) (immForm : Bool) : Out Machine :=
  match instructionOperands2 i with
  | .err => .err
  | .panic => .panic
  | .ok (dest, src) =>
    let sv : Out (BitVec 64) := match src with
      | .register r => if immForm then .err else readReg s w r
      | .immediate d _ => if immForm then .ok d else .err
      | .memory _ => .err
    match sv with
    | .err => .err
    | .panic => .panic
    | .ok sv =>
      match dest with
      | .immediate _ _ => .err
      | _ =>
        match readRM s w dest with
        | .err => .err
        | .panic => .panic
        | .ok dv =>
          setFlagsW s w (FLAG_SF ||| FLAG_ZF ||| FLAG_PF) (FLAG_OF ||| FLAG_CF) ((dv &&& sv).setWidth w |>.setWidth 64)

/-! ### trace (src/helpers/trace.rs add_trace) -/

/-- saturating `i16` arithmetic on the nesting level -/
def satLevel (l : Int) : Int := if l < -32768 then -32768 else if 32767 < l then 32767 else l

/-- the level the next entry gets, from the last entry -/
def nextLevel (last : TraceEntry) : Int :=
  match last.variant with
  | .call => satLevel (last.level + 1)
  | .ret => satLevel (last.level - 1)
  | .jump => last.level

/-- the list part of `add_trace`: a repeated jump bumps the count of the last entry, anything else
    appends an entry at the level that follows from the last one. -/
def traceAdd (tr : List TraceEntry) (ip target : Nat) (v : TraceVariant) : List TraceEntry :=
  match tr.getLast? with
  | none => tr ++ [{ instrIp := ip, target := target, variant := v, level := 0, count := 1 }]
  | some last =>
    if last.variant = .jump ∧ last.instrIp = ip ∧ last.target = target ∧ v = .jump then
      tr.dropLast ++ [{ last with count := last.count + 1 }]
    else
      tr ++ [{ instrIp := ip, target := target, variant := v, level := nextLevel last, count := 1 }]

/-- `add_trace(i, target, variant)`; RIP already holds `next_ip`; `RIP.wrapping_sub(len)`. -/
def addTrace (s : Machine) (i : Instr) (target : BitVec 64) (v : TraceVariant) : Out Machine :=
  .ok { s with trace := traceAdd s.trace (s.regs.rip - BitVec.ofNat 64 i.len).toNat target.toNat v }

def setRip (s : Machine) (v : BitVec 64) : Machine := { s with regs := { s.regs with rip := v } }

/-- a taken near branch: `match i.op0_kind() { NearBranch64 => trace + RIP := target, _ => fatal_error }` -/
def takeBranch (s : Machine) (i : Instr) : Out Machine :=
  if i.op0NearBranch64 then
    match addTrace s i i.nearBranch .jump with
    | .ok s' => .ok (setRip s' i.nearBranch)
    | .err => .err
    | .panic => .panic
  else .err

/-- the sixteen-odd condition predicates, as the `j*.rs` files test them on rflags -/
def flagSet (f : BitVec 64) (m : BitVec 64) : Bool := f &&& m != 0

def cond (cc : String) (f : BitVec 64) : Option Bool :=
  match cc with
  | "Ja" => some (!flagSet f FLAG_CF && !flagSet f FLAG_ZF)
  | "Jae" => some (!flagSet f FLAG_CF)
  | "Jb" => some (flagSet f FLAG_CF)
  | "Jbe" => some (flagSet f FLAG_CF || flagSet f FLAG_ZF)
  | "Je" => some (flagSet f FLAG_ZF)
  | "Jne" => some (!flagSet f FLAG_ZF)
  | "Jg" => some (!flagSet f FLAG_ZF && (flagSet f FLAG_SF == flagSet f FLAG_OF))
  | "Jge" => some (flagSet f FLAG_SF == flagSet f FLAG_OF)
  | "Jl" => some (flagSet f FLAG_SF != flagSet f FLAG_OF)
  | "Jle" => some (flagSet f FLAG_ZF || (flagSet f FLAG_SF != flagSet f FLAG_OF))
  | "Jo" => some (flagSet f FLAG_OF)
  | "Jno" => some (!flagSet f FLAG_OF)
  | "Jp" => some (flagSet f FLAG_PF)
  | "Jnp" => some (!flagSet f FLAG_PF)
  | "Js" => some (flagSet f FLAG_SF)
  | "Jns" => some (!flagSet f FLAG_SF)
  | _ => none

/-! ### stack instructions (ax convention: store at `[RSP]` then `RSP -= n`; `RSP += n` then load) -/

def RSP : Fin 16 := 4
def RCX : Fin 16 := 1
def RAX : Fin 16 := 0
def RDX : Fin 16 := 2
def RBX : Fin 16 := 3

def pushVal (s : Machine) (n : Nat) (v : BitVec 64) : Out Machine :=
  let rsp := s.regs.get RSP
  match writeMem s (8 * n) rsp v with
  | .ok s' => .ok { s' with regs := s'.regs.set RSP (rsp - BitVec.ofNat 64 n) }
  | .err => .err
  | .panic => .panic

/-- `push_rip!` -/
def pushRip (s : Machine) : Out Machine := pushVal s 8 s.regs.rip

def execCallTo (s : Machine) (i : Instr) (target : BitVec 64) : Out Machine :=
  match pushRip s with
  | .err => .err
  | .panic => .panic
  | .ok s1 =>
    match addTrace s1 i target .call with
    | .err => .err
    | .panic => .panic
    | .ok s2 => .ok { setRip s2 target with callStack := s2.callStack ++ [target.toNat] }

/-- outcome of an instruction: `finish` is the `signals_normal_finish` error of a top-level RET -/
inductive ExecRes where
  | ok (s : Machine)
  | finish
  | err
  | panic
deriving Inhabited

def ExecRes.ofOut : Out Machine → ExecRes
  | .ok s => .ok s
  | .err => .err
  | .panic => .panic

def execRet (s : Machine) (i : Instr) : ExecRes :=
  let rsp := s.regs.get RSP + 8
  if rsp.toNat = s.stackTop then .finish else
  match readMem s 64 rsp with
  | .err => .err
  | .panic => .panic
  | .ok rip =>
    let s1 := { s with callStack := s.callStack.dropLast }
    match addTrace s1 i rip .ret with
    | .err => .err
    | .panic => .panic
    | .ok s2 => .ok { setRip s2 rip with regs := (setRip s2 rip).regs.set RSP rsp }

/-! ### the dispatch table -/

/-- how an iced `Code` is handled -/
inductive Handler where
  | rmR (w sw : Nat) (op : Op2) (set clear : BitVec 64)
  | rRm (w sw : Nat) (dfirst : Bool) (op : Op2) (set clear : BitVec 64)
  | rmImm (w sw : Nat) (op : Op2) (set clear : BitVec 64)
  | rm (w : Nat) (op : Op1) (set clear : BitVec 64)
  | test (w : Nat) (imm : Bool)
  | cmov (w : Nat) (cc : String)       -- condition on the flags, then r_rm
  | setcc (cc : String)
  | movzx8 (w : Nat)                   -- MOVZX r, r/m8 (custom body after the fix)
  | lea (w : Nat)
  | jcc (cc : String)
  | jmpNear | jmpRm | callNear | callRm | ret
  | jrcxz | jecxz
  | pushR (n : Nat) | pushImm (n : Nat) | pushRm16 | pushqImm8 | pushqImm32
  | popR (n : Nat)
  | nop | cld | cpuid | cdq | cdqe | cqo | cwd
  | mul (w : Nat) | imul1 (w : Nat) | imul2 (w : Nat) | imul3 (w : Nat)
  | div (w : Nat) | idiv (w : Nat)
  | hookOnly                           -- SYSCALL / INT n / INT1 / INT3: ok iff a hook is registered
  | xorps | movupsLoad | movupsStore | movdToXmm | movdFromXmm
  | unimplemented                      -- `opcode_unimplemented!` / `fatal_error!` bodies
deriving Repr, Inhabited, DecidableEq

def SZP : BitVec 64 := FLAG_SF ||| FLAG_ZF ||| FLAG_PF
def CO : BitVec 64 := FLAG_CF ||| FLAG_OF

/-- table rows for one ALU mnemonic with the standard twenty forms -/
def aluRows (name : String) (op : Op2) (set clear : BitVec 64) (flagged : Bool) : List (String × Handler) :=
  [ (name ++ "_rm8_r8", .rmR 8 8 op set clear), (name ++ "_rm16_r16", .rmR 16 16 op set clear),
    (name ++ "_rm32_r32", .rmR 32 32 op set clear), (name ++ "_rm64_r64", .rmR 64 64 op set clear),
    (name ++ "_r8_rm8", .rRm 8 8 flagged op set clear), (name ++ "_r16_rm16", .rRm 16 16 flagged op set clear),
    (name ++ "_r32_rm32", .rRm 32 32 flagged op set clear), (name ++ "_r64_rm64", .rRm 64 64 flagged op set clear),
    (name ++ "_AL_imm8", .rmImm 8 8 op set clear), (name ++ "_AX_imm16", .rmImm 16 16 op set clear),
    (name ++ "_EAX_imm32", .rmImm 32 32 op set clear), (name ++ "_RAX_imm32", .rmImm 64 64 op set clear),
    (name ++ "_rm8_imm8", .rmImm 8 8 op set clear), (name ++ "_rm16_imm16", .rmImm 16 16 op set clear),
    (name ++ "_rm32_imm32", .rmImm 32 32 op set clear), (name ++ "_rm64_imm32", .rmImm 64 64 op set clear),
    (name ++ "_rm8_imm8_82", .rmImm 8 8 op set clear), (name ++ "_rm16_imm8", .rmImm 16 16 op set clear),
    (name ++ "_rm32_imm8", .rmImm 32 32 op set clear), (name ++ "_rm64_imm8", .rmImm 64 64 op set clear) ]

def jccRows : List (String × Handler) :=
  ["Ja","Jae","Jb","Jbe","Je","Jne","Jg","Jge","Jl","Jle","Jo","Jno","Jp","Jnp","Js","Jns"].flatMap fun cc =>
    [ (cc ++ "_rel8_64", Handler.jcc cc), (cc ++ "_rel32_64", .jcc cc),
      (cc ++ "_rel8_16", .unimplemented), (cc ++ "_rel8_32", .unimplemented),
      (cc ++ "_rel16", .unimplemented), (cc ++ "_rel32_32", .unimplemented) ]

def U : BitVec 64 := FLAGS_UNAFFECTED

def table : List (String × Handler) :=
  aluRows "Add" .add SZP CO true ++
  aluRows "Adc" .adc SZP CO true ++
  aluRows "Sub" .sub SZP CO true ++
  aluRows "Cmp" .sub (NO_WRITEBACK ||| SZP) CO true ++
  aluRows "And" .and SZP CO true ++
  aluRows "Xor" .xor SZP CO false ++
  jccRows ++
  [ -- MOV
    ("Mov_rm8_r8", .rmR 8 8 .mov U 0), ("Mov_rm16_r16", .rmR 16 16 .mov U 0),
    ("Mov_rm32_r32", .rmR 32 32 .mov U 0), ("Mov_rm64_r64", .rmR 64 64 .mov U 0),
    ("Mov_r8_rm8", .rRm 8 8 false .mov U 0), ("Mov_r16_rm16", .rRm 16 16 false .mov U 0),
    ("Mov_r32_rm32", .rRm 32 32 false .mov U 0), ("Mov_r64_rm64", .rRm 64 64 false .mov U 0),
    ("Mov_AL_moffs8", .rRm 8 8 false .mov U 0), ("Mov_AX_moffs16", .rRm 16 16 false .mov U 0),
    ("Mov_EAX_moffs32", .rRm 32 32 false .mov U 0), ("Mov_RAX_moffs64", .rRm 64 64 false .mov U 0),
    ("Mov_moffs8_AL", .rmR 8 8 .mov U 0), ("Mov_moffs16_AX", .rmR 16 16 .mov U 0),
    ("Mov_moffs32_EAX", .rmR 32 32 .mov U 0), ("Mov_moffs64_RAX", .rmR 64 64 .mov U 0),
    ("Mov_r8_imm8", .rmImm 8 8 .mov U 0), ("Mov_r16_imm16", .rmImm 16 16 .mov U 0),
    ("Mov_r32_imm32", .rmImm 32 32 .mov U 0), ("Mov_r64_imm64", .rmImm 64 64 .mov U 0),
    ("Mov_rm8_imm8", .rmImm 8 8 .mov U 0), ("Mov_rm16_imm16", .rmImm 16 16 .mov U 0),
    ("Mov_rm32_imm32", .rmImm 32 32 .mov U 0), ("Mov_rm64_imm32", .rmImm 64 64 .mov U 0),
    ("Mov_rm16_Sreg", .unimplemented), ("Mov_r32m16_Sreg", .unimplemented), ("Mov_r64m16_Sreg", .unimplemented),
    ("Mov_Sreg_rm16", .unimplemented), ("Mov_Sreg_r32m16", .unimplemented), ("Mov_Sreg_r64m16", .unimplemented),
    ("Mov_r32_cr", .unimplemented), ("Mov_r64_cr", .unimplemented), ("Mov_r32_dr", .unimplemented),
    ("Mov_r64_dr", .unimplemented), ("Mov_cr_r32", .unimplemented), ("Mov_cr_r64", .unimplemented),
    ("Mov_dr_r32", .unimplemented), ("Mov_dr_r64", .unimplemented), ("Mov_r32_tr", .unimplemented),
    ("Mov_tr_r32", .unimplemented),
    -- MOVZX / MOVSXD
    ("Movzx_r16_rm8", .movzx8 16), ("Movzx_r32_rm8", .movzx8 32), ("Movzx_r64_rm8", .movzx8 64),
    ("Movzx_r32_rm16", .rRm 32 16 false .movzx U 0), ("Movzx_r64_rm16", .rRm 64 16 false .movzx U 0),
    ("Movsxd_r64_rm32", .rRm 64 32 false .movsx U 0),
    -- unary
    ("Inc_rm8", .rm 8 .inc SZP FLAG_OF), ("Inc_rm16", .rm 16 .inc SZP FLAG_OF),
    ("Inc_rm32", .rm 32 .inc SZP FLAG_OF), ("Inc_rm64", .rm 64 .inc SZP FLAG_OF),
    ("Inc_r16", .unimplemented), ("Inc_r32", .unimplemented),
    ("Dec_rm8", .rm 8 .dec SZP FLAG_OF), ("Dec_rm16", .rm 16 .dec SZP FLAG_OF),
    ("Dec_rm32", .rm 32 .dec SZP FLAG_OF), ("Dec_rm64", .rm 64 .dec SZP FLAG_OF),
    ("Dec_r16", .unimplemented), ("Dec_r32", .unimplemented),
    ("Neg_rm8", .rm 8 .neg SZP CO), ("Neg_rm16", .rm 16 .neg SZP CO),
    ("Neg_rm32", .rm 32 .neg SZP CO), ("Neg_rm64", .rm 64 .neg SZP CO),
    ("Not_rm8", .rm 8 .not U 0), ("Not_rm16", .rm 16 .not U 0),
    ("Not_rm32", .rm 32 .not U 0), ("Not_rm64", .rm 64 .not U 0),
    -- TEST
    ("Test_rm8_r8", .test 8 false), ("Test_rm16_r16", .test 16 false),
    ("Test_rm32_r32", .test 32 false), ("Test_rm64_r64", .test 64 false),
    ("Test_AL_imm8", .test 8 true), ("Test_AX_imm16", .test 16 true),
    ("Test_EAX_imm32", .test 32 true), ("Test_RAX_imm32", .test 64 true),
    ("Test_rm8_imm8", .test 8 true), ("Test_rm16_imm16", .test 16 true),
    ("Test_rm32_imm32", .test 32 true), ("Test_rm64_imm32", .test 64 true),
    ("Test_rm8_imm8_F6r1", .unimplemented), ("Test_rm16_imm16_F7r1", .unimplemented),
    ("Test_rm32_imm32_F7r1", .unimplemented), ("Test_rm64_imm32_F7r1", .unimplemented),
    -- CMOVcc / SETcc
    ("Cmovae_r16_rm16", .cmov 16 "Jae"), ("Cmovae_r32_rm32", .cmov 32 "Jae"), ("Cmovae_r64_rm64", .cmov 64 "Jae"),
    ("Cmove_r16_rm16", .cmov 16 "Je"), ("Cmove_r32_rm32", .cmov 32 "Je"), ("Cmove_r64_rm64", .cmov 64 "Je"),
    ("Cmovne_r16_rm16", .cmov 16 "Jne"), ("Cmovne_r32_rm32", .cmov 32 "Jne"), ("Cmovne_r64_rm64", .cmov 64 "Jne"),
    ("Setb_rm8", .setcc "Jb"), ("Sete_rm8", .setcc "Je"), ("Setne_rm8", .setcc "Jne"),
    -- LEA
    ("Lea_r16_m", .lea 16), ("Lea_r32_m", .lea 32), ("Lea_r64_m", .lea 64),
    -- control transfer
    ("Jmp_rel8_64", .jmpNear), ("Jmp_rel32_64", .jmpNear), ("Jmp_rm64", .jmpRm),
    ("Jmp_rel16", .unimplemented), ("Jmp_rel32_32", .unimplemented), ("Jmp_ptr1616", .unimplemented),
    ("Jmp_ptr1632", .unimplemented), ("Jmp_rel8_32", .unimplemented), ("Jmp_rm16", .unimplemented),
    ("Jmp_rm32", .unimplemented), ("Jmp_m1616", .unimplemented), ("Jmp_m1632", .unimplemented), ("Jmp_m1664", .unimplemented),
    ("Call_rel32_64", .callNear), ("Call_rm64", .callRm),
    ("Call_ptr1616", .unimplemented), ("Call_ptr1632", .unimplemented), ("Call_rel16", .unimplemented),
    ("Call_rel32_32", .unimplemented), ("Call_rm16", .unimplemented), ("Call_rm32", .unimplemented),
    ("Call_m1616", .unimplemented), ("Call_m1632", .unimplemented), ("Call_m1664", .unimplemented),
    ("Retnq", .ret),
    ("Retnw_imm16", .unimplemented), ("Retnd_imm16", .unimplemented), ("Retnq_imm16", .unimplemented),
    ("Retnw", .unimplemented), ("Retnd", .unimplemented), ("Retfw_imm16", .unimplemented),
    ("Retfd_imm16", .unimplemented), ("Retfq_imm16", .unimplemented), ("Retfw", .unimplemented),
    ("Retfd", .unimplemented), ("Retfq", .unimplemented),
    ("Jrcxz_rel8_64", .jrcxz), ("Jrcxz_rel8_16", .unimplemented),
    ("Jecxz_rel8_64", .jecxz), ("Jecxz_rel8_16", .unimplemented), ("Jecxz_rel8_32", .unimplemented),
    -- stack
    ("Push_r16", .pushR 2), ("Push_r64", .pushR 8), ("Push_r32", .unimplemented),
    ("Push_imm16", .pushImm 2), ("Push_rm16", .pushRm16), ("Push_rm32", .unimplemented), ("Push_rm64", .unimplemented),
    ("Pushq_imm8", .pushqImm8), ("Pushq_imm32", .pushqImm32),
    ("Pop_r16", .popR 2), ("Pop_r64", .popR 8), ("Pop_r32", .unimplemented),
    ("Pop_rm16", .unimplemented), ("Pop_rm32", .unimplemented), ("Pop_rm64", .unimplemented),
    -- misc
    ("Nopw", .nop), ("Nopd", .nop), ("Nopq", .nop), ("Nop_rm16", .nop), ("Nop_rm32", .nop), ("Nop_rm64", .nop),
    ("Endbr64", .nop), ("Cld", .cld), ("Cpuid", .cpuid),
    ("Cdq", .cdq), ("Cdqe", .cdqe), ("Cqo", .cqo), ("Cwd", .cwd),
    ("Syscall", .hookOnly), ("Int_imm8", .hookOnly), ("Int1", .hookOnly), ("Int3", .hookOnly),
    -- shifts
    ("Shl_rm8_imm8", .rmImm 8 8 .shl SZP CO), ("Shl_rm16_imm8", .rmImm 16 8 .shl SZP CO),
    ("Shl_rm32_imm8", .rmImm 32 8 .shl SZP CO), ("Shl_rm64_imm8", .rmImm 64 8 .shl SZP CO),
    ("Shl_rm8_1", .rmImm 8 8 .shl1 SZP CO), ("Shl_rm16_1", .rmImm 16 8 .shl1 SZP CO),
    ("Shl_rm32_1", .rmImm 32 8 .shl1 SZP CO), ("Shl_rm64_1", .rmImm 64 8 .shl1 SZP CO),
    ("Shl_rm8_CL", .rmR 8 8 .shl SZP CO), ("Shl_rm16_CL", .rmR 16 8 .shl SZP CO),
    ("Shl_rm32_CL", .rmR 32 8 .shl SZP CO), ("Shl_rm64_CL", .rmR 64 8 .shl SZP CO),
    ("Shr_rm8_imm8", .rmImm 8 8 .shr SZP CO), ("Shr_rm16_imm8", .rmImm 16 8 .shr SZP CO),
    ("Shr_rm32_imm8", .rmImm 32 8 .shr SZP CO), ("Shr_rm64_imm8", .rmImm 64 8 .shr SZP CO),
    ("Shr_rm8_1", .rmImm 8 8 .shr1 SZP CO), ("Shr_rm16_1", .rmImm 16 8 .shr1 SZP CO),
    ("Shr_rm32_1", .rmImm 32 8 .shr1 SZP CO), ("Shr_rm64_1", .rmImm 64 8 .shr1 SZP CO),
    ("Shr_rm8_CL", .rmR 8 8 .shr SZP CO), ("Shr_rm16_CL", .rmR 16 8 .shr SZP CO),
    ("Shr_rm32_CL", .rmR 32 8 .shr SZP CO), ("Shr_rm64_CL", .rmR 64 8 .shr SZP CO),
    -- multiply / divide
    ("Mul_rm8", .mul 8), ("Mul_rm16", .mul 16), ("Mul_rm32", .mul 32), ("Mul_rm64", .mul 64),
    ("Imul_rm8", .imul1 8), ("Imul_rm16", .imul1 16), ("Imul_rm32", .imul1 32), ("Imul_rm64", .imul1 64),
    ("Imul_r16_rm16", .imul2 16), ("Imul_r32_rm32", .imul2 32), ("Imul_r64_rm64", .imul2 64),
    ("Imul_r16_rm16_imm16", .imul3 16), ("Imul_r32_rm32_imm32", .imul3 32), ("Imul_r64_rm64_imm32", .imul3 64),
    ("Imul_r16_rm16_imm8", .imul3 16), ("Imul_r32_rm32_imm8", .imul3 32), ("Imul_r64_rm64_imm8", .imul3 64),
    ("Div_rm8", .div 8), ("Div_rm16", .div 16), ("Div_rm32", .div 32), ("Div_rm64", .div 64),
    ("Idiv_rm8", .idiv 8), ("Idiv_rm16", .idiv 16), ("Idiv_rm32", .idiv 32), ("Idiv_rm64", .idiv 64),
    -- SSE
    ("Xorps_xmm_xmmm128", .xorps), ("Movups_xmm_xmmm128", .movupsLoad), ("Movups_xmmm128_xmm", .movupsStore),
    ("Movd_xmm_rm32", .movdToXmm), ("Movd_rm32_xmm", .movdFromXmm),
    ("Movd_mm_rm32", .unimplemented), ("Movd_rm32_mm", .unimplemented) ]

def lookup (code : String) : Option Handler := (table.find? (·.1 == code)).map (·.2)

/-- 128-bit memory access -/
def readMem128 (s : Machine) (a : BitVec 64) : Out (BitVec 128) :=
  match memReadN s.mem 16 a.toNat with
  | .ok v => .ok (BitVec.ofNat 128 v)
  | .err => .err
  | .panic => .panic

def readXmmRM (s : Machine) (o : AxOperand) : Out (BitVec 128) :=
  match o with
  | .register r => regRead128 s.regs r
  | .memory m =>
    match memAddr s m with
    | .ok a => readMem128 s a
    | .err => .err
    | .panic => .panic
  | .immediate _ _ => .err

def writeXmm (s : Machine) (r : Reg) (v : BitVec 128) : Out Machine :=
  match regWrite128 s.regs r v with
  | .ok rs => .ok { s with regs := rs }
  | .err => .err
  | .panic => .panic

/-! ### multiply and divide -/

/-- accumulator views: AL/AX/EAX/RAX and the high half AH/DX/EDX/RDX -/
def accLo (w : Nat) : Reg := match w with | 8 => .g8 RAX | 16 => .g16 RAX | 32 => .g32 RAX | _ => .g64 RAX
def accHi (w : Nat) : Reg := match w with | 8 => .h8 0 | 16 => .g16 RDX | 32 => .g32 RDX | _ => .g64 RDX

/-- MUL/IMUL flag update: `set_flags(ovf ? CF|OF : 0, ovf ? 0 : CF|OF, 0)` — a zero "result" -/
def mulFlags (s : Machine) (fw : Nat) (ovf : Bool) : Out Machine :=
  setFlagsW s fw (if ovf then CO else 0) (if ovf then 0 else CO) 0

/-- read the single r/m operand of MUL/IMUL/DIV/IDIV -/
def readOp0 (s : Machine) (i : Instr) (w : Nat) : Out (BitVec 64) :=
  match instructionOperand i 0 with
  | .err => .err
  | .panic => .panic
  | .ok o =>
    match o with
    | .immediate _ _ => .err
    | _ => readRM s w o

/-- write a `2w`-bit product: 8 bit → AX, otherwise low → A, high → D -/
def writeProduct (s : Machine) (w : Nat) (p : Nat) : Out Machine :=
  if w = 8 then writeReg s 16 (.g16 RAX) (BitVec.ofNat 64 (p % 2 ^ 16))
  else
    match writeReg s w (accLo w) (BitVec.ofNat 64 (p % 2 ^ w)) with
    | .ok s1 => writeReg s1 w (accHi w) (BitVec.ofNat 64 (p / 2 ^ w % 2 ^ w))
    | .err => .err
    | .panic => .panic

/-- MUL r/m: unsigned accumulator × operand; CF = OF = (upper half ≠ 0); flags through `set_flags_u8` -/
def execMul (s : Machine) (i : Instr) (w : Nat) : Out Machine :=
  match readOp0 s i w with
  | .err => .err
  | .panic => .panic
  | .ok src =>
    match readReg s w (accLo w) with
    | .err => .err
    | .panic => .panic
    | .ok dst =>
      let p := dst.toNat * src.toNat
      match writeProduct s w p with
      | .err => .err
      | .panic => .panic
      | .ok s1 => mulFlags s1 8 (p / 2 ^ w % 2 ^ w != 0)

/-- signed value of the low `w` bits -/
def sval (w : Nat) (v : BitVec 64) : Int := (v.setWidth w).toInt

/-- two's complement of an integer in `n` bits, as a natural number -/
def twos (n : Nat) (x : Int) : Nat := (x % (2 ^ n : Int)).toNat

/-- does the signed product fit in `w` bits? (`result >> (w-1)` is neither 0 nor −1) -/
def sfits (w : Nat) (x : Int) : Bool := decide (-(2 ^ (w - 1) : Int) ≤ x) && decide (x < (2 ^ (w - 1) : Int))

/-- IMUL r/m (one operand): signed accumulator × operand into A (and D); flags at the operand width
    (8-bit form: `set_flags_u8`) -/
def execImul1 (s : Machine) (i : Instr) (w : Nat) : Out Machine :=
  match readOp0 s i w with
  | .err => .err
  | .panic => .panic
  | .ok src =>
    match readReg s w (accLo w) with
    | .err => .err
    | .panic => .panic
    | .ok dst =>
      let p : Int := sval w dst * sval w src
      match writeProduct s w (twos (2 * w) p) with
      | .err => .err
      | .panic => .panic
      | .ok s1 => mulFlags s1 w (!sfits w p)

/-- IMUL r, r/m: source first, then the destination, which must be a register -/
def execImul2 (s : Machine) (i : Instr) (w : Nat) : Out Machine :=
  match instructionOperands2 i with
  | .err => .err
  | .panic => .panic
  | .ok (dest, src) =>
    match src with
    | .immediate _ _ => .err
    | _ =>
      match readRM s w src with
      | .err => .err
      | .panic => .panic
      | .ok sv =>
        match dest with
        | .register dr =>
          match readReg s w dr with
          | .err => .err
          | .panic => .panic
          | .ok dv =>
            let p : Int := sval w dv * sval w sv
            match writeReg s w dr (BitVec.ofNat 64 (twos w p)) with
            | .err => .err
            | .panic => .panic
            | .ok s1 => mulFlags s1 w (!sfits w p)
        | _ => .err

/-- IMUL r, r/m, imm: `overflowing_mul` at the operand width; flags through `set_flags_u8` -/
def execImul3 (s : Machine) (i : Instr) (w : Nat) : Out Machine :=
  match instructionOperands2 i with
  | .err => .err
  | .panic => .panic
  | .ok (dest, src) =>
    match instructionOperand i 2 with
    | .err => .err
    | .panic => .panic
    | .ok imm =>
      match src with
      | .immediate _ _ => .err
      | _ =>
        match readRM s w src with
        | .err => .err
        | .panic => .panic
        | .ok sv =>
          match imm with
          | .immediate data _ =>
            let p : Int := sval w sv * sval w data
            match dest.toReg with
            | .err => .err
            | .panic => .panic
            | .ok dr =>
              match writeReg s w dr (BitVec.ofNat 64 (twos w p)) with
              | .err => .err
              | .panic => .panic
              | .ok s1 => mulFlags s1 8 (!sfits w p)
          | _ => .err

/-- the `2w`-bit dividend D:A (8 bit: AX) -/
def dividend (s : Machine) (w : Nat) : Nat :=
  if w = 8 then (s.regs.get RAX).toNat % 2 ^ 16
  else (s.regs.get RAX).toNat % 2 ^ w + 2 ^ w * ((s.regs.get RDX).toNat % 2 ^ w)

/-- write quotient and remainder: 8 bit → AL, AH; otherwise A, D -/
def writeQuotRem (s : Machine) (w : Nat) (q r : Nat) : Out Machine :=
  match writeReg s w (accLo w) (BitVec.ofNat 64 q) with
  | .ok s1 => writeReg s1 w (accHi w) (BitVec.ofNat 64 r)
  | .err => .err
  | .panic => .panic

/-- DIV r/m: zero divisor or a quotient that does not fit → error -/
def execDiv (s : Machine) (i : Instr) (w : Nat) : Out Machine :=
  match readOp0 s i w with
  | .err => .err
  | .panic => .panic
  | .ok src =>
    if src.toNat = 0 then .err else
    let n := dividend s w
    let q := n / src.toNat
    if 2 ^ w ≤ q then .err else writeQuotRem s w q (n % src.toNat)

/-- IDIV r/m: truncating signed division; zero divisor or quotient out of range → error.
    The 64-bit form takes its divisor zero-extended (as the code does: known finding). -/
def execIdiv (s : Machine) (i : Instr) (w : Nat) : Out Machine :=
  match readOp0 s i w with
  | .err => .err
  | .panic => .panic
  | .ok src =>
    let d : Int := if w = 64 then (src.toNat : Int) else sval w src
    if d = 0 then .err else
    let n : Int := (BitVec.ofNat (2 * w) (dividend s w)).toInt
    let q := Int.tdiv n d
    let r := Int.tmod n d
    if !sfits w q then .err else writeQuotRem s w (twos w q) (twos w r)

/-- does any hook exist for this mnemonic?  (parameter of `exec`: the hook table lives outside) -/
abbrev HasHooks := String → Bool

/-- execute one decoded instruction (RIP already advanced to `next_ip`) -/
def exec (hasHooks : HasHooks) (i : Instr) (s : Machine) : ExecRes :=
  match lookup i.code with
  | none => .err      -- mnemonic not dispatched, or `_ => fatal_error!("Invalid instruction code")`
  | some h =>
    match h with
    | .unimplemented => .err
    | .rmR w sw op set clear => .ofOut (calcRmR s i w sw op set clear)
    | .rRm w sw df op set clear => .ofOut (calcRRm s i w sw df op set clear)
    | .rmImm w sw op set clear => .ofOut (calcRmImm s i w sw op set clear)
    | .rm w op set clear => .ofOut (calcRm s i w op set clear)
    | .test w imm => .ofOut (execTest s i w imm)
    | .cmov w cc =>
      match cond cc s.rflags with
      | some c => .ofOut (calcRRm s i w w false (.cmov c) U 0)
      | none => .err
    | .setcc cc =>
      match cond cc s.rflags with
      | some c => .ofOut (calcRm s i 8 (.set c) U 0)
      | none => .err
    | .movzx8 w =>
      .ofOut (match instructionOperands2 i with
        | .err => .err
        | .panic => .panic
        | .ok (dest, src) =>
          match src with
          | .immediate _ _ => .err
          | _ =>
            match readRM s 8 src with
            | .err => .err
            | .panic => .panic
            | .ok v =>
              match dest.toReg with
              | .err => .err
              | .panic => .panic
              | .ok dr => writeReg s w dr v)
    | .lea w =>
      .ofOut (match instructionOperands2 i with
        | .err => .err
        | .panic => .panic
        | .ok (dest, src) =>
          match src with
          | .memory m =>
            match effectiveAddr s.regs m with
            | .err => .err
            | .panic => .panic
            | .ok a =>
              match dest.toReg with
              | .err => .err
              | .panic => .panic
              | .ok dr => writeReg s w dr ((a.setWidth w).setWidth 64)
          | _ => .err)
    | .jcc cc =>
      match cond cc s.rflags with
      | some true => .ofOut (takeBranch s i)
      | some false => .ok s
      | none => .err
    | .jmpNear => .ofOut (takeBranch s i)
    | .jmpRm =>
      .ofOut (match instructionOperand i 0 with
        | .err => .err
        | .panic => .panic
        | .ok o =>
          match o with
          | .immediate _ _ => .err
          | _ =>
            match readRM s 64 o with
            | .err => .err
            | .panic => .panic
            | .ok a =>
              match addTrace s i a .jump with
              | .ok s' => .ok (setRip s' a)
              | .err => .err
              | .panic => .panic)
    | .callNear => if i.op0NearBranch64 then .ofOut (execCallTo s i i.nearBranch) else .err
    | .callRm =>
      .ofOut (match instructionOperand i 0 with
        | .err => .err
        | .panic => .panic
        | .ok o =>
          match o with
          | .immediate _ _ => .err
          | _ =>
            match readRM s 64 o with
            | .err => .err
            | .panic => .panic
            | .ok a => execCallTo s i a)
    | .ret => execRet s i
    | .jrcxz => if s.regs.get RCX == 0 then .ofOut (takeBranch s i) else .ok s
    | .jecxz => if (s.regs.get RCX &&& 0xFFFFFFFF#64) == 0 then .ofOut (takeBranch s i) else .ok s
    | .pushR n =>
      -- `i.op0_register().into()`
      .ofOut (match i.op0 with
        | some (.reg rs) =>
          match rs.toSupported with
          | .ok r =>
            match readReg s (8 * n) r with
            | .ok v => pushVal s n v
            | .err => .err
            | .panic => .panic
          | .err => .err
          | .panic => .panic
        | _ => .panic)
    | .pushImm n =>
      .ofOut (match i.op0 with
        | some (.imm _ d) => pushVal s n (d &&& 0xFFFF#64)
        | _ => .err)
    | .pushRm16 =>
      .ofOut (match instructionOperand i 0 with
        | .err => .err
        | .panic => .panic
        | .ok o =>
          match o with
          | .immediate _ _ => .err
          | _ =>
            match readRM s 16 o with
            | .ok v => pushVal s 2 v
            | .err => .err
            | .panic => .panic)
    | .pushqImm8 =>
      .ofOut (match i.op0 with
        | some (.imm 2 d) => pushVal s 2 (d &&& 0xFFFF#64)
        | some (.imm 4 d) => pushVal s 4 (d &&& 0xFFFFFFFF#64)
        | some (.imm 8 d) => pushVal s 8 d
        | _ => .err)
    | .pushqImm32 =>
      .ofOut (match i.op0 with
        | some (.imm 8 d) => pushVal s 8 d
        | _ => .err)
    | .popR n =>
      .ofOut (match i.op0 with
        | some (.reg rs) =>
          match rs.toSupported with
          | .ok r =>
            let rsp := s.regs.get RSP + BitVec.ofNat 64 n
            match readMem s (8 * n) rsp with
            | .ok v => writeReg { s with regs := s.regs.set RSP rsp } (8 * n) r v
            | .err => .err
            | .panic => .panic
          | .err => .err
          | .panic => .panic
        | _ => .panic)
    | .nop => .ok s
    | .cld => .ok { s with rflags := s.rflags &&& ~~~FLAG_DF }
    | .cpuid =>
      .ok { s with regs := (((s.regs.set RAX 0).set RBX 0).set RCX 0).set RDX 0 }
    | .cdq =>
      let eax := s.regs.get RAX &&& 0xFFFFFFFF#64
      .ok { s with regs := s.regs.set RDX (if eax &&& 0x80000000#64 == 0 then 0 else 0xFFFFFFFF#64) }
    | .cdqe =>
      .ok { s with regs := s.regs.set RAX (((s.regs.get RAX).setWidth 32).signExtend 64) }
    | .cqo =>
      .ok { s with regs := s.regs.set RDX (if (s.regs.get RAX).msb then 0xFFFFFFFFFFFFFFFF#64 else 0) }
    | .cwd =>
      let ax := s.regs.get RAX &&& 0xFFFF#64
      let dx : BitVec 64 := if ax &&& 0x8000#64 == 0x8000#64 then 0xFFFF#64 else 0
      .ok { s with regs := s.regs.set RDX ((s.regs.get RDX &&& 0xFFFFFFFFFFFF0000#64) ||| dx) }
    | .mul w => .ofOut (execMul s i w)
    | .imul1 w => .ofOut (execImul1 s i w)
    | .imul2 w => .ofOut (execImul2 s i w)
    | .imul3 w => .ofOut (execImul3 s i w)
    | .div w => .ofOut (execDiv s i w)
    | .idiv w => .ofOut (execIdiv s i w)
    | .hookOnly => if hasHooks i.mnem then .ok s else .err
    | .xorps =>
      .ofOut (match instructionOperands2 i with
        | .err => .err
        | .panic => .panic
        | .ok (dest, src) =>
          match dest.toReg with
          | .err => .err
          | .panic => .panic
          | .ok dr =>
            -- a memory operand must be 16-byte aligned
            let sv : Out (BitVec 128) := match src with
              | .memory m =>
                match memAddr s m with
                | .ok a => if a &&& 0xf#64 != 0 then .err else readMem128 s a
                | .err => .err
                | .panic => .panic
              | _ => readXmmRM s src
            match sv with
            | .err => .err
            | .panic => .panic
            | .ok sv =>
              match regRead128 s.regs dr with
              | .err => .err
              | .panic => .panic
              | .ok dv => writeXmm s dr (dv ^^^ sv))
    | .movupsLoad =>
      .ofOut (match instructionOperands2 i with
        | .err => .err
        | .panic => .panic
        | .ok (dest, src) =>
          match dest.toReg with
          | .err => .err
          | .panic => .panic
          | .ok dr =>
            match readXmmRM s src with
            | .err => .err
            | .panic => .panic
            | .ok sv => writeXmm s dr sv)
    | .movupsStore =>
      .ofOut (match instructionOperands2 i with
        | .err => .err
        | .panic => .panic
        | .ok (dest, src) =>
          match src.toReg with
          | .err => .err
          | .panic => .panic
          | .ok sr =>
            match regRead128 s.regs sr with
            | .err => .err
            | .panic => .panic
            | .ok v =>
              match dest with
              | .register r => writeXmm s r v
              | .memory m =>
                match memAddr s m with
                | .ok a => s.withMem (memWriteBytes s.mem a.toNat (leBytes 16 v.toNat))
                | .err => .err
                | .panic => .panic
              | .immediate _ _ => .err)
    | .movdToXmm =>
      .ofOut (match instructionOperands2 i with
        | .err => .err
        | .panic => .panic
        | .ok (dest, src) =>
          match src with
          | .immediate _ _ => .err
          | _ =>
            match readRM s 32 src with
            | .err => .err
            | .panic => .panic
            | .ok v =>
              match dest with
              | .register r => writeXmm s r (v.setWidth 128)
              | _ => .err)
    | .movdFromXmm =>
      .ofOut (match instructionOperands2 i with
        | .err => .err
        | .panic => .panic
        | .ok (dest, src) =>
          match src with
          | .register r =>
            match regRead128 s.regs r with
            | .err => .err
            | .panic => .panic
            | .ok v =>
              match dest with
              | .immediate _ _ => .err
              | _ => writeRM s 32 dest ((v.setWidth 32).setWidth 64)
          | _ => .err)

end Ax
