/-
  AxVerif.Model.Instr — the decoded instruction as iced-x86 presents it to ax, the operand layer
  (src/helpers/operand.rs: instruction_operand, effective_addr, mem_addr) and the flag macro
  (src/state/flags.rs: set_flags!).
-/
import AxVerif.Model.Machine
namespace Ax

/-- a register field of the decoded instruction: absent, a `SupportedRegister`, or some other
    iced register (segment, MMX, YMM, control …) for which `SupportedRegister::from` panics -/
inductive RegSpec where
  | none
  | reg (r : Reg)
  | unsupported
deriving DecidableEq, Repr, Inhabited

/-- `memory_segment()` -/
inductive SegSpec where
  | none | es | cs | ss | ds | fs | gs | other
deriving DecidableEq, Repr, Inhabited

/-- operand kinds as `instruction_operand` distinguishes them; `imm` carries the value already
    extended the way `instruction_operand` asks iced for it (`immediate8to64() as u64` …) -/
inductive OpSpec where
  | reg (r : RegSpec)
  | mem
  | imm (size : Nat) (data : BitVec 64)
  | other
deriving DecidableEq, Repr, Inhabited

structure Instr where
  code : String
  mnem : String
  len : Nat
  nextIp : BitVec 64
  ops : List OpSpec
  base : RegSpec := .none
  index : RegSpec := .none
  scale : Nat := 1
  disp : BitVec 64 := 0
  seg : SegSpec := .none
  /-- `near_branch64()` (meaningful for NearBranch64 operands) -/
  nearBranch : BitVec 64 := 0
  /-- is operand 0 a `NearBranch64`? -/
  op0NearBranch64 : Bool := false
deriving Repr, Inhabited

/-- `SupportedSegmentRegister` -/
inductive Seg where
  | cs | ds | es | ss | fs | gs
deriving DecidableEq, Repr, Inhabited

structure MemOperand where
  base : Option Reg
  index : Option Reg
  seg : Option Seg
  scale : Nat
  disp : BitVec 64
deriving DecidableEq, Repr, Inhabited

/-- ax's `Operand` -/
inductive AxOperand where
  | memory (m : MemOperand)
  | register (r : Reg)
  | immediate (data : BitVec 64) (size : Nat)
deriving DecidableEq, Repr, Inhabited

/-- `SupportedRegister::from(r)` for a register field known to be present -/
def RegSpec.toSupported : RegSpec → Out Reg
  | .reg r => .ok r
  | .none => .panic
  | .unsupported => .panic

/-- `instruction_operand(i, idx)` -/
def instructionOperand (i : Instr) (idx : Nat) : Out AxOperand :=
  match i.ops[idx]? with
  | none => .panic                              -- assert!(operand_idx < i.op_count())
  | some (.mem) =>
    -- base: None, RIP and EIP give no base register (the displacement already is the target)
    let base : Out (Option Reg) := match i.base with
      | .none => .ok none
      | .reg .rip => .ok none
      | .reg .eip => .ok none
      | .reg r => .ok (some r)
      | .unsupported => .panic
    let index : Out (Option Reg) := match i.index with
      | .none => .ok none
      | .reg r => .ok (some r)
      | .unsupported => .panic
    let seg : Out (Option Seg) := match i.seg with
      | .none => .ok none
      | .ds => .ok (some .ds)
      | .es => .ok (some .es)
      | .ss => .ok (some .ss)
      | .fs => .ok (some .fs)
      | .gs => .ok (some .gs)
      | .cs => .ok (some .cs)
      | .other => .err
    match base with
    | .panic => .panic
    | .err => .err
    | .ok b =>
      match index with
      | .panic => .panic
      | .err => .err
      | .ok ix =>
        match seg with
        | .panic => .panic
        | .err => .err
        | .ok sg => .ok (.memory { base := b, index := ix, seg := sg, scale := i.scale, disp := i.disp })
  | some (.reg r) =>
    match r.toSupported with
    | .ok r => .ok (.register r)
    | .err => .err
    | .panic => .panic
  | some (.imm size data) => .ok (.immediate data size)
  | some .other => .err

/-- `instruction_operands_2` -/
def instructionOperands2 (i : Instr) : Out (AxOperand × AxOperand) :=
  match instructionOperand i 0 with
  | .ok d =>
    match instructionOperand i 1 with
    | .ok s => .ok (d, s)
    | .err => .err
    | .panic => .panic
  | .err => .err
  | .panic => .panic

/-- `mem_addr_register`: value of a base/index register and whether it was a 32-bit one.
    `reg_read_..(..).expect(..)`: any other register class is a panic. -/
def addrRegister (rs : Regs) (r : Reg) : Out (BitVec 64 × Bool) :=
  match r with
  | .g32 i => .ok (rs.get i &&& 0xFFFFFFFF#64, true)
  | .g64 i => .ok (rs.get i, false)
  | .rip => .ok (rs.rip, false)
  | _ => .panic

/-- `effective_addr`: wrapping base + index·scale + displacement, wrapped at 2^32 for 32-bit
    address size; no segment base. -/
def effectiveAddr (rs : Regs) (m : MemOperand) : Out (BitVec 64) :=
  let b : Out (BitVec 64 × Bool) := match m.base with
    | none => .ok (0, false)
    | some r => addrRegister rs r
  match b with
  | .panic => .panic
  | .err => .err
  | .ok (bv, b32) =>
    let ix : Out (BitVec 64 × Bool) := match m.index with
      | none => .ok (0, false)
      | some r =>
        match addrRegister rs r with
        | .ok (v, f) => .ok (v * BitVec.ofNat 64 m.scale, f)
        | .err => .err
        | .panic => .panic
    match ix with
    | .panic => .panic
    | .err => .err
    | .ok (iv, i32) =>
      let a := bv + iv + m.disp
      .ok (if b32 || i32 then a &&& 0xFFFFFFFF#64 else a)

/-- `mem_addr`: effective address plus the FS/GS base. -/
def memAddr (s : Machine) (m : MemOperand) : Out (BitVec 64) :=
  match effectiveAddr s.regs m with
  | .ok a =>
    .ok (match m.seg with
      | some .fs => a + s.fs
      | some .gs => a + s.gs
      | _ => a)
  | .err => .err
  | .panic => .panic

/-! ### flags -/

def FLAG_CF : BitVec 64 := 0x0001
def FLAG_PF : BitVec 64 := 0x0004
def FLAG_AF : BitVec 64 := 0x0010
def FLAG_ZF : BitVec 64 := 0x0040
def FLAG_SF : BitVec 64 := 0x0080
def FLAG_DF : BitVec 64 := 0x0400
def FLAG_OF : BitVec 64 := 0x0800
def FLAGS_UNAFFECTED : BitVec 64 := 0x7fffffffffffffff
def NO_WRITEBACK : BitVec 64 := 0x8000000000000000
/-- TF AF IF DF IOPL NT RF VM AC VIF VIP ID: the flags `set_flags!` asserts are never requested -/
def FLAGS_ASSERTED : BitVec 64 := 0x3f7710

/-- even parity of the low eight bits (the macro's counting loop) -/
def parityEven {w : Nat} (r : BitVec w) : Bool :=
  ((List.range 8).filter (fun i => r.getLsbD i)).length % 2 == 0

/-- `set_flags!`: new rflags, or a panic when an unimplemented flag is requested. -/
def setFlags {w : Nat} (set clear : BitVec 64) (result : BitVec w) (rflags : BitVec 64) : Out (BitVec 64) :=
  if set = FLAGS_UNAFFECTED then .ok rflags else
  let f := rflags &&& ~~~set &&& ~~~clear
  let f := if set &&& FLAG_CF != 0 then f ||| FLAG_CF else f
  let f := if set &&& FLAG_OF != 0 then f ||| FLAG_OF else f
  let f := if result = 0 then f ||| FLAG_ZF else f
  let f := if result.msb then f ||| FLAG_SF else f
  let f := if set &&& FLAG_PF != 0 && parityEven result then f ||| FLAG_PF else f
  if set &&& FLAGS_ASSERTED != 0 then .panic else .ok f

end Ax
