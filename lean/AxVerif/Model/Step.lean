/-
  AxVerif.Model.Step — the execution loop (src/state/execute.rs), hooks (src/state/hooks.rs),
  the built-in syscall handlers (src/helpers/syscalls.rs) and stack initialisation
  (src/state/memory.rs init_stack, init_stack_program_start).
-/
import AxVerif.Model.Exec
namespace Ax

/-! ### hooks -/

inductive HookResult where
  | handled | unhandled
deriving DecidableEq, Repr, Inhabited

/-- what a native hook returns: `Ok(result)`, `Err(..)` (the hook may already have changed the
    machine through its `&mut Axecutor`), or a crash -/
inductive HookOut where
  | ok (r : HookResult) (s : Machine)
  | err (s : Machine)
  | panic

/-- a native hook: a function of the machine that may fail -/
abbrev HookFn := Machine → HookOut

structure HookEntry where
  before : List HookFn := []
  after : List HookFn := []

/-- `hooks.mnemonic_hooks`: at most one entry per mnemonic name -/
abbrev HookTable := List (String × HookEntry)

def HookTable.get (t : HookTable) (mn : String) : Option HookEntry := (t.find? (·.1 == mn)).map (·.2)

def HookTable.addBefore (t : HookTable) (mn : String) (f : HookFn) : HookTable :=
  match t.get mn with
  | some e => t.map fun (k, v) => if k == mn then (k, { e with before := e.before ++ [f] }) else (k, v)
  | none => t ++ [(mn, { before := [f] })]

def HookTable.addAfter (t : HookTable) (mn : String) (f : HookFn) : HookTable :=
  match t.get mn with
  | some e => t.map fun (k, v) => if k == mn then (k, { e with after := e.after ++ [f] }) else (k, v)
  | none => t ++ [(mn, { after := [f] })]

/-- result of running a hook chain: the machine afterwards and whether a hook failed -/
inductive ChainRes where
  | ok (s : Machine)
  | err (s : Machine)
  | panic

/-- the loop of `run_functions`: stop after a hook that reports `Handled` or that stops execution
    (sets `finished`, which was not set before it ran); a failing hook fails the chain. -/
def runChain : List HookFn → Machine → ChainRes
  | [], s => .ok s
  | f :: fs, s =>
    match f s with
    | .ok res s' =>
      if (s'.finished && !s.finished) || res == .handled then .ok s' else runChain fs s'
    | .err s' => .err s'
    | .panic => .panic

/-- `Hook::run_functions`: `running` is set for the duration of the chain and cleared on every exit. -/
def runFunctions (fs : List HookFn) (s : Machine) : ChainRes :=
  match runChain fs { s with hooksRunning := true } with
  | .ok s' => .ok { s' with hooksRunning := false }
  | .err s' => .err { s' with hooksRunning := false }
  | .panic => .panic

/-! ### step -/

def supportedMnemonics : List String :=
  ["Adc","Add","And","Call","Cdq","Cdqe","Cld","Cmovae","Cmove","Cmovne","Cmp","Cpuid","Cqo","Cwd","Dec","Div",
   "Endbr64","Idiv","Imul","Inc","Int","Int1","Ja","Jae","Jb","Jbe","Je","Jecxz","Jg","Jge","Jl","Jle","Jmp","Jne",
   "Jno","Jnp","Jns","Jo","Jp","Jrcxz","Js","Lea","Mov","Movd","Movsxd","Movups","Movzx","Mul","Neg","Nop","Not",
   "Pop","Push","Ret","Setb","Sete","Setne","Shl","Shr","Sub","Syscall","Test","Xor","Xorps","Int3"]

/-- what the decoder says about the bytes at RIP (a parameter: iced is not modelled) -/
inductive DecodeRes where
  | instr (i : Instr)
  | invalid

/-- `Ok(bool)` / `Err` / crash of `step()` -/
inductive StepOut where
  | ok (cont : Bool)
  | err
  | panic
deriving DecidableEq, Repr, Inhabited

/-- `Axecutor::step()`.  `decode` answers for the current RIP (after the executable-bytes fetch has
    succeeded).  Returns the outcome and the machine as it is afterwards.  `errInExec` marks an error
    raised inside the instruction handler, after which the real machine may hold partial effects. -/
structure StepResult where
  out : StepOut
  s : Machine
  errInExec : Bool := false
  errInHook : Bool := false

/-- `set_max_instructions(N)`: stores N, whatever has been executed so far -/
def setMaxInstr (s : Machine) (N : Nat) : Machine := { s with maxInstr := some N }

/-- has the instruction limit been reached? -/
def limitReached (s : Machine) : Bool :=
  match s.maxInstr with
  | some l => decide (l ≤ s.count)
  | none => false

/-- run the before- or after-chain of the (snapshotted) hook entry, if any -/
def runEntry (entry : Option HookEntry) (before : Bool) (s : Machine) : ChainRes :=
  match entry with
  | some e => runFunctions (if before then e.before else e.after) s
  | none => .ok s

/-- after the instruction: count it, detect the end of the code, run the after-hooks -/
def stepAfterExec (entry : Option HookEntry) (s3 : Machine) : StepResult :=
  let s4 := { s3 with count := s3.count + 1 }
  let s5 := if s4.regs.rip.toNat = s4.codeEnd then { s4 with finished := true } else s4
  match runEntry entry false s5 with
  | .panic => { out := .panic, s := s5 }
  | .err s6 => { out := .err, s := s6, errInHook := true }
  | .ok s6 => { out := .ok (!s6.finished), s := s6 }

/-- the instruction itself; a top-level RET (`signals_normal_finish`) marks the run finished -/
def stepExec (hooks : HookTable) (entry : Option HookEntry) (i : Instr) (s2 : Machine) : StepResult :=
  match exec (fun mn => (hooks.get mn).isSome) i s2 with
  | .ok s3 => stepAfterExec entry s3
  | .finish => stepAfterExec entry { s2 with finished := true }
  | .err => { out := .err, s := s2, errInExec := true }
  | .panic => { out := .panic, s := s2, errInExec := true }

/-- a decoded instruction: advance RIP, check the mnemonic, run the before-hooks, execute -/
def stepDecoded (hooks : HookTable) (i : Instr) (s : Machine) : StepResult :=
  let s1 := setRip s i.nextIp
  if !supportedMnemonics.contains i.mnem then { out := .err, s := s1 } else
  let entry := hooks.get i.mnem
  match runEntry entry true s1 with
  | .panic => { out := .panic, s := s1 }
  | .err s2 => { out := .err, s := s2, errInHook := true }
  | .ok s2 => stepExec hooks entry i s2

/-- everything `step()` does after its two guards -/
def stepBody (hooks : HookTable) (decode : Machine → List Byte → DecodeRes) (s : Machine) : StepResult :=
  match memReadExec s.mem s.regs.rip.toNat with
  | .err => { out := .err, s := s }
  | .panic => { out := .panic, s := s }
  | .ok window =>
    -- `Decoder::can_decode()` is false on an empty window
    if window.isEmpty then { out := .err, s := s } else
    match decode s window with
    | .invalid => { out := .err, s := s }
    | .instr i => stepDecoded hooks i s

def step (hooks : HookTable) (decode : Machine → List Byte → DecodeRes) (s : Machine) : StepResult :=
  if s.finished then { out := .err, s := s } else
  if limitReached s then { out := .err, s := s } else
  stepBody hooks decode s

/-- `execute()`: step while `Ok(true)`; `fuel` only bounds the model's recursion. -/
def execute (hooks : HookTable) (decode : Machine → List Byte → DecodeRes) : Nat → Machine → StepResult
  | 0, s => { out := .ok true, s := s }
  | fuel + 1, s =>
    let r := step hooks decode s
    match r.out with
    | .ok true => execute hooks decode fuel r.s
    | _ => r

/-! ### built-in syscall handlers -/

def RDI : Fin 16 := 7
def RSI : Fin 16 := 6

def setGpr (s : Machine) (i : Fin 16) (v : BitVec 64) : Machine := { s with regs := s.regs.set i v }

/-- exit (60): stop execution -/
def hookExit : HookFn := fun s =>
  if s.regs.get RAX != 60 then .ok .unhandled s else .ok .handled { s with finished := true }

/-- the heap as the brk handler sees it -/
structure BrkState where
  mem : Mem
  start : Nat
  len : Nat

inductive BrkOut where
  | ok (ret : Nat) (st : BrkState)
  | err (st : BrkState)
  | panic

/-- first use: make up a 0x1000-byte heap -/
def brkInit (st : BrkState) : Out BrkState :=
  if st.start = 0 then
    match initZeroAnywhere st.mem 0x1000 with
    | .ok (a, m) => .ok { mem := m, start := a, len := 0x1000 }
    | .err => .err
    | .panic => .panic
  else .ok st

/-- query or move the break of an initialised heap -/
def brkMove (s1 : BrkState) (arg : Nat) : BrkOut :=
  if arg < s1.start then
    -- query (or an address that can never be the break): the current break
    match u64add s1.start s1.len with
    | some b => .ok b s1
    | none => .panic
  else
    let newLen := arg - s1.start
    match resizeSection s1.mem s1.start newLen with
    | .err => .err s1
    | .panic => .panic
    | .ok m =>
      match u64add s1.start newLen with
      | some b => .ok b { s1 with mem := m, len := newLen }
      | none => .panic

/-- one brk(arg) call on (memory, heap start, heap length) -/
def brkCall (st : BrkState) (arg : Nat) : BrkOut :=
  match brkInit st with
  | .err => .err st
  | .panic => .panic
  | .ok s1 => brkMove s1 arg

/-- brk (12).  A failure of the resize leaves the lazily created heap in place. -/
def hookBrk : HookFn := fun s =>
  if s.regs.get RAX != 12 then .ok .unhandled s else
  let put (st : BrkState) : Machine := { s with mem := st.mem, sys := { s.sys with brkStart := st.start, brkLen := st.len } }
  match brkCall { mem := s.mem, start := s.sys.brkStart, len := s.sys.brkLen } (s.regs.get RDI).toNat with
  | .ok ret st => .ok .handled (setGpr (put st) RAX (BitVec.ofNat 64 ret))
  | .err st => .err (put st)
  | .panic => .panic

/-- arch_prctl (158) -/
def hookArchPrctl : HookFn := fun s =>
  if s.regs.get RAX != 158 then .ok .unhandled s else
  let code := (s.regs.get RDI).toNat
  let addr := s.regs.get RSI
  match memReadN s.mem 1 addr.toNat with
  | .panic => .panic
  | .err => .ok .handled (setGpr s RAX 14)
  | .ok _ =>
    if code = 0x1002 then .ok .handled { s with fs := addr }
    else if code = 0x1003 then .ok .handled { s with gs := addr }
    else if code = 0x1001 then .ok .handled (setGpr s RAX s.fs)
    else if code = 0x1004 then .ok .handled (setGpr s RAX s.gs)
    else .ok .handled (setGpr s RAX 22)

/-! pipes: the bookkeeping as pure functions on the pipe table -/

abbrev Pipes := List (Nat × Nat × List Byte)

def Pipes.isEnd (ps : Pipes) (x : Nat) : Bool := ps.any fun p => p.1 == x || p.2.1 == x

/-- `pipe()`: the handler draws descriptor numbers until both are unused and different, so `r`, `w` — the numbers it
    ended with, an external parameter here — are fresh; numbers that are not are refused (unreachable in the code) -/
def pipeCreate (ps : Pipes) (r w : Nat) : Option Pipes :=
  if ps.isEnd r || ps.isEnd w || r == w then none else some (ps ++ [(r, w, [])])

/-- `write(fd, ..)`: `none` when `fd` is not the write end of a pipe; else append to that pipe -/
def pipeWrite (ps : Pipes) (fd : Nat) (bytes : List Byte) : Option Pipes :=
  match ps.find? (fun p => p.2.1 == fd) with
  | none => none
  | some q => some (ps.map fun p => if p.1 == q.1 then (p.1, p.2.1, p.2.2 ++ bytes) else p)

/-- `read(fd, .., count)`: `none` when `fd` is not the read end of a pipe; else the first
    `min count available` bytes, which are removed -/
def pipeRead (ps : Pipes) (fd count : Nat) : Option (List Byte × Pipes) :=
  match ps.find? (fun p => p.1 == fd) with
  | none => none
  | some q =>
    let n := min count q.2.2.length
    some (q.2.2.take n, ps.map fun p => if p.1 == fd then (p.1, p.2.1, p.2.2.drop n) else p)

/-- pipe (22): the two descriptor numbers come from the host's RNG: a parameter.
    The pipe is entered into the tables before the descriptors are stored to guest memory. -/
def hookPipe (fds : Nat × Nat) : HookFn := fun s =>
  if s.regs.get RAX != 22 then .ok .unhandled s else
  let (r, w) := fds
  -- at most 0x4000 open pipes, so that free descriptor numbers always remain
  if 0x4000 ≤ s.sys.pipes.length then .err s else
  match pipeCreate s.sys.pipes r w with
  | none => .err s
  | some ps =>
    let ptr := (s.regs.get RDI)
    let s1 := { s with sys := { s.sys with pipes := ps } }
    match memWriteN s1.mem 8 ptr.toNat r with
    | .err => .err s1
    | .panic => .panic
    | .ok m1 =>
      -- `fd_ptr.checked_add(8)`: an error when the second slot lies beyond 2^64
      match u64add ptr.toNat 8 with
      | none => .err { s1 with mem := m1 }
      | some p8 =>
        match memWriteN m1 8 p8 w with
        | .err => .err { s1 with mem := m1 }
        | .panic => .panic
        | .ok m2 => .ok .handled (setGpr { s1 with mem := m2 } RAX 0)

/-- read (0) on the read end of a pipe -/
def hookPipeRead : HookFn := fun s =>
  if s.regs.get RAX != 0 then .ok .unhandled s else
  let fd := (s.regs.get RDI).toNat
  let buf := (s.regs.get RSI).toNat
  let count := (s.regs.get RDX).toNat
  match pipeRead s.sys.pipes fd count with
  | none => .ok .unhandled s
  | some (bytes, ps) =>
    match memWriteBytes s.mem buf bytes with
    | .err => .err s
    | .panic => .panic
    | .ok m =>
      .ok .handled (setGpr { s with mem := m, sys := { s.sys with pipes := ps } } RAX (BitVec.ofNat 64 bytes.length))

/-- write (1) on the write end of a pipe -/
def hookPipeWrite : HookFn := fun s =>
  if s.regs.get RAX != 1 then .ok .unhandled s else
  let fd := (s.regs.get RDI).toNat
  let buf := (s.regs.get RSI).toNat
  let count := (s.regs.get RDX).toNat
  -- the descriptor is looked up first: a non-pipe descriptor is left to other hooks without touching memory
  match pipeWrite s.sys.pipes fd [] with
  | none => .ok .unhandled s
  | some _ =>
    match memReadBytes s.mem buf count with
    | .err => .err s
    | .panic => .panic
    | .ok bytes =>
      match pipeWrite s.sys.pipes fd bytes with
      | none => .ok .unhandled s
      | some ps => .ok .handled (setGpr { s with sys := { s.sys with pipes := ps } } RAX (BitVec.ofNat 64 count))

/-! ### registration (`hook_before/after_mnemonic_native`, `handle_syscalls`) -/

/-- the built-in handlers of one syscall number, appended to the before-chain of `Syscall` -/
def builtinHooks (t : HookTable) (n : Nat) : HookTable :=
  match n with
  | 60 => t.addBefore "Syscall" hookExit
  | 12 => t.addBefore "Syscall" hookBrk
  | 158 => t.addBefore "Syscall" hookArchPrctl
  | 22 => ((t.addBefore "Syscall" (fun s => hookPipe (0, 0) s)).addBefore "Syscall" hookPipeRead).addBefore "Syscall" hookPipeWrite
  | _ => t

/-- one number of a `handle_syscalls` list: already registered numbers are skipped -/
def registerOne (tr : HookTable × List Nat) (n : Nat) : HookTable × List Nat :=
  if tr.2.contains n then tr else (builtinHooks tr.1 n, tr.2 ++ [n])

/-- `handle_syscalls(list)`: refused as a whole — nothing is recorded, nothing added — while a hook is executing -/
def handleSyscalls (running : Bool) (t : HookTable) (registered : List Nat) (ns : List Nat) : Option (HookTable × List Nat) :=
  if running then none else some (ns.foldl registerOne (t, registered))

/-- `hook_before_mnemonic_native` / `hook_after_mnemonic_native`: refused while a hook is executing -/
def registerHook (running : Bool) (t : HookTable) (before : Bool) (mn : String) (f : HookFn) : Option HookTable :=
  if running then none else some (if before then t.addBefore mn f else t.addAfter mn f)

/-! ### stack initialisation -/

/-- `init_stack(length)`: returns the start of the stack area -/
def initStack (s : Machine) (len : Nat) : Out (Nat × Machine) :=
  match initStackArea s.mem len with
  | .err => .err
  | .panic => .panic
  | .ok (start, m) =>
    -- `(stack_start + length - 8) & !0xf`, checked arithmetic
    match u64add start len with
    | none => .panic
    | some e =>
      if e < 8 then .panic else
      let rsp := (BitVec.ofNat 64 (e - 8)) &&& ~~~(0xf#64)
      match u64add rsp.toNat 8 with
      | none => .panic
      | some top => .ok (start, { s with mem := m, regs := s.regs.set RSP rsp, stackTop := top })

/-- allocate one NUL-terminated string per entry with `mem_init_anywhere`; returns the addresses -/
def allocStrings (m : Mem) (pfx : String) : Nat → List (List Byte) → Out (List Nat × Mem)
  | _, [] => .ok ([], m)
  | k, str :: rest =>
    match initAnywhere m (str ++ [0]) (some (pfx ++ toString k)) with
    | .err => .err
    | .panic => .panic
    | .ok (a, m1) =>
      match allocStrings m1 pfx (k + 1) rest with
      | .ok (as, m2) => .ok (a :: as, m2)
      | .err => .err
      | .panic => .panic

/-- write the layout values downwards from `top`: the last value first (`for val in layout.rev()`) -/
def writeLayout (m : Mem) : List Nat → Nat → Out (Nat × Mem)
  | [], top => .ok (top, m)
  | v :: vs, top =>
    match memWriteN m 8 top v with
    | .err => .err
    | .panic => .panic
    | .ok m1 => if top < 8 then .panic else writeLayout m1 vs (top - 8)

/-- what a *failed* `init_stack_program_start` leaves behind: the string areas allocated before the failure (the
    registers, `stack_top` and everything else are untouched) -/
def stringsLeftBehind (m : Mem) (argv envp : List (List Byte)) : Mem :=
  match allocStrings m "arg" 0 argv with
  | .ok (_, m1) =>
    match allocStrings m1 "env" 0 envp with
    | .ok (_, m2) => m2
    | _ => m1
  | _ => m

/-- `init_stack_program_start(length, argv, envp)` -/
def initStackProgramStart (s : Machine) (len : Nat) (argv envp : List (List Byte)) : Out (Nat × Machine) :=
  match allocStrings s.mem "arg" 0 argv with
  | .err => .err
  | .panic => .panic
  | .ok (aAddrs, m1) =>
    match allocStrings m1 "env" 0 envp with
    | .err => .err
    | .panic => .panic
    | .ok (eAddrs, m2) =>
      let layout : List Nat := [argv.length] ++ aAddrs ++ [0] ++ eAddrs ++ [0]
      let frame := layout.length * 8 + 48
      match u64add len frame with
      | none => .err   -- `length.checked_add(frame_size)`
      | some total =>
        match initStackArea m2 total with
        | .err => .err
        | .panic => .panic
        | .ok (start, m3) =>
          match u64add start total with
          | none => .panic
          | some e =>
            let t0 := (BitVec.ofNat 64 (e - 16)) &&& ~~~(0xf#64)
            let t1 := if layout.length % 2 = 1 then t0.toNat - 8 else t0.toNat
            match writeLayout m3 layout.reverse t1 with
            | .err => .err
            | .panic => .panic
            | .ok (top, m4) =>
              if top % 16 ≠ 0 then .panic else
              .ok (start, { s with mem := m4, regs := s.regs.set RSP (BitVec.ofNat 64 top), stackTop := top })

end Ax
