/-
  AxVerif.Model.Step — the execution loop (src/state/execute.rs), hooks (src/state/hooks.rs),
  the built-in syscall handlers (src/helpers/syscalls.rs) and stack initialisation
  (src/state/memory.rs init_stack, init_stack_program_start).
-/
import AxVerif.Model.Exec
namespace Ax

/-! ### hooks -/

inductive HookResult where
  | handled | unhandled
deriving DecidableEq, Repr, Inhabited

/-- what a native hook returns: `Ok(result)`, `Err(..)` (the hook may already have changed the
    machine through its `&mut Axecutor`), or a crash -/
inductive HookOut where
  | ok (r : HookResult) (s : Machine)
  | err (s : Machine)
  | panic

/-- a native hook: a function of the machine that may fail -/
abbrev HookFn := Machine → HookOut

structure HookEntry where
  before : List HookFn := []
  after : List HookFn := []

/-- `hooks.mnemonic_hooks`: at most one entry per mnemonic name -/
abbrev HookTable := List (String × HookEntry)

def HookTable.get (t : HookTable) (mn : String) : Option HookEntry := (t.find? (·.1 == mn)).map (·.2)

def HookTable.addBefore (t : HookTable) (mn : String) (f : HookFn) : HookTable :=
  match t.get mn with
  | some e => t.map fun (k, v) => if k == mn then (k, { e with before := e.before ++ [f] }) else (k, v)
  | none => t ++ [(mn, { before := [f] })]

def HookTable.addAfter (t : HookTable) (mn : String) (f : HookFn) : HookTable :=
  match t.get mn with
  | some e => t.map fun (k, v) => if k == mn then (k, { e with after := e.after ++ [f] }) else (k, v)
  | none => t ++ [(mn, { after := [f] })]

/-- result of running a hook chain: the machine afterwards and whether a hook failed -/
inductive ChainRes where
  | ok (s : Machine)
  | err (s : Machine)
  | panic

/-- the loop of `run_functions`: stop after a hook that reports `Handled` or that stops execution
    (sets `finished`, which was not set before it ran); a failing hook fails the chain. -/
def runChain : List HookFn → Machine → ChainRes
  | [], s => .ok s
  | f :: fs, s =>
    match f s with
    | .ok res s' =>
      if (s'.finished && !s.finished) || res == .handled then .ok s' else runChain fs s'
    | .err s' => .err s'
    | .panic => .panic

/-- `Hook::run_functions`: `running` is set for the duration of the chain and cleared on every exit. -/
def runFunctions (fs : List HookFn) (s : Machine) : ChainRes :=
  match runChain fs { s with hooksRunning := true } with
  | .ok s' => .ok { s' with hooksRunning := false }
  | .err s' => .err { s' with hooksRunning := false }
  | .panic => .panic

/-! ### step -/

def supportedMnemonics : List String :=
  ["Adc","Add","And","Call","Cdq","Cdqe","Cld","Cmovae","Cmove","Cmovne","Cmp","Cpuid","Cqo","Cwd","Dec","Div",
   "Endbr64","Idiv","Imul","Inc","Int","Int1","Ja","Jae","Jb","Jbe","Je","Jecxz","Jg","Jge","Jl","Jle","Jmp","Jne",
   "Jno","Jnp","Jns","Jo","Jp","Jrcxz","Js","Lea","Mov","Movd","Movsxd","Movups","Movzx","Mul","Neg","Nop","Not",
   "Pop","Push","Ret","Setb","Sete","Setne","Shl","Shr","Sub","Syscall","Test","Xor","Xorps","Int3"]

/-- what the decoder says about the bytes at RIP (a parameter: iced is not modelled) -/
inductive DecodeRes where
  | instr (i : Instr)
  | invalid

/-- `Ok(bool)` / `Err` / crash of `step()` -/
inductive StepOut where
  | ok (cont : Bool)
  | err
  | panic
deriving DecidableEq, Repr, Inhabited

/-- `Axecutor::step()`.  `decode` answers for the current RIP (after the executable-bytes fetch has
    succeeded).  Returns the outcome and the machine as it is afterwards.  `errInExec` marks an error
    raised inside the instruction handler, after which the real machine may hold partial effects. -/
structure StepResult where
  out : StepOut
  s : Machine
  errInExec : Bool := false
  errInHook : Bool := false

def step (hooks : HookTable) (decode : Machine → List Byte → DecodeRes) (s : Machine) : StepResult :=
  if s.finished then { out := .err, s := s } else
  if (match s.maxInstr with | some l => decide (l ≤ s.count) | none => false) then { out := .err, s := s } else
  match memReadExec s.mem s.regs.rip.toNat with
  | .err => { out := .err, s := s }
  | .panic => { out := .panic, s := s }
  | .ok window =>
    -- `Decoder::can_decode()` is false on an empty window
    if window.isEmpty then { out := .err, s := s } else
    match decode s window with
    | .invalid => { out := .err, s := s }
    | .instr i =>
      let s1 := setRip s i.nextIp
      if !supportedMnemonics.contains i.mnem then { out := .err, s := s1 } else
      let entry := hooks.get i.mnem
      let afterBefore : ChainRes := match entry with
        | some e => runFunctions e.before s1
        | none => .ok s1
      match afterBefore with
      | .panic => { out := .panic, s := s1 }
      | .err s2 => { out := .err, s := s2, errInHook := true }
      | .ok s2 =>
        let hasHooks : HasHooks := fun mn => (hooks.get mn).isSome
        let cont (s3 : Machine) : StepResult :=
          let s4 := { s3 with count := s3.count + 1 }
          let s5 := if s4.regs.rip.toNat = s4.codeEnd then { s4 with finished := true } else s4
          let afterAfter : ChainRes := match entry with
            | some e => runFunctions e.after s5
            | none => .ok s5
          match afterAfter with
          | .panic => { out := .panic, s := s5 }
          | .err s6 => { out := .err, s := s6, errInHook := true }
          | .ok s6 => { out := .ok (!s6.finished), s := s6 }
        match exec hasHooks i s2 with
        | .ok s3 => cont s3
        | .finish => cont { s2 with finished := true }
        | .err => { out := .err, s := s2, errInExec := true }
        | .panic => { out := .panic, s := s2, errInExec := true }

/-- `execute()`: step while `Ok(true)`; `fuel` only bounds the model's recursion. -/
def execute (hooks : HookTable) (decode : Machine → List Byte → DecodeRes) : Nat → Machine → StepResult
  | 0, s => { out := .ok true, s := s }
  | fuel + 1, s =>
    let r := step hooks decode s
    match r.out with
    | .ok true => execute hooks decode fuel r.s
    | _ => r

/-! ### built-in syscall handlers -/

def RDI : Fin 16 := 7
def RSI : Fin 16 := 6

def setGpr (s : Machine) (i : Fin 16) (v : BitVec 64) : Machine := { s with regs := s.regs.set i v }

/-- exit (60): stop execution -/
def hookExit : HookFn := fun s =>
  if s.regs.get RAX != 60 then .ok .unhandled s else .ok .handled { s with finished := true }

/-- brk (12).  A failure of the resize leaves the lazily created heap in place. -/
def hookBrk : HookFn := fun s =>
  if s.regs.get RAX != 12 then .ok .unhandled s else
  let brk := (s.regs.get RDI).toNat
  -- first use: make up a 0x1000-byte heap
  let init : Out Machine :=
    if s.sys.brkStart = 0 then
      match initZeroAnywhere s.mem 0x1000 with
      | .ok (a, m) => .ok { s with mem := m, sys := { s.sys with brkStart := a, brkLen := 0x1000 } }
      | .err => .err
      | .panic => .panic
    else .ok s
  match init with
  | .err => .err s
  | .panic => .panic
  | .ok s1 =>
    if brk < s1.sys.brkStart then
      match u64add s1.sys.brkStart s1.sys.brkLen with
      | some b => .ok .handled (setGpr s1 RAX (BitVec.ofNat 64 b))
      | none => .panic
    else
      let newLen := brk - s1.sys.brkStart
      match resizeSection s1.mem s1.sys.brkStart newLen with
      | .err => .err s1
      | .panic => .panic
      | .ok m =>
        match u64add s1.sys.brkStart newLen with
        | some b => .ok .handled (setGpr { s1 with mem := m, sys := { s1.sys with brkLen := newLen } } RAX (BitVec.ofNat 64 b))
        | none => .panic

/-- arch_prctl (158) -/
def hookArchPrctl : HookFn := fun s =>
  if s.regs.get RAX != 158 then .ok .unhandled s else
  let code := (s.regs.get RDI).toNat
  let addr := s.regs.get RSI
  match memReadN s.mem 1 addr.toNat with
  | .panic => .panic
  | .err => .ok .handled (setGpr s RAX 14)
  | .ok _ =>
    if code = 0x1002 then .ok .handled { s with fs := addr }
    else if code = 0x1003 then .ok .handled { s with gs := addr }
    else if code = 0x1001 then .ok .handled (setGpr s RAX s.fs)
    else if code = 0x1004 then .ok .handled (setGpr s RAX s.gs)
    else .ok .handled (setGpr s RAX 22)

/-- pipe (22): the two descriptor numbers come from the host's RNG: a parameter.
    The pipe is entered into the tables before the descriptors are stored to guest memory. -/
def hookPipe (fds : Nat × Nat) : HookFn := fun s =>
  if s.regs.get RAX != 22 then .ok .unhandled s else
  let (r, w) := fds
  let isEnd (x : Nat) : Bool := s.sys.pipes.any fun (pr, pw, _) => pr == x || pw == x
  if isEnd r || isEnd w then .err s else
  let sys' := { s.sys with pipes := s.sys.pipes ++ [(r, w, [])] }
  let ptr := (s.regs.get RDI)
  let s1 := { s with sys := sys' }
  match memWriteN s1.mem 8 ptr.toNat r with
  | .err => .err s1
  | .panic => .panic
  | .ok m1 =>
    -- `fd_ptr + 8` is a checked addition
    match u64add ptr.toNat 8 with
    | none => .panic
    | some p8 =>
      match memWriteN m1 8 p8 w with
      | .err => .err { s1 with mem := m1 }
      | .panic => .panic
      | .ok m2 => .ok .handled (setGpr { s1 with mem := m2 } RAX 0)

/-- read (0) on the read end of a pipe -/
def hookPipeRead : HookFn := fun s =>
  if s.regs.get RAX != 0 then .ok .unhandled s else
  let fd := (s.regs.get RDI).toNat
  let buf := (s.regs.get RSI).toNat
  let count := (s.regs.get RDX).toNat
  match s.sys.pipes.find? (fun (pr, _, _) => pr == fd) with
  | none => .ok .unhandled s
  | some (_, _, content) =>
    let n := min count content.length
    match memWriteBytes s.mem buf (content.take n) with
    | .err => .err s
    | .panic => .panic
    | .ok m =>
      let pipes' := s.sys.pipes.map fun (pr, pw, c) => if pr == fd then (pr, pw, c.drop n) else (pr, pw, c)
      .ok .handled (setGpr { s with mem := m, sys := { s.sys with pipes := pipes' } } RAX (BitVec.ofNat 64 n))

/-- write (1) on the write end of a pipe -/
def hookPipeWrite : HookFn := fun s =>
  if s.regs.get RAX != 1 then .ok .unhandled s else
  let fd := (s.regs.get RDI).toNat
  let buf := (s.regs.get RSI).toNat
  let count := (s.regs.get RDX).toNat
  match s.sys.pipes.find? (fun (_, pw, _) => pw == fd) with
  | none => .ok .unhandled s
  | some (rEnd, _, _) =>
    match memReadBytes s.mem buf count with
    | .err => .err s
    | .panic => .panic
    | .ok bytes =>
      let pipes' := s.sys.pipes.map fun (pr, pw, c) => if pr == rEnd then (pr, pw, c ++ bytes) else (pr, pw, c)
      .ok .handled (setGpr { s with sys := { s.sys with pipes := pipes' } } RAX (BitVec.ofNat 64 count))

/-! ### stack initialisation -/

/-- `init_stack(length)`: returns the start of the stack area -/
def initStack (s : Machine) (len : Nat) : Out (Nat × Machine) :=
  match initStackArea s.mem len with
  | .err => .err
  | .panic => .panic
  | .ok (start, m) =>
    -- `(stack_start + length - 8) & !0xf`, checked arithmetic
    match u64add start len with
    | none => .panic
    | some e =>
      if e < 8 then .panic else
      let rsp := (BitVec.ofNat 64 (e - 8)) &&& ~~~(0xf#64)
      match u64add rsp.toNat 8 with
      | none => .panic
      | some top => .ok (start, { s with mem := m, regs := s.regs.set RSP rsp, stackTop := top })

/-- allocate one NUL-terminated string per entry with `mem_init_anywhere`; returns the addresses -/
def allocStrings (m : Mem) (pfx : String) : Nat → List (List Byte) → Out (List Nat × Mem)
  | _, [] => .ok ([], m)
  | k, str :: rest =>
    match initAnywhere m (str ++ [0]) (some (pfx ++ toString k)) with
    | .err => .err
    | .panic => .panic
    | .ok (a, m1) =>
      match allocStrings m1 pfx (k + 1) rest with
      | .ok (as, m2) => .ok (a :: as, m2)
      | .err => .err
      | .panic => .panic

/-- write the layout values downwards from `top`: the last value first (`for val in layout.rev()`) -/
def writeLayout (m : Mem) : List Nat → Nat → Out (Nat × Mem)
  | [], top => .ok (top, m)
  | v :: vs, top =>
    match memWriteN m 8 top v with
    | .err => .err
    | .panic => .panic
    | .ok m1 => if top < 8 then .panic else writeLayout m1 vs (top - 8)

/-- `init_stack_program_start(length, argv, envp)` -/
def initStackProgramStart (s : Machine) (len : Nat) (argv envp : List (List Byte)) : Out (Nat × Machine) :=
  match allocStrings s.mem "arg" 0 argv with
  | .err => .err
  | .panic => .panic
  | .ok (aAddrs, m1) =>
    match allocStrings m1 "env" 0 envp with
    | .err => .err
    | .panic => .panic
    | .ok (eAddrs, m2) =>
      let layout : List Nat := [argv.length] ++ aAddrs ++ [0] ++ eAddrs ++ [0]
      let frame := layout.length * 8 + 48
      match u64add len frame with
      | none => .panic
      | some total =>
        match initStackArea m2 total with
        | .err => .err
        | .panic => .panic
        | .ok (start, m3) =>
          match u64add start total with
          | none => .panic
          | some e =>
            let t0 := (BitVec.ofNat 64 (e - 16)) &&& ~~~(0xf#64)
            let t1 := if layout.length % 2 = 1 then t0.toNat - 8 else t0.toNat
            match writeLayout m3 layout.reverse t1 with
            | .err => .err
            | .panic => .panic
            | .ok (top, m4) =>
              if top % 16 ≠ 0 then .panic else
              .ok (start, { s with mem := m4, regs := s.regs.set RSP (BitVec.ofNat 64 top), stackTop := top })

end Ax
