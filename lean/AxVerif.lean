import AxVerif.Model.Basic
import AxVerif.Model.Regs
import AxVerif.Model.Parse
import AxVerif.Spec.Regs
import AxVerif.Props.C07
