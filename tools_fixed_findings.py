#!/usr/bin/env python3
"""Rebuild the `fixed` entries of known_findings.json from /repo's `fix:` commits (known entries are kept)."""
import json, subprocess
MAP = [
 ("SupportedRegister::EIP converts", ["C07", "C19"], "reg_read_*/reg_write_*(EIP) panicked in the SupportedRegister->Register conversion instead of rejecting the register"),
 ("reg_read_64/reg_write_64 reject EIP", ["C07"], "reg_write_64(EIP, v) was accepted and reg_read_64(EIP) unwrapped a missing map entry (is_ip() is true for EIP)"),
 ("memory range checks no longer overflow", ["C08", "C19"], "mem_read_bytes(2^64-16, 16), mem_read_bytes(a, u64::MAX) inside an area, any access to an area ending at 2^64: address+length / start+length overflowed (panic; wrap without overflow checks)"),
 ("mem_init_area_named rejects every overlap", ["C10", "C17"], "mem_init_area_named accepted an area starting below an existing one and running into / enclosing it (area 0x1ffe..0x2006 over 0x2000..0x2004)"),
 ("mem_resize_section checks the new extent", ["C10", "C13"], "mem_resize_section compared start+new_size with every area's start including its own: growing, shrinking and resizing to 0 always failed (every brk(p != 0) failed)"),
 ("mem_init_zero_anywhere/mem_init_anywhere terminate", ["C10"], "mem_init_zero_anywhere(0) / mem_init_anywhere(vec![]) never returned once 0x1000 was taken (start += 0)"),
 ("LEA stores the effective address without", ["C05"], "lea rax, gs:[rbx] added the GS base to the result"),
 ("support the 32-bit address-size prefix", ["C05", "C19"], "0x67-prefixed memory operands (32-bit base/index, EIP-relative) panicked in mem_addr (reg_read_64(..).expect)"),
 ("ADC r/m8/16/32, r clears a stale overflow flag", ["C02"], "adc bl, cl (and the 16/32-bit forms) left OF set from an earlier instruction when the addition did not overflow"),
 ("ADC r/m16/32/64, imm8 adds the sign-extended", ["C01", "C02"], "adc ax, -1 (83 /2 ib) added 0xff: the imm8 was zero-extended"),
 ("MOV moffs forms use the helper", ["C01", "C06", "C19"], "mov al/ax/eax/rax, [moffs] and the store forms panicked converting the memory operand to a register"),
 ("PUSH/POP/CALL/RET wrap RSP arithmetic", ["C04", "C19"], "push/pop/call/ret with RSP within a slot of either end of the address space panicked on rsp - n / rsp + n"),
 ("POP rsp/sp keeps the popped value", ["C04"], "pop rsp loaded the value and then overwrote RSP with the incremented stack pointer"),
 ("CMOVAE moves when CF is clear", ["C01"], "cmovae moved when CF was set (condition inverted)"),
 ("CMOVcc always loads its source", ["C01", "C06"], "cmovcc r32 with a false condition did not zero the upper half of the destination; an unmapped memory source did not fail"),
 ("SETB writes 0 when CF is clear", ["C01"], "setb left its operand unchanged when CF was clear"),
 ("MOVZX r16/r32/r64, r/m8 accepts a memory source", ["C01", "C06", "C19"], "movzx eax, byte ptr [rbx] panicked (memory operand routed through the register-source helper)"),
 ("a failing hook no longer leaves hooks.running", ["C12"], "after one failing hook hooks.running stayed true: no hook or syscall handler could be registered again"),
 ("all hooks of an instruction run even if execution had already finished", ["C12"], "on the last instruction of the code (or after a before-hook stopped) only the first after-hook ran"),
 ("rendering a trace with more returns than calls", ["C18", "C19"], "two unmatched RETs drove the trace level negative and \"  \".repeat(level as usize) aborted the process inside step()'s error decoration; the i16 level overflowed after 2^15 nested calls"),
 ("brk(0) returns the current program break", ["C13"], "brk(0) returned the heap start instead of the break; brk(p < start) underflowed"),
 ("init_stack_program_start places the entry frame above", ["C17"], "the argc/argv/envp frame was laid out inside the requested stack length: long lists failed on small stacks and the space below RSP shrank by the frame size"),
 ("SHL/SHR imm8 and CL forms mask the count", ["C01", "C02", "C06", "C19"], "shl/shr with a count that is 0 after masking rewrote flags or panicked, counts >= width and 64-bit SHR counts 32..63 were wrong, 8/16-bit operands overflowed a literal shift, imm8 = 1 hit assert_ne!"),
 ("DIV reports a divide error when the quotient does not fit", ["C06"], "div with a quotient larger than the destination silently truncated instead of failing"),
 ("IDIV r/m8, r/m16, r/m32 sign-extend their divisor", ["C01"], "idiv bl with bl = 0xff divided by 255 instead of -1 (8/16/32 bit)"),
 ("IDIV reports a divide error when the quotient does not fit", ["C06", "C19"], "idiv quotient overflow truncated silently; the most negative dividend / -1 panicked"),
 ("XORPS rejects a memory operand that is not 16-byte aligned", ["C06"], "xorps xmm, [misaligned] executed instead of failing"),
 ("Axecutor::new takes the code end address modulo 2^64", ["C19"], "Axecutor::new(code, start, rip) with start + code.len() = 2^64 panicked on the code end address (overflow-checked builds)"),
 ("add_trace computes the instruction address with wrapping", ["C18", "C19"], "a taken branch whose instruction ends exactly at 2^64 (next_ip = 0) panicked in add_trace on RIP - len"),
 ("ELF loader sizes a PT_LOAD area up to the page boundary", ["C15", "C16"], "a PT_LOAD with unaligned p_vaddr got round_up(p_memsz) bytes and ran into the next page: a well-formed file with a segment on that page failed to load; p_memsz + 0xfff overflowed"),
 ("ELF loader bounds the memory image", ["C16"], "p_memsz = 2^40 made from_binary ask the allocator for a terabyte: the process aborted instead of returning an error"),
 ("ELF loader computes the TLS end address with wrapping", ["C16"], "a PT_TLS header on an area ending at 2^64 panicked on p_vaddr + len (overflow-checked builds)"),
 ("pipe() draws its descriptor numbers again", ["C14", "C20"], "pipe() failed at random (about k/32768 with k open pipes) when a freshly drawn descriptor number was already in use; equal numbers for both ends were accepted"),
 ("pipe() returns an error when the second descriptor slot", ["C14", "C19"], "pipe(fd_array) with fd_array = 2^64-8 inside an area ending at 2^64 panicked on fd_ptr + 8"),
 ("init_stack_program_start returns an error instead of overflowing", ["C17"], "init_stack_program_start(len, ..) with len + frame size >= 2^64 (e.g. len = 2^64-16) panicked on `length + frame_size` (wrapped to a tiny stack without overflow checks) instead of returning an error"),
 ("zero-filled memory is allocated fallibly", ["C13", "C19"], "brk(2^40) with nothing above the heap (or mem_init_zero with such a length) aborted the process with an allocation failure"),
 ("a CS segment override on a memory operand is accepted", ["C05", "C06"], "a 0x2E (CS) prefix on a memory operand made the step fail with 'Unsupported segment register: CS'"),
]
log = subprocess.run(["git", "-C", "/repo", "log", "--format=%H %s", "--reverse"], capture_output=True, text=True).stdout.splitlines()
fixes = [l.split(" ", 1) for l in log if l.split(" ", 1)[1].startswith("fix:")]
p = "/verif/known_findings.json"
k = [e for e in json.load(open(p)) if e.get("status") == "known"]
unmatched = []
for sha, subj in fixes:
    hit = False
    for key, pids, what in MAP:
        if key in subj:
            hit = True
            for pid in pids:
                k.append({"status": "fixed", "property": pid, "commit": sha, "what": what,
                          "line": f"fixed: property={pid} {sha[:12]} {what}"})
    if not hit:
        unmatched.append(subj)
json.dump(k, open(p, "w"), indent=1)
print(len(fixes), "fix commits;", len([e for e in k if e['status']=='fixed']), "fixed entries; unmatched:", unmatched)
