#!/usr/bin/env python3
"""Validate MANIFEST.json and every evidence file against the given schemas (run with python3-vt)."""
import json, sys, glob, jsonschema
ok = True
m = json.load(open('/verif/MANIFEST.json'))
try:
    jsonschema.validate(m, json.load(open('/root/.vp/MANIFEST.schema.json')))
    print("MANIFEST ok:", len(m['checks']), "checks,", len(m.get('not_applicable', [])), "not_applicable")
except Exception as e:
    ok = False; print("MANIFEST INVALID", e)
es = json.load(open('/root/.vp/EVIDENCE.schema.json'))
for f in sorted(glob.glob('/verif/evidence/*.json')):
    try:
        jsonschema.validate(json.load(open(f)), es); print("ok", f)
    except Exception as e:
        ok = False; print("INVALID", f, str(e)[:300])
sys.exit(0 if ok else 1)
