#!/usr/bin/env python3
"""Print the seeded-change table of DESIGN.md section 11 from seeded/*/meta.json."""
import json, glob, os, re
# seeds the property's quick check missed when the seed first arrived, and the class of input that was added (never the
# seeded input itself); recorded by hand from the work log
FIRST_MISS = {
 "C02-1": "shift counts that are 1 only after masking",
 "C03-2": "register-field mutation; CALL/RET added to C03",
 "C06-1": "dividend/divisor steering",
 "C09-1": "resize in the C09 generator",
 "C11-2": "entry points other than the code start",
 "C12-2": "call/ret programs with RET hooks",
 "C13-1": "break arguments at neighbour edges",
 "C16-2": "a huge second PT_LOAD after successful ones",
 "C18-1": "indirect-jump family",
 "C08-4": "guest stores of every width with the bytes around the operand observed (C08 runs the instruction generator too)",
 "C09-4": "ELF-loaded segments in the C09 generator (denied stores/fetches on every loaded segment)",
 "C11-4": "hooks that stop the run (stopped step still executes and counts)",
 "C05-6": "stack/call/branch classes with memory operands in C05; rip and rsp compared",
 "C08-5": "a failing huge resize followed by accesses at the old end",
 "C09-5": "fetch after a protection change between steps",
 "C10-6": "init_stack_program_start in layout histories",
 "C11-6": "limit (re)set in the middle of a run",
 "C12-6": "hooks that try to register from inside; the same registration afterwards",
 "C13-5": "code at address 0 / at the start of the heap search",
 "C13-6": "first brk call with a non-zero argument",
 "C14-5": "a read that fails on guest memory, then a good read",
 "C17-5": "non-ASCII (UTF-8) arguments",
 "C17-6": "a stack / an area named Stack already present",
 "C18-6": "empty areas in the rendered state",
 "C19-5": "the steered single-instruction stream under the crash oracle",
 "C19-6": "unbalanced-return histories followed by a failing step",
 "C20-5": "many pipes open at once (descriptor numbers unobserved)",
 "C20-6": "failing hooks and varying sets of written registers in the partial-register family",
 "C06-8": "non-writable masks R+X, none, X, W, W+X besides read-only",
 "C02-7": "same register as both operands; register forms get 40 % of the cases",
 "C08-7": "shrink then regrow within the old extent",
 "C15-7": "incidental header fields varied (p_paddr, p_align, e_type, OSABI)",
 "C13-7": "empty areas where the heap search starts",
 "C13-8": "a failing huge brk with data in the heap, then ordinary growth",
 "C12-7": "hooks that stop and fail at once",
 "C12-8": "in-hook registration attempts for SYSCALL/INT/INT1/INT3, then such an instruction without handler",
 "C16-7": "long UTF-8 symbol names around the 128/256-byte marks",
 "C14-8": "descriptors equal to a pipe end in the low half only",
 "C18-7": "entry points other than the code start in C18",
 "C18-8": "JECXZ in program families",
 "C19-7": "dividend extremes (most negative double-width value) for IDIV",
 "C20-7": "an area named Stack already present in the partial-register family",
 "C06-9": "encodings padded with redundant prefixes to 13/14/15 bytes",
 "C06-10": "return/call histories (stack programs) in C06",
 "C08-9": "a pass over addressing shapes (every base/index/scale/disp/segment/a32 combination gets its own cases)",
 "C09-9": "forms with a 16-byte memory operand get eight times the cases",
 "C09-10": "CALL/JMP through memory in the C08/C09 instruction streams",
 "C10-9": "brk histories (grow, shrink, fail) in the C10 stream",
 "C14-9": "read counts far beyond anything a pipe holds (2^64-1, exactly to 2^64, ...)",
 "C14-10": "a backlog of hundreds of kilobytes read back in other chunk sizes",
 "C18-10": "branches whose target is the next instruction or the branch itself",
 "C12-9": "a hook error whose text is empty",
 "C12-10": "registration lists that overlap with what is registered, or with themselves",
 "C19-10": "an empty area early in the area list of fuzz cases",
 "C20-10": "single instructions with only the registers they name (iced's used-register analysis) ever written",
 "C01-11": "code patched between steps by the host, and by the program itself (an instruction is what the bytes at RIP say now)",
 "C04-12": "a stack at the very bottom of the address space (RSP 0..0x18)",
 "C06-12": "FS/GS bases that are not 16-byte aligned",
 "C08-12": "growth exactly up to / one byte into the following area",
 "C09-11": "instructions whose bytes continue in an adjacent area (any mask)",
 "C09-12": "stores made by the built-in syscall handlers into non-writable memory (pipe read into code / read-only data)",
 "C10-12": "ELF loads in the C10 stream (exact area extents, allocations right behind each)",
 "C11-11": "code that ends exactly at 2^64 / 2^32 in C11 (added from the report, before the first attempt - as for all of round 6b)",
 "C12-11": "hooks that stop and then try to register",
 "C12-12": "hooked instructions that fail by themselves after a before-hook stopped the run",
 "C12-13": "the same callback reference registered more than once (`hookdup`: other phase, same phase, other mnemonic)",
 "C13-11": "break argument equal to the heap base exactly",
 "C14-11": "foreign descriptors with NULL / unmapped / overlong buffers",
 "C15-12": "entry point carrying the only symbol",
 "C16-11": "TLS and other symbol types",
 "C17-11": "the most recently created area high up in the address space",
 "C18-11": "render reports each renderer's Ok/Err; traced jumps overwritten before rendering",
 "C18-12": "tens of thousands of unmatched returns (nomodel + generator expectation)",
 "C19-11": "the same deep histories under the crash oracle",
 "C20-11": "written registers observed through the written view after reads-only set-up (a pure output that is not written shows)",
 "C20-12": "RSP no longer written unless the instruction reads it",
 "C13-9": "small areas in the middle of a page where the heap search starts (added before the first attempt)",
 "C13-10": "handler registration in two calls with overlapping lists (added before the first attempt)",
 "C17-9": "all stack-search candidates below 2^32 occupied (added before the first attempt)",
 "C17-10": "NUL characters inside arguments (added before the first attempt)",
}
rows = []
for d in sorted(glob.glob("/verif/seeded/C*")):
    m = json.load(open(d + "/meta.json"))
    name = os.path.basename(d)
    desc = re.sub(r"\s+", " ", m.get("description", "")).strip()
    desc = desc.split(". ")[0][:150]
    c = m.get("confirmed", {})
    conf = "yes" if (c.get("patch_applies") and c.get("suite_passes") and c.get("demo_fails_on_changed_tree")) else "?"
    det = m.get("detected", {})
    how = []
    for chk, v in det.items():
        if v.get("exit") is None and v.get("note"):
            how.append(chk + " (impl-vs-spec; run stopped by hand while shrinking, see meta.json)")
        if v.get("exit") == 1:
            kinds = sorted({(r.get("kind") or "") for r in v.get("replays", [])})
            how.append(chk + " (" + ",".join(k for k in kinds if k) + ")")
    rows.append((name, ", ".join(m.get("files") or [])[:60], desc, conf, "; ".join(how) if how else "NOT DETECTED", "yes" if name not in FIRST_MISS else "**no** → " + FIRST_MISS[name]))
print("| change | files | what it does | confirmed | caught by | first attempt |")
print("|---|---|---|---|---|---|")
for r in rows:
    print("| " + " | ".join(x.replace("|", "/") for x in r) + " |")
