#!/usr/bin/env python3
"""Print the seeded-change table of DESIGN.md section 11 from seeded/*/meta.json."""
import json, glob, os, re
rows = []
for d in sorted(glob.glob("/verif/seeded/C*")):
    m = json.load(open(d + "/meta.json"))
    name = os.path.basename(d)
    desc = re.sub(r"\s+", " ", m.get("description", "")).strip()
    desc = desc.split(". ")[0][:150]
    c = m.get("confirmed", {})
    conf = "yes" if (c.get("patch_applies") and c.get("suite_passes") and c.get("demo_fails_on_changed_tree")) else "?"
    det = m.get("detected", {})
    how = []
    for chk, v in det.items():
        if v.get("exit") == 1:
            kinds = sorted({(r.get("kind") or "") for r in v.get("replays", [])})
            how.append(chk + " (" + ",".join(k for k in kinds if k) + ")")
    rows.append((name, ", ".join(m.get("files") or [])[:60], desc, conf, "; ".join(how) if how else "NOT DETECTED"))
print("| change | files | what it does | confirmed | caught by |")
print("|---|---|---|---|---|")
for r in rows:
    print("| " + " | ".join(x.replace("|", "/") for x in r) + " |")
