"""Shared machinery of ./check: builds, axiom audit, correspondence, shrinking, evidence."""
import os, re, sys, json, time, subprocess, fcntl, tempfile, hashlib, concurrent.futures, shutil
import native as NATIVE

ALLOWED_AXIOMS = {"propext", "Classical.choice", "Quot.sound"}
BV_AX = re.compile(r"\._native\.bv_decide\.ax_\d+(_\d+)*$")
FORBIDDEN = re.compile(r"\bsorry\b|\badmit\b|^\s*axiom\s|native_decide|implemented_by|\bunsafe\s|maxHeartbeats\s+0\b")
NCPU = os.cpu_count() or 4

TRUSTED_BASE = [
    "Lean 4.33 kernel (thorough tier: re-checked with leanchecker)",
    "axioms propext, Classical.choice, Quot.sound; per-call <thm>._native.bv_decide.ax_* axioms of bv_decide (native evaluation of the verified LRAT checker), listed per theorem in the evidence",
    "the hand-written Lean model is tied to /repo only by the differential correspondence run of this check (harness/ + Driver.lean line protocol) and its generators' reach",
    "harness builds ax for x86_64-linux with --cfg ax_verif, overflow-checks=on, debug-assertions=off; wasm32-only code is not run",
    "third-party code (iced-x86 decoder, elf crate, std, allocator) is not modelled",
]


def log(*a):
    print(*a, file=sys.stderr, flush=True)


class Lock:
    def __init__(self, path):
        self.path = path

    def __enter__(self):
        self.f = open(self.path, "w")
        fcntl.flock(self.f, fcntl.LOCK_EX)

    def __exit__(self, *a):
        fcntl.flock(self.f, fcntl.LOCK_UN)
        self.f.close()


def strip_lean_comments(src):
    # remove /- ... -/ (nested) and -- ... comments
    out, i, depth, n = [], 0, 0, len(src)
    while i < n:
        if src.startswith("/-", i):
            depth += 1
            i += 2
        elif depth and src.startswith("-/", i):
            depth -= 1
            i += 2
        elif depth:
            if src[i] == "\n":
                out.append("\n")
            i += 1
        elif src.startswith("--", i):
            while i < n and src[i] != "\n":
                i += 1
        else:
            out.append(src[i])
            i += 1
    return "".join(out)


def strip_expect(c):
    """' #expect=<line>' / ' #expect-in=<a>|<b>' suffixes are the generator's own knowledge of what the property demands of
    the implementation's answer; they are not sent to any side."""
    k = c.find(" #expect")
    return c if k < 0 else c[:k]


def expectation_fails(c, a):
    k = c.find(" #expect")
    if k < 0 or a is None or a == "skipped":
        return None
    e = c[k + 1:]
    if e.startswith("#expect="):
        want = [e[len("#expect="):]]
    elif e.startswith("#expect-in="):
        want = e[len("#expect-in="):].split("|")
    else:
        return None
    got = a.split(" @", 1)[0]
    return None if got in want else f"expected {' or '.join(want)}, got {got}"


def split_cases(cmds):
    """Group command lines into cases; a case starts at a line whose first word starts with 'new'."""
    cases, cur = [], []
    for c in cmds:
        if c.split(" ", 1)[0].startswith("new") and cur:
            cases.append(cur)
            cur = []
        cur.append(c)
    if cur:
        cases.append(cur)
    return cases


NUM = re.compile(r"^[0-9a-f]+$")


def num_class(tok):
    try:
        v = int(tok, 16)
    except ValueError:
        return tok
    if v == 0:
        return "0"
    if v == 1:
        return "1"
    for w in (8, 16, 32, 64, 128):
        if v == (1 << w) - 1:
            return f"max{w}"
        if v == 1 << (w - 1):
            return f"min{w}"
        if v < (1 << w):
            return f"u{w}"
    return "huge"


def fingerprint(cmd, out):
    toks = cmd.split()
    abst = [toks[0]] + [num_class(t) if NUM.match(t) else (t if len(t) < 24 else "blob") for t in toks[1:6]]
    return " ".join(abst) + " => " + (out.split(" ", 1)[0] if out else "")


class Run:
    def __init__(self, root, pid, cfg, tier, seed):
        self.root, self.pid, self.cfg, self.tier, self.seed = root, pid, cfg, tier, seed
        self.lean = os.path.join(root, "lean")
        self.harness = os.path.join(root, "harness")
        self.axh = os.path.join(self.harness, "target", "release", "axh")
        self.driver = os.path.join(self.lean, ".lake", "build", "bin", "axdriver")
        self.nx = os.path.join(root, "native", "nx")
        self.t0 = time.time()
        self.notes = []
        self.env = dict(os.environ, CARGO_NET_OFFLINE="true")

    # ------------------------------------------------------------------ builds
    def build_lean(self):
        mods = self.cfg["lean_modules"]
        with Lock(os.path.join(self.root, ".lean.lock")):
            p = subprocess.run(["lake", "build"] + mods + ["axdriver"], cwd=self.lean, capture_output=True, text=True)
        ok = p.returncode == 0
        if not ok:
            log(p.stdout[-4000:], p.stderr[-2000:])
        return ok, (p.stdout + p.stderr)

    def theorem_names(self):
        names = []
        for m in self.cfg["lean_modules"]:
            path = os.path.join(self.lean, m.replace(".", "/") + ".lean")
            src = strip_lean_comments(open(path).read())
            ns = None
            for line in src.splitlines():
                mm = re.match(r"^namespace\s+(\S+)", line)
                if mm:
                    ns = mm.group(1)
                mm = re.match(r"^(?:private\s+)?theorem\s+([A-Za-z_][A-Za-z0-9_'.]*)", line)
                if mm:
                    names.append((m, (ns + "." if ns else "") + mm.group(1)))
        return names

    def audit(self):
        """#print axioms for every property theorem; returns list of dicts."""
        names = self.theorem_names()
        if not names:
            return []
        mods = sorted({m for m, _ in names})
        src = "".join(f"import {m}\n" for m in mods) + "".join(f"#print axioms {n}\n" for _, n in names)
        path = os.path.join(self.lean, ".lake", f"audit_{self.pid}.lean")
        open(path, "w").write(src)
        p = subprocess.run(["lake", "env", "lean", path], cwd=self.lean, capture_output=True, text=True)
        text = p.stdout + p.stderr
        res = []
        for _, n in names:
            m = re.search(r"'" + re.escape(n) + r"' depends on axioms: \[([^\]]*)\]", text)
            if m:
                axs = [a.strip() for a in m.group(1).replace("\n", " ").split(",") if a.strip()]
            elif re.search(r"'" + re.escape(n) + r"' does not depend on any axioms", text):
                axs = []
            else:
                res.append({"theorem": n, "ok": False, "axioms": None, "why": "not found / did not elaborate"})
                continue
            bad = [a for a in axs if a not in ALLOWED_AXIOMS and not BV_AX.search(a)]
            res.append({"theorem": n, "ok": not bad, "axioms_std": [a for a in axs if a in ALLOWED_AXIOMS],
                        "bv_decide_axioms": len([a for a in axs if BV_AX.search(a)]), "bad": bad})
        return res

    def grep_forbidden(self):
        hits = []
        for dp, dn, fn in os.walk(self.lean):
            if ".lake" in dp:
                continue
            for f in fn:
                if f.endswith(".lean"):
                    src = strip_lean_comments(open(os.path.join(dp, f)).read())
                    for i, line in enumerate(src.splitlines(), 1):
                        if FORBIDDEN.search(line):
                            hits.append(f"{os.path.relpath(os.path.join(dp, f), self.root)}:{i}: {line.strip()[:100]}")
        return hits

    def leanchecker(self):
        mods = self.cfg["lean_modules"]
        p = subprocess.run(["lake", "env", "leanchecker"] + mods, cwd=self.lean, capture_output=True, text=True)
        return p.returncode == 0, (p.stdout + p.stderr)[-2000:]

    def build_harness(self):
        with Lock(os.path.join(self.root, ".cargo.lock")):
            p = subprocess.run(["cargo", "build", "--release", "--offline"], cwd=self.harness, capture_output=True,
                               text=True, env=self.env)
        if p.returncode != 0:
            log(p.stderr[-6000:])
        return p.returncode == 0, p.stderr

    # ------------------------------------------------------------ running sides
    def _run_proc(self, argv, cmds, timeout):
        """Run a line-protocol child on cmds; returns (outs, status) where outs may be shorter than cmds."""
        cmds = [strip_expect(c) for c in cmds]
        # the implementation side runs under an address-space limit (default 2 GiB): a guest request for gigabytes (a brk
        # far above the heap) then fails in the allocator with an error instead of being satisfied lazily and dragging the host down
        limit = self.cfg.get("rlimit_as", 2 * 1024 ** 3) if argv and argv[0] == self.axh else None

        def pre():
            import resource
            resource.setrlimit(resource.RLIMIT_AS, (limit, limit))

        with tempfile.TemporaryFile("w+") as fo:
            p = subprocess.Popen(argv, stdin=subprocess.PIPE, stdout=fo, stderr=subprocess.DEVNULL, text=True,
                                 env=self.env, preexec_fn=pre if limit else None)
            status = "ok"
            try:
                p.communicate("\n".join(cmds) + "\n", timeout=timeout)
                if p.returncode != 0:
                    status = f"died rc={p.returncode}"
            except subprocess.TimeoutExpired:
                p.kill()
                p.communicate()
                status = "timeout"
            fo.seek(0)
            outs = fo.read().split("\n")
            if outs and outs[-1] == "":
                outs.pop()
        return outs, status

    def run_side(self, argv, cmds, timeout=300, crash_word="abort"):
        """Supervised run: if the child dies or hangs at command k, record crash_word/hang there, mark the rest of
        that case 'skipped', and continue with the following cases in a fresh child."""
        outs = []
        cases = split_cases(cmds)
        idx = 0  # case index
        while idx < len(cases):
            flat = [c for cs in cases[idx:] for c in cs]
            got, status = self._run_proc(argv, flat, timeout)
            if status == "ok" and len(got) == len(flat):
                outs.extend(got)
                break
            # locate the case in which the child stopped
            k = len(got)
            pos = 0
            j = idx
            while j < len(cases) and pos + len(cases[j]) <= k:
                pos += len(cases[j])
                j += 1
            outs.extend(got[:k])
            if j >= len(cases):
                break
            word = "hang" if status == "timeout" else crash_word
            inside = k - pos
            outs.append(word)
            outs.extend(["skipped"] * (len(cases[j]) - inside - 1))
            idx = j + 1
        return outs

    def run_impl(self, cmds, timeout=300):
        return self.run_side([self.axh, "exec"], cmds, timeout)

    def run_model(self, cmds, timeout=600):
        return self.run_side([self.driver], cmds, timeout, crash_word="model-crash")

    def build_native(self):
        src = os.path.join(self.root, "native", "nx.c")
        if not os.path.exists(self.nx) or os.path.getmtime(self.nx) < os.path.getmtime(src):
            with Lock(os.path.join(self.root, ".cc.lock")):
                p = subprocess.run(["cc", "-O1", "-fno-stack-protector", "-o", self.nx, src], capture_output=True, text=True)
                if p.returncode != 0:
                    log(p.stderr[-2000:])
                    return False
        return True

    def run_cpu(self, cmds, timeout=600):
        return self.run_side([self.nx], cmds, timeout, crash_word="skip")

    def run_both(self, cmds, timeout=300):
        """Implementation first; a trailing ' @token' of an implementation output line is feedback for the model
        (values only the running implementation knows, e.g. the descriptor numbers its RNG handed out): it is
        stripped from the compared output and appended to the model's command."""
        cmds = [strip_expect(c) for c in cmds]
        raw = self.run_impl(cmds, timeout)
        if self.cfg.get("two_run"):
            # C20: a second, independent execution of the same commands in a fresh process whose RNG, hash seeds and
            # allocator state are additionally perturbed by a throw-away machine in front of every case
            junk = ["new 90c3 1000 1000", "step", "regs", "trace"]
            cmds2, owner = [], []
            for k, c in enumerate(cmds):
                if c.split(" ", 1)[0] in ("new", "newraw"):
                    for j in junk:
                        cmds2.append(j)
                        owner.append(None)
                cmds2.append(c)
                owner.append(k)
            raw2_all = self.run_side([self.axh, "exec"], cmds2, timeout)
            raw2 = {}
            for o, k in zip(raw2_all, owner):
                if k is not None:
                    raw2[k] = o
            strip = lambda o: o.split(" @", 1)[0] if o is not None else o
            for k in range(len(raw)):
                a, b = raw[k], raw2.get(k)
                if b is None or a == "skipped" or b == "skipped":
                    continue
                if strip(a) != strip(b):
                    raw[k] = f"nondeterministic run1=[{strip(a)}] run2=[{strip(b)}]"
            raw = [re.sub(r" msg=[0-9a-f]{16}", "", o) for o in raw]
        impl, mcmds = [], []
        for i, c in enumerate(cmds):
            o = raw[i] if i < len(raw) else None
            if o is not None and " @" in o:
                o, fb = o.split(" @", 1)
                mcmds.append(c + " @" + fb)
            else:
                mcmds.append(c)
            if o is not None:
                impl.append(o)
        model = self.run_model(mcmds, timeout * 2)
        return impl, model

    def gen(self, seed, tier):
        p = subprocess.run([self.axh, "gen", self.cfg.get("gen", self.pid), tier, str(seed)], capture_output=True,
                           text=True, env=self.env)
        if p.returncode != 0:
            raise RuntimeError("generator failed: " + p.stderr[-2000:])
        return [l for l in p.stdout.split("\n") if l]

    # ---------------------------------------------------------------- compare
    def line_equal(self, cmd, a, b):
        if b == "unspecified" or (a == "skipped" and b != "model-crash"):
            # state after a failed instruction is not specified by any property / rest of a case whose
            # implementation side died (the death itself is reported at the line where it happened)
            return True
        eq = self.cfg.get("line_equal")
        if eq:
            return eq(cmd, a, b)
        if cmd == "areas":
            # the area list is a set of (name, start, length, access, data): its order is an implementation detail, and so are
            # the names of areas the emulator creates on its own (stack, argument strings, ELF segments): the model marks
            # those with `!` (it knows which areas the case created itself); only the other names are compared
            def parse(line):
                out = []
                for t in line.split(" "):
                    f = t.split(",")
                    if len(f) < 6:
                        raise ValueError(t)
                    name = ",".join(f[:-5])
                    out.append(((int(f[-5], 16), int(f[-4], 16), f[-3], f[-2], f[-1]), name))
                return sorted(out, key=lambda x: x[0])
            if a in ("none", "unspecified") or b in ("none", "unspecified"):
                return a == b
            try:
                pa, pb = parse(a), parse(b)
            except ValueError:
                return a == b
            if len(pa) != len(pb):
                return False
            for (ka, na), (kb, nb) in zip(pa, pb):
                if ka != kb:
                    return False
                if not nb.startswith("!") and na != nb:
                    return False
            return True
        if a != b and "=?" in b:
            # a field the model declares unknown (flags after a failed instruction)
            ta, tb = a.split(" "), b.split(" ")
            return len(ta) == len(tb) and all(x == y or (y.endswith("=?") and x.split("=")[0] == y[:-2]) for x, y in zip(ta, tb))
        return a == b

    def diff_case(self, cmds, impl, model):
        """index of first differing line in a case or None"""
        self._given = {c.split(" ")[-1] for c in cmds if c.split(" ", 1)[0] in ("area", "areaz", "zero", "any", "anyz")}
        for i, (c, a, b) in enumerate(zip(cmds, impl, model)):
            if not self.line_equal(c, a, b):
                return i
        if len(impl) != len(cmds) or len(model) != len(cmds):
            return min(len(impl), len(model))
        return None

    def case_fails(self, cmds):
        impl, model = self.run_both(cmds, timeout=60)
        d = self.diff_case(cmds, impl, model)
        return d, impl, model

    def shrink(self, cmds, budget=250):
        """Greedy delta debugging on the command list of one case (first line kept).  A candidate counts only if it fails
        the same way: same command verb at the first difference, and not merely because the shrinking removed something
        the model needs (decoder answers) or produced a line one side does not understand."""
        cur = list(cmds)
        d, impl0, model0 = self.case_fails(cur)
        if d is None or d >= len(cur):
            return cur
        verb = cur[d].split(" ", 1)[0]
        cur = cur[: d + 1]
        tries = 0
        changed = True

        def same_failure(cand):
            dd, ci, cm = self.case_fails(cand)
            if dd is None or dd >= len(cand) or cand[dd].split(" ", 1)[0] != verb:
                return None
            a = ci[dd] if dd < len(ci) else ""
            b = cm[dd] if dd < len(cm) else ""
            if b in ("no-decode-info", "bad-op", "model-crash") or a == "bad-op":
                return None
            return dd

        while changed and tries < budget:
            changed = False
            i = len(cur) - 2
            while i >= 1 and tries < budget:
                if cur[i].startswith("dec "):
                    i -= 1
                    continue
                cand = cur[:i] + cur[i + 1:]
                tries += 1
                dd = same_failure(cand)
                if dd is not None:
                    cur = cand[: dd + 1]
                    changed = True
                    i = min(i, len(cur) - 1)
                i -= 1
        # drop decoder answers for addresses that are never fetched only at the very end, all at once
        keep = [c for c in cur if not c.startswith("dec ")]
        if len(keep) < len(cur):
            used = cur
            # try removing each dec line individually is expensive: remove those whose removal keeps the failure, in one sweep
            for c in [c for c in cur if c.startswith("dec ")]:
                if tries >= budget + 60:
                    break
                cand = [x for x in used if x != c]
                tries += 1
                if same_failure(cand) is not None:
                    used = cand
            cur = used
        return cur

    # ----------------------------------------------------------------- replay
    def write_replay(self, kind, cmds, impl, model, first, extra=None):
        d = os.path.join(self.root, "replays", self.pid)
        os.makedirs(d, exist_ok=True)
        h = hashlib.sha1(("\n".join(cmds) + kind).encode()).hexdigest()[:12]
        path = os.path.join(d, f"{kind}-{h}.json")
        body = {"property": self.pid, "kind": kind, "commands": cmds, "impl": impl, "model": model,
                "first_difference": first, "seed": self.seed, "tier": self.tier}
        if extra:
            body.update(extra)
        json.dump(body, open(path, "w"), indent=1)
        return os.path.relpath(path, self.root)

    def replay(self, path):
        ok, _ = self.build_lean()
        okh, _ = self.build_harness()
        if not (ok and okh):
            print("CHECK-ERROR build failed")
            return 2
        body = json.load(open(path))
        cmds = body["commands"]
        if not cmds:
            print(f"replay {path}: no commands (theorem/correspondence-level report): {body.get('note')}")
            return 1
        d, impl, model = self.case_fails(cmds)
        cpu = None
        if self.cfg.get("native") and self.build_native():
            cpu = self.run_cpu(cmds, timeout=60)
        for i, c in enumerate(cmds):
            a = impl[i] if i < len(impl) else "<none>"
            b = model[i] if i < len(model) else "<none>"
            mark = "  " if self.line_equal(c, a, b) else "!!"
            print(f"{mark} {c[:300]}\n     impl : {a[:300]}\n     model: {b[:300]}" + (f"\n     cpu  : {cpu[i][:300]}" if cpu and i < len(cpu) else ""))
        cpu_viol = False
        if cpu:
            cv = NATIVE.CaseView(cmds, impl, model, cpu)
            j = NATIVE.judge(cv, self.cfg["native"]["aspects"])
            if j:
                if self.cfg["native"].get("stack_shift") and NATIVE.stack_shift_explains(cv):
                    j = [(f"cpu:{cv.kv['code']}:slot-offset=+opsize", j[0][1])]
                for a_, d_ in j:
                    print("cpu-mismatch:", a_, d_)
                kf = self.known_findings()
                cpu_viol = any(self.match_known(kf, a_) is None for a_, _ in j)
        extra = self.cfg.get("oracle")
        viol = d is not None or cpu_viol
        for c, a in zip(cmds, impl):
            why = expectation_fails(c, a)
            if why:
                print("expectation:", strip_expect(c)[:200], "-", why[:400])
                viol = True
        if extra:
            msgs = extra(cmds, impl)
            for m in msgs:
                print("oracle:", m)
            viol = viol or bool(msgs)
        if viol:
            print(f"VIOLATION property={self.pid} replay={path}")
            return 1
        print("replay: implementation and model agree on this case")
        return 0

    # ------------------------------------------------------------------ check
    def known_findings(self):
        p = os.path.join(self.root, "known_findings.json")
        if not os.path.exists(p):
            return []
        return [e for e in json.load(open(p)) if e.get("property") == self.pid]

    def check(self):
        pid, cfg = self.pid, self.cfg
        violations = []      # (line to print)
        known_hit = {}
        # 1. Lean
        ok_lean, lean_log = self.build_lean()
        audit = self.audit() if ok_lean else []
        forb = self.grep_forbidden()
        obligations = len(audit) if audit else len(self.theorem_names())
        discharged = len([a for a in audit if a["ok"]]) if ok_lean and not forb else 0
        lc = None
        if ok_lean and self.tier == "thorough":
            lc_ok, lc_log = self.leanchecker()
            lc = {"ok": lc_ok, "log": lc_log[-500:]}
            if not lc_ok:
                discharged = 0
        proof_broken = []
        if not ok_lean:
            proof_broken.append("lake build failed for " + ",".join(cfg["lean_modules"]))
        for a in audit:
            if not a["ok"]:
                proof_broken.append(f"theorem {a['theorem']}: {a.get('why') or 'disallowed axioms ' + str(a.get('bad'))}")
        for h in forb:
            proof_broken.append("forbidden token: " + h)
        if lc and not lc["ok"]:
            proof_broken.append("leanchecker rejected the modules")
        # 2. harness
        ok_h, hlog = self.build_harness()
        if not ok_h:
            # /repo no longer builds with the guard: cannot decide anything
            path = self.write_replay("build-failure", [], [], [], None, {"note": "harness build against /repo failed",
                                                                          "log": hlog[-3000:]})
            print(f"VIOLATION property={pid} replay={path} no-failing-input-found")
            self.write_evidence(obligations, discharged, audit, 0, 0, [], {}, 1, lc, {"build": "failed"})
            return 1
        if not os.path.exists(self.driver):
            print("CHECK-ERROR lean driver missing")
            return 2
        # 3. correspondence
        all_cmds = []
        corpus_dir = os.path.join(self.root, "corpus", pid)
        corpus_cases = 0
        if os.path.isdir(corpus_dir):
            for f in sorted(os.listdir(corpus_dir)):
                if f.endswith(".case"):
                    all_cmds.extend([l for l in open(os.path.join(corpus_dir, f)).read().split("\n") if l and not l.startswith("#")])
                    corpus_cases += 1
        shards = cfg.get("shards", {"quick": 4, "thorough": 16})[self.tier]
        seeds = [self.seed * 1000 + i for i in range(shards)]

        def one(seed):
            cmds = self.gen(seed, self.tier)
            return cmds

        with concurrent.futures.ThreadPoolExecutor(max_workers=min(NCPU, shards)) as ex:
            gens = list(ex.map(one, seeds))
        batches = [all_cmds] if all_cmds else []
        batches += gens

        def run_batch(cmds):
            impl, model = self.run_both(cmds, timeout=cfg.get("timeout", 600))
            return cmds, impl, model

        with concurrent.futures.ThreadPoolExecutor(max_workers=min(NCPU, max(1, len(batches)))) as ex:
            results = list(ex.map(run_batch, batches))

        n_cases = n_cmds = 0
        fps = set()
        hist = {}
        samples = []
        disagreements = []
        oracle = cfg.get("oracle")
        oracle_fail = []
        stats_fn = cfg.get("stats")
        stats = {}
        for cmds, impl, model in results:
            pos = 0
            for case in split_cases(cmds):
                ci = impl[pos:pos + len(case)]
                cm = model[pos:pos + len(case)]
                pos += len(case)
                n_cases += 1
                n_cmds += len(case)
                for c, a in zip(case, ci):
                    verb = c.split(" ", 1)[0]
                    oc = a.split(" ", 1)[0] if a else ""
                    hk = oc if len(oc) <= 12 and not NUM.match(oc) else "value"
                    hist[verb + ":" + hk] = hist.get(verb + ":" + hk, 0) + 1
                    if oc not in ("-", "bad-op", "skipped", ""):
                        fps.add(fingerprint(c, a))
                if len(samples) < 3 and len(case) > 2 and n_cases % 97 == 1:
                    samples.append({"commands": case[:12], "impl": ci[:12], "model": cm[:12]})
                if stats_fn:
                    for k in stats_fn(case, ci):
                        stats[k] = stats.get(k, 0) + 1
                d = self.diff_case(case, ci, cm)
                if d is not None:
                    disagreements.append((case, ci, cm, d))
                msgs = []
                for c, a in zip(case, ci):
                    why = expectation_fails(c, a)
                    if why:
                        msgs.append(f"expect:{c.split(' ', 1)[0]}: {strip_expect(c)}: {why}")
                        break
                if oracle:
                    msgs += oracle(case, ci)
                else:
                    # no property tolerates a crash of the code under test: a panic/abort/hang is reported even when the
                    # model predicts it (a modelled crash site that inputs reach is a defect, not an agreement)
                    for c, a in zip(case, ci):
                        w = a.split(" ", 1)[0] if a else ""
                        if w in ("panic", "abort", "hang"):
                            msgs.append(f"crash:{w}:{c.split(' ')[0]}")
                            break
                if msgs:
                    oracle_fail.append((case, ci, cm, msgs))
        if not samples and results and results[0][0]:
            c0 = split_cases(results[0][0])[0]
            samples.append({"commands": c0[:12], "impl": results[0][1][:len(c0)][:12], "model": results[0][2][:len(c0)][:12]})

        # native CPU oracle (C01-C06)
        cpu_mismatch = []     # (case, impl, model, cpu, [(aspect, detail)])
        cpu_compared = cpu_skipped = 0
        ncfg = cfg.get("native")
        if ncfg:
            if not self.build_native():
                print("CHECK-ERROR native oracle does not build")
                return 2

            def run_cpu_batch(r):
                return self.run_cpu(r[0], timeout=min(cfg.get("timeout", 600), 180))

            with concurrent.futures.ThreadPoolExecutor(max_workers=min(NCPU, max(1, len(results)))) as ex:
                cpus = list(ex.map(run_cpu_batch, results))
            for (cmds, impl, model), cpu in zip(results, cpus):
                pos = 0
                for case in split_cases(cmds):
                    n = len(case)
                    cv = NATIVE.CaseView(case, impl[pos:pos + n], model[pos:pos + n], cpu[pos:pos + n])
                    pos += n
                    j = NATIVE.judge(cv, ncfg["aspects"])
                    if j is None:
                        cpu_skipped += 1
                        continue
                    cpu_compared += 1
                    if j:
                        if ncfg.get("stack_shift") and NATIVE.stack_shift_explains(cv):
                            j = [(f"cpu:{cv.kv['code']}:slot-offset=+opsize", j[0][1])]
                        cpu_mismatch.append((case, cv.impl, cv.model, cv.cpu, j))

        bad_ops = sum(v for k, v in hist.items() if k.endswith(":bad-op"))
        if bad_ops:
            print(f"CHECK-ERROR {bad_ops} protocol lines were not understood by the implementation side")
            return 2

        kf = self.known_findings()
        classify = cfg.get("classify")  # (case, impl, model, idx) -> dict(kind=..., aspect=...)
        reported = set()
        # implementation failures against the property's own oracle
        for case, ci, cm, msgs in oracle_fail[:50]:
            key = msgs[0].split(": ")[0]
            ent = self.match_known(kf, key)
            if ent is not None:
                known_hit[ent["id"]] = ent
                continue
            if key in reported or len(violations) >= 5:
                continue
            reported.add(key)
            small = case
            path = self.write_replay("oracle", small, ci, cm, None, {"oracle_messages": msgs})
            violations.append(f"VIOLATION property={pid} replay={path}")
        for case, ci, cm, cc, j in cpu_mismatch:
            key = j[0][0]
            ent = self.match_known(kf, key)
            if ent is not None:
                known_hit[ent["id"]] = ent
                continue
            if key in reported or len(violations) >= 5:
                continue
            reported.add(key)
            path = self.write_replay("impl-vs-cpu", case, ci, cm, None, {"cpu": cc, "aspect": key,
                                     "mismatches": [f"{a}: {d}" for a, d in j],
                                     "note": "the emulator's result differs from what this machine's CPU produced for the same bytes and state"})
            violations.append(f"VIOLATION property={pid} replay={path}")
        for case, ci, cm, d in disagreements:
            info = classify(case, ci, cm, d) if classify else {"aspect": fingerprint(case[d], ci[d] if d < len(ci) else "")}
            ent = self.match_known(kf, info["aspect"])
            if ent is not None:
                known_hit[ent["id"]] = ent
                continue
            key = info["aspect"]
            if key in reported or len(violations) >= 5:
                continue
            reported.add(key)
            small = self.shrink(case)
            dd, si, sm = self.case_fails(small)
            spec_det = cfg.get("spec_determined", True)
            if callable(spec_det):
                spec_det = spec_det(small, si, sm, dd)
            kind = "impl-vs-spec" if spec_det else "model-disagreement"
            path = self.write_replay(kind, small, si, sm, dd, {"aspect": key, "unshrunk_commands": case if len(case) < 400 else case[:400],
                                     "note": "implementation deviates from the model the theorems are about" +
                                     ("; the deviating output is fixed by the property's specification, so this case is a failing input"
                                      if spec_det else "; the specification does not by itself condemn this output")})
            violations.append(f"VIOLATION property={pid} replay={path}" + ("" if spec_det else " no-failing-input-found"))
        if proof_broken and not violations:
            path = self.write_replay("proof", [], [], [], None, {"note": "proof obligations no longer check",
                                                                  "broken": proof_broken})
            violations.append(f"VIOLATION property={pid} replay={path} no-failing-input-found")
        for ent in known_hit.values():
            print(f"KNOWN-FINDING: property={pid} {ent['what']}")
        violations = list(dict.fromkeys(violations))
        for v in violations:
            print(v)
        extra = {"cpu_cases_compared": cpu_compared, "cpu_cases_not_comparable": cpu_skipped, "cpu_mismatches": len(cpu_mismatch),
                 "corpus_cases": corpus_cases, "commands": n_cmds, "outcome_histogram": dict(sorted(hist.items())),
                 "model_disagreements": len(disagreements), "oracle_failures": len(oracle_fail),
                 "known_findings_hit": sorted(known_hit.keys()), "proof_broken": proof_broken}
        if stats_fn:
            extra["input_distribution"] = dict(sorted(stats.items()))
        self.write_evidence(obligations, discharged, audit, n_cases, len(fps), samples, extra, len(violations), lc)
        log(f"[{pid}] tier={self.tier} cases={n_cases} cmds={n_cmds} distinct={len(fps)} obligations={obligations} "
            f"discharged={discharged} disagreements={len(disagreements)} violations={len(violations)} "
            f"wall={time.time() - self.t0:.1f}s")
        return 1 if violations else 0

    def match_known(self, kf, aspect):
        for e in kf:
            if e.get("status") != "known":
                continue
            if re.search(e["aspect_regex"], aspect):
                return e
        return None

    def write_evidence(self, obligations, discharged, audit, n_cases, distinct, samples, extra, nviol, lc, more=None):
        cfg = self.cfg
        cov = {
            "obligations": obligations,
            "discharged": discharged,
            "checker_cmd": f"cd lean && lake build {' '.join(cfg['lean_modules'])} && lake env lean <#print axioms of every theorem>" +
                           (" && lake env leanchecker " + " ".join(cfg["lean_modules"]) if self.tier == "thorough" else ""),
            "trusted_base": TRUSTED_BASE + cfg.get("trusted_extra", []),
            "theorems": audit,
            "evaluations": n_cases,
            "distinct_nontrivial": distinct,
            "rule": cfg.get("rule", "cases from the seeded generator; a case counts once per distinct (command verb, argument value classes, outcome class) fingerprint whose command reached the code under test (not a set-up or rejected-as-malformed line)"),
            "samples": samples,
            "traces_validated_against_impl": n_cases,
            "exhaustive": False,
            "exhaustive_subspaces": cfg.get("exhaustive", {}).get(self.tier, []),
            "proved_scope": cfg.get("proved_scope", ""),
            "sampled_only_scope": cfg.get("sampled_only_scope", ""),
        }
        if lc is not None:
            cov["leanchecker"] = lc
        cov.update(extra or {})
        if more:
            cov.update(more)
        ev = {"property_id": self.pid, "tier": self.tier, "seed": self.seed, "level": cfg.get("level", "proof"),
              "coverage": cov, "assumptions": cfg.get("assumptions", []), "wall_s": round(time.time() - self.t0, 2),
              "violations": nviol}
        d = os.path.join(self.root, "evidence")
        os.makedirs(d, exist_ok=True)
        json.dump(ev, open(os.path.join(d, f"{self.pid}.json"), "w"), indent=1)
