"""Per-property configuration of ./check."""

PROPS = {}

PROPS["C07"] = {
    "lean_modules": ["AxVerif.Props.C07"],
    "gen": "C07",
    "spec_determined": True,   # model = architectural register file (regfile_refines): every output is fixed by the spec
    "exhaustive": {
        "quick": ["write each of the 68 GPR views, read all 68 views back (2 values)",
                  "all 86 registers x 4 API widths: read, in-range write, out-of-range write"],
        "thorough": ["write each of the 68 GPR views, read all 68 views back (12 boundary values)",
                     "all 86 registers x 4 API widths: read, in-range write, out-of-range write"],
    },
    "proved_scope": "reg_read_8/16/32/64 and reg_write_8/16/32/64 over all registers, values and histories "
                    "(read_eq_extract, write_eq_merge, aliasing lemmas, reject_range, reject_width, never_panics, "
                    "regfile_refines)",
    "sampled_only_scope": "that the Rust functions compute what the model computes (differential run)",
    "assumptions": ["the register HashMap always holds the 16 GPRs and RIP (true after Axecutor::new/empty)"],
}

PROPS["C08"] = {
    "lean_modules": ["AxVerif.Props.C08"],
    "gen": "C08",
    "spec_determined": True,   # byte-map refinement: every read result / write outcome is fixed by the spec
    "exhaustive": {"quick": [], "thorough": []},
    "proved_scope": "mem_read_bytes, mem_write_bytes, typed accessors 1/2/4/8/16 bytes over all layouts satisfying WF/NoOverlap "
                    "(invariants of every operation, C10), all addresses and lengths incl. >= 2^64-1, all write histories",
    "sampled_only_scope": "that memory.rs computes what the model computes; guest loads/stores reach these primitives (instruction layer)",
    "assumptions": ["lengths of generated areas are small (the allocator is not modelled)"],
}

PROPS["C09"] = {
    "lean_modules": ["AxVerif.Props.C09"],
    "gen": "C09",
    "spec_determined": True,
    "exhaustive": {"quick": ["8 masks x 3 neighbour masks x {read bytes, typed read, fetch, write bytes, typed write} on both areas"],
                   "thorough": ["8 masks x 3 neighbour masks x {read bytes, typed read, fetch, write bytes, typed write} on both areas"]},
    "proved_scope": "read_needs_R, write_needs_W, fetch_needs_X, denied accesses are error values, permissions survive writes, "
                    "code_immutable over all write histories, constructor maps code R+X, data areas are not executable",
    "sampled_only_scope": "instruction-level paths (PUSH/CALL stores, read-modify-write) are covered by the instruction correspondence",
    "assumptions": [],
}

PROPS["C10"] = {
    "lean_modules": ["AxVerif.Props.C10"],
    "gen": "C10",
    "spec_determined": True,
    "exhaustive": {"quick": [], "thorough": []},
    "proved_scope": "NoOverlap and WF are invariants of mem_init_area*/mem_init_zero*/mem_prot/mem_resize_section/"
                    "mem_init_*anywhere/init_stack area search/mem_write_bytes and of every history; overlap_rejected; "
                    "anywhere_fresh; resize_iff; resize_prefix_zero; termination of the searches (Lean termination checker)",
    "sampled_only_scope": "ELF load and brk go through the same operations (C13, C15)",
    "assumptions": ["allocation of the requested length succeeds (huge lengths are not generated: the allocator aborts the process)"],
}
