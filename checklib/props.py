"""Per-property configuration of ./check."""

PROPS = {}

PROPS["C07"] = {
    "lean_modules": ["AxVerif.Props.C07"],
    "gen": "C07",
    "spec_determined": True,   # model = architectural register file (regfile_refines): every output is fixed by the spec
    "exhaustive": {
        "quick": ["write each of the 68 GPR views, read all 68 views back (2 values)",
                  "all 86 registers x 4 API widths: read, in-range write, out-of-range write"],
        "thorough": ["write each of the 68 GPR views, read all 68 views back (12 boundary values)",
                     "all 86 registers x 4 API widths: read, in-range write, out-of-range write"],
    },
    "proved_scope": "reg_read_8/16/32/64 and reg_write_8/16/32/64 over all registers, values and histories "
                    "(read_eq_extract, write_eq_merge, aliasing lemmas, reject_range, reject_width, never_panics, "
                    "regfile_refines)",
    "sampled_only_scope": "that the Rust functions compute what the model computes (differential run)",
    "assumptions": ["the register HashMap always holds the 16 GPRs and RIP (true after Axecutor::new/empty)"],
}
