"""Per-property configuration of ./check."""

PROPS = {}

PROPS["C07"] = {
    "lean_modules": ["AxVerif.Props.C07"],
    "gen": "C07",
    "spec_determined": True,   # model = architectural register file (regfile_refines): every output is fixed by the spec
    "exhaustive": {
        "quick": ["write each of the 68 GPR views, read all 68 views back (2 values)",
                  "all 86 registers x 4 API widths: read, in-range write, out-of-range write"],
        "thorough": ["write each of the 68 GPR views, read all 68 views back (12 boundary values)",
                     "all 86 registers x 4 API widths: read, in-range write, out-of-range write"],
    },
    "proved_scope": "reg_read_8/16/32/64 and reg_write_8/16/32/64 over all registers, values and histories "
                    "(read_eq_extract, write_eq_merge, aliasing lemmas, reject_range, reject_width, never_panics, "
                    "regfile_refines)",
    "sampled_only_scope": "that the Rust functions compute what the model computes (differential run)",
    "assumptions": ["the register HashMap always holds the 16 GPRs and RIP (true after Axecutor::new/empty)"],
}

PROPS["C08"] = {
    "lean_modules": ["AxVerif.Props.C08", "AxVerif.Props.C08Instr"],
    "gen": "C08",
    "spec_determined": True,   # byte-map refinement: every read result / write outcome is fixed by the spec
    "exhaustive": {"quick": [], "thorough": []},
    "proved_scope": "mem_read_bytes, mem_write_bytes, typed accessors 1/2/4/8/16 bytes over all layouts satisfying WF/NoOverlap "
                    "(invariants of every operation, C10), all addresses and lengths incl. >= 2^64-1, all write histories",
    "sampled_only_scope": "that memory.rs computes what the model computes; guest loads/stores reach these primitives (instruction layer)",
    "assumptions": ["lengths of generated areas are small (the allocator is not modelled)"],
}

PROPS["C09"] = {
    "lean_modules": ["AxVerif.Props.C09"],
    "gen": "C09",
    "spec_determined": True,
    "exhaustive": {"quick": ["8 masks x 3 neighbour masks x {read bytes, typed read, fetch, write bytes, typed write} on both areas"],
                   "thorough": ["8 masks x 3 neighbour masks x {read bytes, typed read, fetch, write bytes, typed write} on both areas"]},
    "proved_scope": "read_needs_R, write_needs_W, fetch_needs_X, denied accesses are error values, permissions survive writes, "
                    "code_immutable over all write histories, constructor maps code R+X, data areas are not executable",
    "sampled_only_scope": "instruction-level paths (PUSH/CALL stores, read-modify-write) are covered by the instruction correspondence",
    "assumptions": [],
}

PROPS["C10"] = {
    "lean_modules": ["AxVerif.Props.C10"],
    "gen": "C10",
    "spec_determined": True,
    "exhaustive": {"quick": [], "thorough": []},
    "proved_scope": "NoOverlap and WF are invariants of mem_init_area*/mem_init_zero*/mem_prot/mem_resize_section/"
                    "mem_init_*anywhere/init_stack area search/mem_write_bytes and of every history; overlap_rejected; "
                    "anywhere_fresh; resize_iff; resize_prefix_zero; termination of the searches (Lean termination checker)",
    "sampled_only_scope": "ELF load and brk go through the same operations (C13, C15)",
    "assumptions": ["allocation of the requested length succeeds (huge lengths are not generated: the allocator aborts the process)"],
}

PROPS["C11"] = {
    "lean_modules": ["AxVerif.Props.C11"],
    "gen": "C11",
    "spec_determined": True,
    "exhaustive": {"quick": [], "thorough": []},
    "proved_scope": "step()/execute() for every decoder answer, every instruction the model executes, every hook table whose hooks "
                    "leave the crate-private loop fields alone: finished/limit steps fail unchanged, a successful step counts exactly one "
                    "instruction, continue == !finished, finish_iff, fuel irrelevance of execute, limit exactness over runs",
    "sampled_only_scope": "that execute.rs computes what the model computes: random branchy programs, step-by-step and execute runs of the same program, limits 0..40, steps after the end",
    "assumptions": ["native hooks cannot write executed_instructions_count / max_instructions / code_end_addr (crate-private)"],
}
PROPS["C12"] = {
    "lean_modules": ["AxVerif.Props.C12"],
    "gen": "C12",
    "spec_determined": True,
    "exhaustive": {"quick": [], "thorough": []},
    "proved_scope": "hook chains over arbitrary hook functions: invoked hooks are a prefix in order, all run unless handled/stop/error, "
                    "short-circuit lemmas, running flag false after every chain and every step, true inside hooks, other mnemonics silent, "
                    "before-hooks see next_ip, hook errors fail the step",
    "sampled_only_scope": "hooks.rs/execute.rs correspondence with scripted hooks (outcomes handled/unhandled/stop/error, register edits) and late registrations",
    "assumptions": ["hooks cannot write hooks.running (crate-private)", "JS hooks (wasm32) are not run"],
}
PROPS["C13"] = {
    "lean_modules": ["AxVerif.Props.C13"],
    "gen": "C13",
    "spec_determined": True,
    "exhaustive": {"quick": [], "thorough": []},
    "proved_scope": "brkCall: invariants preserved by every call (ok or failed), brk_query, brk_set, heap_rw, heap_keeps_prefix, no overlap",
    "sampled_only_scope": "syscalls.rs brk hook = brkCall (histories of query/grow/shrink/below-base with stores and loads, random neighbours)",
    "assumptions": ["allocation of the requested heap size succeeds"],
}
PROPS["C14"] = {
    "lean_modules": ["AxVerif.Props.C14"],
    "gen": "C14",
    "spec_determined": True,
    "exhaustive": {"quick": [], "thorough": []},
    "proved_scope": "pipe table functions: conservation law read++queued=written for every pipe over every history (fifo_all_histories), "
                    "read_bounded, pipes_independent, non_pipe_unhandled, hooks leave non-pipe descriptors untouched",
    "sampled_only_scope": "syscalls.rs pipe/read/write hooks = model (interleavings over 1-3 pipes, partial reads, foreign descriptors, trailing user hook)",
    "assumptions": ["descriptor numbers are the host RNG's: a parameter of the model, fed back from the implementation run"],
}
PROPS["C17"] = {
    "lean_modules": ["AxVerif.Props.C17"],
    "gen": "C17",
    "spec_determined": True,
    "exhaustive": {"quick": [], "thorough": []},
    "proved_scope": "init_stack_program_start: memory invariants of the result (frame, strings, image disjoint), every string in its own fresh "
                    "NUL-terminated area in order, slot arithmetic, RSP 16-byte aligned (assertion unreachable), stack_top = RSP, space below RSP "
                    "in [len, len+48]",
    "sampled_only_scope": "that the loads of the POP sequence succeed (readable stack memory); string bytes surviving the later frame writes",
    "assumptions": ["length + frame size < 2^64 and allocation succeeds"],
}
PROPS["C18"] = {
    "lean_modules": ["AxVerif.Props.C18"],
    "gen": "C18",
    "spec_determined": True,
    "exhaustive": {"quick": [], "thorough": []},
    "proved_scope": "traceAdd fold = independent tracer (order, run-length compression, saturating depth) for every transfer sequence; counts add up; "
                    "untaken Jcc leaves the trace unchanged; CALL pushes the call stack; indentation bounded",
    "sampled_only_scope": "trace.rs renderers (invoked after every step, incl. unbalanced returns)",
    "assumptions": [],
}

def _implemented_codes():
    import os
    p = os.path.join(os.path.dirname(os.path.dirname(os.path.abspath(__file__))), "inventory", "implemented_codes.txt")
    return set(open(p).read().split())


_IMPL_CODES = None


def c19_stats(case, ci):
    """decode class of the first fetched instruction x outcome of the first step, code length, code placement"""
    global _IMPL_CODES
    if _IMPL_CODES is None:
        _IMPL_CODES = _implemented_codes()
    out = []
    new = case[0].split()
    start = new[2] if len(new) > 2 else "?"
    nbytes = len(new[1]) // 2 if len(new) > 1 and new[1] != "-" else 0
    first = next((c for c in case if c.startswith("dec " + start + " ")), None)
    if first is None:
        cls = "no-dec"
    elif first.endswith(" invalid"):
        cls = "undecodable"
    else:
        kv = dict(t.split("=", 1) for t in first.split()[3:] if "=" in t)
        cls = "implemented" if kv.get("code") in _IMPL_CODES else "unimplemented-or-unsupported"
        if "?" in kv.get("ops", "") or kv.get("base") == "?" or kv.get("index") == "?":
            cls += "+foreign-register"
    step = next((a for c, a in zip(case, ci) if c == "step"), "?")
    out.append(f"{cls}:{step.split(' ')[0]}")
    out.append(f"code-bytes:{min(nbytes, 16)}")
    out.append("placement:" + ("usual" if start == "400000" else "edge"))
    return out


def c19_oracle(case, ci):
    msgs = []
    for c, a in zip(case, ci):
        w = a.split(" ", 1)[0] if a else ""
        if w in ("panic", "abort", "hang"):
            first = next((x for x in case if x.startswith("dec ")), "")
            kv = dict(t.split("=", 1) for t in first.split()[3:] if "=" in t)
            msgs.append(f"crash:{w}:{c.split(' ')[0]}:{kv.get('code', 'undecodable')}")
            break
    return msgs


PROPS["C19"] = {
    "oracle": c19_oracle,
    "stats": c19_stats,
    "lean_modules": ["AxVerif.Props.C19"],
    "gen": "C19",
    "spec_determined": True,
    "shards": {"quick": 16, "thorough": 32},
    "exhaustive": {"quick": [], "thorough": []},
    "proved_scope": "totality of step/exec (termination checker); the step frame (guards, fetch, decode handling, mnemonic check, counter, end test, "
                    "hook chain logic) never crashes; undecodable/unfetchable/unsupported/unimplemented => error for every state; access primitives never crash; "
                    "handler crashes have six enumerated causes, none of them arithmetic or memory (exec_crash over the whole dispatch table)",
    "sampled_only_scope": "that iced's decoded instructions always have the operand shapes under which handler_crash_causes excludes a crash "
                          "(every generated byte string goes through the decoder and both sides); the decoder itself is exercised only",
    "assumptions": ["iced-x86 decodes deterministically and terminates on every byte string (exercised on every case, not modelled)"],
}

def elf_stats(case, ci):
    out = []
    el = next((a for c, a in zip(case, ci) if c.startswith("elfload")), "?")
    out.append("load:" + el.split(" ")[0])
    ar = next((a for c, a in zip(case, ci) if c == "areas"), "")
    areas = [t for t in ar.split(" ") if t.startswith("elf_load")]
    out.append(f"areas:{min(len(areas), 6)}")
    una = sum(1 for t in areas if int(t.split(",")[1], 16) & 0xfff)
    out.append(f"unaligned-areas:{min(una, 3)}")
    out.append("header-path-areas:%d" % min(3, sum(1 for t in areas if t.startswith("elf_load_header"))))
    sc = next((a for c, a in zip(case, ci) if c == "symcount"), "0")
    out.append("symbols:" + ("0-1" if sc in ("0", "1") else "2+"))
    return out


def elf_oracle(case, ci):
    for c, a in zip(case, ci):
        w = a.split(" ", 1)[0] if a else ""
        if w in ("panic", "abort", "hang"):
            return [f"crash:{w}:{c.split(' ')[0]}"]
    return []


def elf_line_equal(cmd, a, b):
    # the model never sees the feedback token; compare what precedes it
    return a.split(" @", 1)[0] == b


PROPS["C15"] = {
    "lean_modules": ["AxVerif.Props.C15"],
    "gen": "C15",
    "stats": elf_stats,
    "oracle": elf_oracle,
    "spec_determined": True,
    "shards": {"quick": 8, "thorough": 16},
    "exhaustive": {"quick": [], "thorough": []},
    "proved_scope": "load_image: for every file and every table of harmless headers and good PT_LOADs on distinct pages the load succeeds and memory is "
                    "exactly the segments' areas (bytes, zero tail, permissions), RIP = entry; symbols_resolve for any symbol table",
    "sampled_only_scope": "the elf crate's parsing; PT_TLS handling; area names",
    "assumptions": ["the elf crate's parse result (entry, program headers, symbol table) is taken as given; the generator's ELF writer is the independent description of the file"],
}
PROPS["C16"] = {
    "lean_modules": ["AxVerif.Props.C16"],
    "gen": "C16",
    "stats": elf_stats,
    "oracle": elf_oracle,
    "rlimit_as": 6 * 1024 ** 3,
    "spec_determined": True,
    "shards": {"quick": 8, "thorough": 16},
    "exhaustive": {"quick": [], "thorough": []},
    "proved_scope": "for any parse result: no crash, memory invariants after every header, at most 2^30 bytes allocated in total, termination",
    "sampled_only_scope": "the elf crate's parser on malformed input (exercised under catch_unwind, watchdog and an address-space limit)",
    "assumptions": ["the elf crate's parser is exercised on every generated file, not modelled"],
}


def c20_stats(case, ci):
    fam = "fuzz" if any(c.startswith("setxmms") for c in case) else ("partial-registers" if any(c.startswith("rw 64 RBX") for c in case) and not any(c.startswith("setregs") for c in case) else "program")
    errs = sum(1 for a in ci if a.startswith("err"))
    return [f"family:{fam}", f"case-with-errors:{1 if errs else 0}"]


PROPS["C20"] = {
    "lean_modules": ["AxVerif.Props.C20"],
    "gen": "C20",
    "two_run": True,
    "stats": c20_stats,
    "spec_determined": True,
    "shards": {"quick": 8, "thorough": 32},
    "exhaustive": {"quick": [], "thorough": []},
    "proved_scope": "constructor randomness confined to GPR/XMM contents; reads/writes/effective addresses over written registers are independent of "
                    "unwritten ones for every register file; writing all registers makes the files equal; the model has no other source of variation",
    "sampled_only_scope": "process-level randomness of the implementation (thread RNG, hash-map seeds, allocator addresses) and error texts: two-run "
                          "differential; instruction handlers reading only the operands they name: correspondence with partially written register files",
    "assumptions": [],
}

NATIVE_SHARDS = {"quick": 8, "thorough": 32}
_SCOPES = {
    "C01": ("read-after-write through every register view; MUL writes the exact double-width product, CF=OF iff the upper half is non-zero; "
            "signed fit test and two's-complement round trip for IMUL; Euclidean/truncated division identities for DIV/IDIV; ALU result values "
            "(C02 specs); the control state and segment bases are untouched by every instruction; the model implements 312 forms",
            "per-form operand plumbing (which operand is read/written at which width, sign/zero extension of immediates) for the 312 forms: "
            "tied three ways (implementation, model, real CPU) on generated cases, not proved per form"),
    "C02": ("for all operands, all incoming flag words, widths 8/16/32/64: CF/PF/AF-untouched/ZF/SF/OF of ADD, ADC, SUB/CMP, SBB-free subset, "
            "INC/DEC (CF preserved), NEG and SHL/SHR equal the SDM definitions; flags outside the instruction's set are preserved; PF covers the "
            "low byte only",
            "logic/MUL/IMUL/rotate-free forms' flags and undefined-flag masks are compared with the real CPU per generated case"),
    "C03": ("for all operands at all four widths and all incoming flags: the 14 relational/sign/overflow conditions after CMP decide exactly the "
            "architectural comparison; JP/JNP read PF; conditions read only the five status flags; RIP after Jcc/JRCXZ/JECXZ/JMP/CALL is the "
            "target when taken and next_ip otherwise",
            "CMOVcc/SETcc reuse of the predicates, indirect-branch operand plumbing and RET are compared per generated case"),
    "C04": ("PARTIAL (known finding C04-slot-shift: the full statement is false of the pinned code, negation proved on a witness): RSP moves by "
            "exactly -/+size mod 2^64; PUSH stores exactly the operand and nothing else; PUSH;POP and CALL;RET round-trip for all states; RET at "
            "the stack top is the finish signal; failed pushes carry no state",
            "the slot address itself (off by +size in the code) is reported as KNOWN-FINDING per stack form; everything else is compared with the real CPU"),
    "C05": ("for every register file, all four scales, every displacement: effective address = base + index*scale + disp mod 2^64 (64-bit) or mod "
            "2^32 zero-extended (0x67 prefix); FS/GS add their base mod 2^64, other segments nothing; the computation reads only base and index; "
            "LEA stores the effective address without segment base truncated to the operand size",
            "decoder-side canonicalisation (RIP-relative, moffs) is iced-x86's and is exercised, not modelled"),
    "C06": ("DIV fails iff divisor = 0 or quotient >= 2^w and otherwise completes; IDIV fails iff divisor = 0 or the signed quotient does not fit; "
            "values read through a w-bit view fit w bits; XORPS with a misaligned memory operand fails; reads/writes fail exactly outside "
            "readable/writable mapped memory (C08/C09) and never crash",
            "absence of spurious failures for the other forms is compared with the real CPU per generated case (Data class only)"),
}
for _pid, _asp, _extra in [
    ("C01", {"regs", "rsp", "rip", "xmm", "mem"}, {}),
    ("C02", {"flags"}, {}),
    ("C03", {"rip", "regs", "rsp", "mem", "flags", "outcome"}, {"stack_shift": True}),
    ("C04", {"regs", "rsp", "rip", "mem", "outcome", "flags"}, {"stack_shift": True}),
    ("C05", {"regs", "mem", "outcome", "rip", "rsp"}, {"stack_shift": True}),
    ("C06", {"outcome"}, {}),
]:
    PROPS[_pid] = {
        "lean_modules": ["AxVerif.Props." + _pid] + (["AxVerif.Props.C01Alu"] if _pid == "C01" else ["AxVerif.Props.C03Cmp"] if _pid == "C03" else []),
        "gen": _pid,
        "spec_determined": True,
        "native": dict({"aspects": _asp}, **_extra),
        "shards": NATIVE_SHARDS,
        "exhaustive": {"quick": [], "thorough": []},
        "proved_scope": _SCOPES[_pid][0],
        "sampled_only_scope": _SCOPES[_pid][1],
        "assumptions": ["real CPU of the sandbox host as architectural oracle (single-step via IRETQ with TF); iced-x86 decoding shared by implementation and model"],
    }
