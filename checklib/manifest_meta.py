"""Texts for MANIFEST.json (level claimed, notes) per claimed property."""
COMMON_NOTE = ("Trusted: Lean 4.33 kernel; axioms propext, Classical.choice, Quot.sound and the per-call bv_decide "
               "axioms; the hand-written model is tied to the Rust only by the differential correspondence of this "
               "check (its generators' reach bounds what a transcription slip can hide behind); ax built for "
               "x86_64-linux with --cfg ax_verif, overflow checks on, debug assertions off; iced-x86, elf, std not modelled. ")

CLAIMS = {
    "C07": {
        "text": "Lean theorems over an executable model of the register API: reads are the architectural slice, "
                "in-range writes the architectural merge (incl. AH-DH aliasing, 32-bit zero-extension, 16/8-bit "
                "preservation), out-of-range values and wrong-width registers are rejected without a crash and "
                "without a state change, and every history of API calls refines the abstract register file "
                "(induction over the history, no bound). The model is tied to src/state/registers.rs by a "
                "differential run (exhaustive write-one-view/read-all-68-views, all 86 registers x 4 widths, random histories).",
        "design_ref": "DESIGN.md section 7, C07",
        "note": COMMON_NOTE,
        "technique": "Lean 4 proof (refinement to abstract register file, bv_decide for mask/slice identities) + model-vs-code differential correspondence",
    },
}

CLAIMS["C08"] = {
    "text": "Lean theorems over the executable model of the area list: a read succeeds iff the whole range lies in the "
            "readable area containing its start and then returns exactly the addressed bytes of the byte map; a write changes "
            "exactly the addressed bytes and nothing else (names, extents, permissions fixed); neither ever panics or wraps "
            "for any address/length (including 2^64-1); little-endian round trips for every width; typed accessors = byte "
            "accessors; read-after-write and consistency over every history of writes (induction). Tied to "
            "src/state/memory.rs by a differential run over boundary (address, length) pairs, areas ending at 2^64 and write histories.",
    "design_ref": "DESIGN.md section 7, C08",
    "note": COMMON_NOTE + "Allocation failure for huge lengths is outside the model.",
    "technique": "Lean 4 proof (byte-map refinement, invariants by induction over histories) + model-vs-code differential correspondence",
}
CLAIMS["C09"] = {
    "text": "Lean theorems: every successful read/write/fetch primitive implies R/W/X on every touched address; a denied "
            "access is an error value with no state; permissions survive writes; non-writable bytes (constructor code, "
            "R+X segments) are invariant over every history of writes without mem_prot; constructor maps code with mask 5; "
            "new data areas are not executable. Correspondence: all 8 masks x read/write/fetch x API accessors with a second area present.",
    "design_ref": "DESIGN.md section 7, C09",
    "note": COMMON_NOTE + "Instruction-level stores (PUSH/CALL/read-modify-write) are tied to the write primitive by the instruction correspondence, not by a theorem in this check.",
    "technique": "Lean 4 proof (permission lemmas over the three access primitives, invariance by induction) + differential correspondence over all masks",
}
CLAIMS["C10"] = {
    "text": "Lean theorems: NoOverlap (no address in two areas) and the representation invariant are preserved by every "
            "area operation, successful or rejected, hence hold in every reachable layout (induction over operation "
            "histories); an overlapping or past-2^64 request is rejected; anywhere-allocation terminates (termination "
            "checker) and returns a fresh area with the supplied bytes; resize succeeds iff the new extent collides with no "
            "other area, keeps the prefix and zero-fills growth. Correspondence: operation sequences positioned relative to existing areas, area list compared after every op.",
    "design_ref": "DESIGN.md section 7, C10",
    "note": COMMON_NOTE + "Allocation failure for huge lengths is outside the model.",
    "technique": "Lean 4 proof (inductive invariant over all operation histories, termination by well-founded recursion) + differential correspondence",
}

NOT_YET = {}
