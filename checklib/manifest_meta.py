"""Texts for MANIFEST.json (level claimed, notes) per claimed property."""
COMMON_NOTE = ("Trusted: Lean 4.33 kernel; axioms propext, Classical.choice, Quot.sound and the per-call bv_decide "
               "axioms; the hand-written model is tied to the Rust only by the differential correspondence of this "
               "check (its generators' reach bounds what a transcription slip can hide behind); ax built for "
               "x86_64-linux with --cfg ax_verif, overflow checks on, debug assertions off; iced-x86, elf, std not modelled. ")

CLAIMS = {
    "C07": {
        "text": "Lean theorems over an executable model of the register API: reads are the architectural slice, "
                "in-range writes the architectural merge (incl. AH-DH aliasing, 32-bit zero-extension, 16/8-bit "
                "preservation), out-of-range values and wrong-width registers are rejected without a crash and "
                "without a state change, and every history of API calls refines the abstract register file "
                "(induction over the history, no bound). The model is tied to src/state/registers.rs by a "
                "differential run (exhaustive write-one-view/read-all-68-views, all 86 registers x 4 widths, random histories).",
        "design_ref": "DESIGN.md section 7, C07",
        "note": COMMON_NOTE,
        "technique": "Lean 4 proof (refinement to abstract register file, bv_decide for mask/slice identities) + model-vs-code differential correspondence",
    },
}

CLAIMS["C08"] = {
    "text": "Lean theorems over the executable model of the area list: a read succeeds iff the whole range lies in the "
            "readable area containing its start and then returns exactly the addressed bytes of the byte map; a write changes "
            "exactly the addressed bytes and nothing else (names, extents, permissions fixed); neither ever panics or wraps "
            "for any address/length (including 2^64-1); little-endian round trips for every width; typed accessors = byte "
            "accessors; read-after-write and consistency over every history of writes (induction). Tied to "
            "src/state/memory.rs by a differential run over boundary (address, length) pairs, areas ending at 2^64 and write histories.",
    "design_ref": "DESIGN.md section 7, C08",
    "note": COMMON_NOTE + "Allocation failure for huge lengths is outside the model. Instruction level (C08Instr): exec_mov_store, exec_mov_load, store_then_load from decoded instructions.",
    "technique": "Lean 4 proof (byte-map refinement, invariants by induction over histories) + model-vs-code differential correspondence",
}
CLAIMS["C09"] = {
    "text": "Lean theorems: every successful read/write/fetch primitive implies R/W/X on every touched address; a denied "
            "access is an error value with no state; permissions survive writes; non-writable bytes (constructor code, "
            "R+X segments) are invariant over every history of writes without mem_prot; constructor maps code with mask 5; "
            "new data areas are not executable; exec_stores_need_W: after any successful instruction (every form) layout, names and permissions are unchanged and every byte that differs lies in memory that was writable - read-only data, R+X code and unmapped addresses are never modified by any instruction. Correspondence: all 8 masks x read/write/fetch x API accessors with a second area present, also after resizes.",
    "design_ref": "DESIGN.md section 7, C09",
    "note": COMMON_NOTE + "exec_stores_need_W covers the instruction handlers of all 312 forms (one MemStep each, proved over the whole dispatch); the built-in syscall hooks' stores are tied by correspondence.",
    "technique": "Lean 4 proof (permission lemmas over the three access primitives, invariance by induction) + differential correspondence over all masks",
}
CLAIMS["C10"] = {
    "text": "Lean theorems: NoOverlap (no address in two areas) and the representation invariant are preserved by every "
            "area operation, successful or rejected, hence hold in every reachable layout (induction over operation "
            "histories); an overlapping or past-2^64 request is rejected; anywhere-allocation terminates (termination "
            "checker) and returns a fresh area with the supplied bytes; resize succeeds iff the new extent collides with no "
            "other area, keeps the prefix and zero-fills growth. Correspondence: operation sequences positioned relative to existing areas, area list compared after every op.",
    "design_ref": "DESIGN.md section 7, C10",
    "note": COMMON_NOTE + "Allocation failure for huge lengths is outside the model.",
    "technique": "Lean 4 proof (inductive invariant over all operation histories, termination by well-founded recursion) + differential correspondence",
}

CLAIMS["C11"] = {
    "text": "Lean theorems about the model of step()/execute(): a step on a finished machine or at the limit fails and returns the machine "
            "unchanged; below the limit it is exactly the unguarded step; every successful step advances the executed count by exactly one, keeps "
            "limit and code end, and returns continue = !finished; finish_iff; execute is iterated step and fuel never changes a finished run; with "
            "limit N the first N steps are never refused for the limit and step N+1 is (induction over runs); step_rip_next: a successful step of an "
            "instruction that is not a jump, call or return (any of the other forms of the dispatch table, no hooks) leaves RIP at next_ip "
            "(exec_rip over the whole table; only RET signals the finish). Tied to execute.rs by random "
            "programs run step-by-step and by execute() on both sides.",
    "design_ref": "DESIGN.md section 7, C11", "note": COMMON_NOTE,
    "technique": "Lean 4 proof (stage-wise frame lemmas, induction over runs) + model-vs-code differential correspondence",
}
CLAIMS["C12"] = {
    "text": "Lean theorems with hooks as arbitrary functions: invoked hooks form a prefix of the registered list, all run unless one reports "
            "handled, stops or fails; after every chain and every step hooks.running is false (re-registration always possible outside hooks) and "
            "true inside hooks; hooks of other mnemonics are never consulted; before-hooks see RIP = next_ip; failing hooks fail the step. "
            "Correspondence with scripted native hooks logging (id, phase, RIP, count, running).",
    "design_ref": "DESIGN.md section 7, C12", "note": COMMON_NOTE + "JS hook path (wasm32) not run.",
    "technique": "Lean 4 proof (induction over hook chains, universally quantified hook functions) + differential correspondence with scripted hooks",
}
CLAIMS["C13"] = {
    "text": "Lean theorems about the brk handler's computation: every call, successful or failed, preserves the memory invariants and the heap "
            "invariant; brk(0) returns start+len; brk(p>=start) sets the break to p and returns p when the extent is free; all heap bytes are "
            "readable and writable; bytes below old and new break survive. Correspondence over brk histories with stores/loads and neighbours.",
    "design_ref": "DESIGN.md section 7, C13", "note": COMMON_NOTE,
    "technique": "Lean 4 proof (invariant over all calls, reuse of C08/C10 lemmas) + differential correspondence",
}
CLAIMS["C14"] = {
    "text": "Lean theorem fifo_all_histories: for every history of pipe/write/read calls with arbitrary descriptor numbers, every pipe satisfies "
            "read-so-far ++ queued = written-so-far (no loss, duplication or reordering); reads return min(count, available) bytes; operations on "
            "one pipe leave other queues unchanged; non-pipe descriptors are left untouched for later hooks. Correspondence over interleavings "
            "with 1-3 pipes and a trailing user hook.",
    "design_ref": "DESIGN.md section 7, C14", "note": COMMON_NOTE + "Descriptor numbers come from the host RNG and are fed back to the model from the implementation run.",
    "technique": "Lean 4 proof (ghost-history conservation invariant by induction over all histories) + differential correspondence",
}
CLAIMS["C17"] = {
    "text": "Lean theorems about init_stack_program_start for every argv/envp/length/layout: result memory well-formed and overlap-free, strings "
            "copied NUL-terminated into fresh areas in order, frame slot arithmetic, RSP 16-byte aligned, stack_top = RSP, requested space below "
            "RSP up to 48 bytes padding; frame_contents / frame_pops: the slots above RSP hold argc, the argv pointers (the addresses of the copies), 0, the envp pointers, 0 in this order and the load each POP performs returns them one after the other. POPs are also executed on model and implementation.",
    "design_ref": "DESIGN.md section 7, C17", "note": COMMON_NOTE + "That the loads of the POPs succeed (the slots are readable stack memory) is observed by the correspondence run. init_never_panics / initStack_never_panics for every total size below 2^63; frame_contents / frame_pops.",
    "technique": "Lean 4 proof (invariants, arithmetic by omega, bv_decide for the alignment mask) + differential correspondence executing POPs",
}
CLAIMS["C18"] = {
    "text": "Lean theorem trace_eq_spec: for every sequence of taken transfers the trace built by add_trace's list logic equals an independent "
            "tracer (entries in order, repeated jumps collapsed into counts, level = saturating call depth); counts add up; untaken branches leave "
            "the trace unchanged; CALL pushes and RET pops the call stack; indentation bounded. Correspondence on branchy/unbalanced programs with the three "
            "renderers invoked after every step.",
    "design_ref": "DESIGN.md section 7, C18", "note": COMMON_NOTE + "Renderers are exercised, not modelled.",
    "technique": "Lean 4 proof (fold = spec by induction with a depth invariant) + differential correspondence",
}

_NATIVE = ("Three-way correspondence on generated single-instruction cases (structured operands, page-placed memory operands, boundary "
           "values): implementation = Lean model on every case, and both = the sandbox host's real CPU (single-stepped) wherever the case is "
           "expressible natively. ")
CLAIMS["C01"] = {
    "text": "Lean theorems over the executable instruction model: register views read back what was written; MUL/IMUL/DIV/IDIV results "
            "against their arithmetic definitions; ALU result values; every instruction leaves control state and segment bases untouched; "
            "the model implements the 312 pinned forms. " + _NATIVE + "Per-form operand plumbing is sampled, not proved.",
    "design_ref": "DESIGN.md section 7, C01",
    "note": COMMON_NOTE + "Known finding C01-idiv64-divisor-sign (IDIV r/m64 treats the divisor as unsigned; the pinned suite encodes it). End to end through the dispatch table: exec_rmR64_regs (every r/m64,r64 row on register operands) and its instances add/sub/cmp/mov_r64_r64, mov_r32_r32, add_r32_r32_value.",
    "technique": "Lean 4 proof (bv_decide/omega over the instruction model) + three-way differential correspondence (code, model, real CPU)",
    "category": "proof",
}
CLAIMS["C02"] = {
    "text": "Lean theorems, for all operands and incoming flag words at widths 8/16/32/64: the flags the model computes for ADD, ADC, SUB/CMP, "
            "INC/DEC, NEG, SHL/SHR equal the SDM's definitions (carry, overflow, sign, zero, parity of the low byte), and flags outside the "
            "instruction's set are preserved. " + _NATIVE,
    "design_ref": "DESIGN.md section 7, C02", "note": COMMON_NOTE + "Architecturally undefined flags are masked per mnemonic when comparing with the CPU.",
    "technique": "Lean 4 proof (bit-blasting with bv_decide at each width) + three-way differential correspondence (code, model, real CPU)",
}
CLAIMS["C03"] = {
    "text": "Lean theorems: after CMP d,s the condition predicates decide exactly the architectural unsigned/signed comparisons, for all operands "
            "at all widths and all incoming flags; conditions read only CF/PF/ZF/SF/OF; RIP after every direct branch form is target-if-taken else "
            "next_ip; JRCXZ/JECXZ test RCX/ECX; CALL goes to its target. " + _NATIVE,
    "design_ref": "DESIGN.md section 7, C03 Two instructions end to end: cmp_then_jl / cmp_then_jb.", "note": COMMON_NOTE,
    "technique": "Lean 4 proof (condition semantics via bv_decide composed with the CMP flag theorem) + three-way differential correspondence",
}
CLAIMS["C04"] = {
    "text": "PARTIAL. The property as stated is false of the pinned code (every stack slot sits operand-size bytes above the architectural "
            "address; recorded as known finding C04-slot-shift because the pinned tests encode it); Lean proves the negation on a witness and, for "
            "all states, the part that holds: RSP delta, exact operand stored, PUSH/POP and CALL/RET round trips, RET-at-top finish. " + _NATIVE +
            "Any deviation from the real CPU other than the listed slot shift is reported as a violation.",
    "design_ref": "DESIGN.md section 7, C04 and section 9 (known findings)", "note": COMMON_NOTE,
    "technique": "Lean 4 proof (partial theorems + machine-checked counterexample to the full claim) + three-way differential correspondence with the known shift factored out",
    "category": "proof",
}
CLAIMS["C05"] = {
    "text": "Lean theorems for every register file, scale and displacement: effective address = base + index*scale + disp modulo 2^64, or modulo "
            "2^32 zero-extended under the address-size prefix; FS/GS bases added modulo 2^64; LEA = effective address without segment base, "
            "truncated to the operand size. " + _NATIVE,
    "design_ref": "DESIGN.md section 7, C05", "note": COMMON_NOTE + "FS-relative cases are not run natively (FS is the host's TLS base).",
    "technique": "Lean 4 proof (omega over toNat arithmetic for all addressing forms) + three-way differential correspondence with steered addresses",
}
CLAIMS["C06"] = {
    "text": "Lean theorems: DIV/IDIV fail exactly on a zero divisor or a quotient that does not fit and complete otherwise; misaligned XORPS "
            "memory operands fail; memory operands fail exactly outside readable/writable mapped bytes (C08/C09 theorems); no failure is a crash. "
            + _NATIVE + "Outcome (completes vs faults) is compared with the real CPU's signal.",
    "design_ref": "DESIGN.md section 7, C06",
    "note": COMMON_NOTE + "Known finding C06-idiv64-divisor-sign shares its cause with C01's.",
    "technique": "Lean 4 proof (fault-iff theorems) + three-way differential correspondence comparing outcomes with CPU faults",
}

CLAIMS["C19"] = {
    "text": "Lean: step/exec and all helpers are total functions (termination checker, no fuel); the step frame has no crash site of its own - "
            "a crash outcome can only come from an instruction handler or a user hook (step_panic_only_from_exec_or_hook, given well-formed "
            "memory; hook chains crash only if a hook function does); undecodable bytes, an empty or unfetchable window, unsupported mnemonics "
            "and unimplemented or unknown forms are error values for every state; register, memory and fetch primitives never crash for any "
            "address, length or value (C07/C08/C09); handler_crash_causes: over the whole dispatch table, a handler's crash outcome has one of six "
            "enumerated causes - ill-formed memory (excluded by the memory invariants), a decoded instruction whose operands do not have the "
            "shape the form expects (missing operand or unknown register, non-register where a register is required, base/index of the wrong "
            "class, PUSH/POP r without a register) or a constant flag mask asking for an unimplemented flag - so no arithmetic, shift, index, "
            "register or memory primitive is a crash site. What iced actually hands over is tied to "
            "the code by a byte-string fuzzer: uniform, prefix/opcode-structured and mutated-valid strings of 1..15 bytes, code placed at the "
            "usual address and at the edges of the address space, arbitrary registers/flags/segment bases, 0-4 data pages with arbitrary "
            "permissions; implementation under catch_unwind and a process watchdog; outcome and full state compared with the model after the "
            "step and after a second step from wherever the first one went.",
    "design_ref": "DESIGN.md section 7, C19",
    "note": COMMON_NOTE + "iced-x86's decoder is third-party code that is exercised (every byte string goes through it) but not modelled; "
            "the operand shapes iced delivers per Code (the hypotheses under which handler_crash_causes excludes a crash) are exercised by the fuzzer, not proved.",
    "technique": "Lean 4 proof (totality, crash-freedom of frame and primitives, error theorems) + fuzzed model-vs-code correspondence with crash oracle",
}

CLAIMS["C20"] = {
    "text": "The model is a function of (machine, hooks, decoder answers) by construction - no clock, address, RNG or iteration order exists in it - and "
            "the correspondence shows the implementation computes it. Lean proves the non-trivial half: the constructor's random register values "
            "reach nothing defined by the explicit inputs: new_indep (only GPR/XMM contents depend on them), AgreeOff non-interference (reads "
            "through any view of a written register agree; writes have equal outcomes and keep the agreement; 32/64-bit writes define their "
            "register; effective addresses over written registers agree), full_write_erases (after writing all registers the files are equal). "
            "Implementation side: every generated case (fuzzed single instructions with full state, program runs with limits/hooks/syscalls/"
            "traces, and programs that only ever write the registers they use) is executed twice - in two processes, the second with a throw-away "
            "machine in front of every case to shift RNG, hash seeds and allocator state - and every output line, including a hash of each "
            "error text, renderer output, traces and counts, must be identical; both must equal the model.",
    "design_ref": "DESIGN.md section 7, C20",
    "note": COMMON_NOTE + "Pipe descriptor numbers (the stated exception) are excluded by not generating pipe syscalls here; C14 covers them with the numbers fed back. "
            "Handler-level non-interference (an instruction reads only the registers it names) is proved for the operand layer and sampled for handler bodies.",
    "technique": "Lean 4 proof (non-interference of unwritten registers over the register API and operand layer) + two-run implementation differential + model correspondence",
}

CLAIMS["C15"] = {
    "text": "Lean theorem load_image over the model of from_binary (from the elf crate's parse result outward): for every file and every table of "
            "harmless headers and loadable segments on pairwise distinct pages - any count, order, alignment, file/memory sizes (equal, bss tail, "
            "exact page multiples), flags - loading succeeds and the memory is exactly the list of the segments' areas: file bytes at p_vaddr, "
            "zeros up to p_memsz (and on to the page end), permissions = p_flags, RIP = e_entry; symbols_resolve: every address carrying a recorded "
            "symbol resolves to the name of one recorded there, for any symbol table (aliases, empty names, undefined entries). Tied to "
            "src/elf/elf.rs by generated ELF files written from a structured description; the generator's own knowledge of the file (bytes, zero "
            "tail, flags, entry, names) is attached to the observation commands as expectations, so the implementation is judged against the "
            "property directly as well as against the model.",
    "design_ref": "DESIGN.md section 7, C15",
    "note": COMMON_NOTE + "The elf crate's parser is taken as given (its answers are serialised per file); PT_TLS is covered by the correspondence only; "
            "headers with p_vaddr = 0 are skipped by the loader and are outside the theorem's notion of well-formed.",
    "technique": "Lean 4 proof (exact computation of the loader's memory by induction over the program-header table; list lemmas for the symbol map) + generated-ELF correspondence with property-level expectations",
}
CLAIMS["C16"] = {
    "text": "Lean theorems for any file and any answer of the parser (arbitrary 64-bit header fields, any segment types, any symbol list): "
            "fromBinary never crashes (fromBinary_never_panics), memory stays well-formed and overlap-free after every header "
            "(loadSegments_preserves), a successful load has allocated at most 2^30 bytes of areas in total whatever p_memsz says (image_bound), "
            "a failed load delivers no machine, and the loops are structural recursions (termination). Tied to the code by mutated ELF files "
            "(single- and multi-field mutations of file/program/section header and symbol fields with boundary values, truncations, bit flips, "
            "unsupported and duplicated segment types, class/endianness flips, arbitrary bytes) loaded in a worker with a 6 GiB address-space limit, "
            "catch_unwind and a watchdog; outcome and resulting machine compared with the model.",
    "design_ref": "DESIGN.md section 7, C16",
    "note": COMMON_NOTE + "The elf crate's own parsing code is exercised on every file (it did not crash on any) but is not modelled; areas above 16 MiB are "
            "not materialised by the model driver (the implementation's outcome is still checked by the crash oracle).",
    "technique": "Lean 4 proof (crash-freedom, invariant and allocation bound by induction over the header table) + mutation-fuzzed correspondence under an address-space limit",
}

NOT_YET = {}
