"""Texts for MANIFEST.json (level claimed, notes) per claimed property."""
COMMON_NOTE = ("Trusted: Lean 4.33 kernel; axioms propext, Classical.choice, Quot.sound and the per-call bv_decide "
               "axioms; the hand-written model is tied to the Rust only by the differential correspondence of this "
               "check (its generators' reach bounds what a transcription slip can hide behind); ax built for "
               "x86_64-linux with --cfg ax_verif, overflow checks on, debug assertions off; iced-x86, elf, std not modelled. ")

CLAIMS = {
    "C07": {
        "text": "Lean theorems over an executable model of the register API: reads are the architectural slice, "
                "in-range writes the architectural merge (incl. AH-DH aliasing, 32-bit zero-extension, 16/8-bit "
                "preservation), out-of-range values and wrong-width registers are rejected without a crash and "
                "without a state change, and every history of API calls refines the abstract register file "
                "(induction over the history, no bound). The model is tied to src/state/registers.rs by a "
                "differential run (exhaustive write-one-view/read-all-68-views, all 86 registers x 4 widths, random histories).",
        "design_ref": "DESIGN.md section 7, C07",
        "note": COMMON_NOTE,
        "technique": "Lean 4 proof (refinement to abstract register file, bv_decide for mask/slice identities) + model-vs-code differential correspondence",
    },
}

NOT_YET = {}
