"""Judging single-instruction cases against the real CPU (native oracle nx) for C01-C06.

The implementation's observations are compared with the CPU's on architecturally defined state only.
Each mismatch gets an aspect string  cpu:<Code>:<aspect>  that known_findings.json can match.
"""
import re

STATUS = 0x8c5          # CF PF ZF SF OF
AF = 0x10
DF = 0x400
ARITH = {"Add", "Adc", "Sub", "Cmp", "Neg", "And", "Xor", "Test", "Inc", "Dec"}


def parse_dec(line):
    kv = dict(t.split("=", 1) for t in line.split()[3:] if "=" in t)
    return kv


def lcg(seed, n):
    x, out = seed, bytearray()
    for _ in range(n):
        x = (x * 6364136223846793005 + 1442695040888963407) & 0xFFFFFFFFFFFFFFFF
        out.append(x >> 56)
    return bytes(out)


def op_width(kv):
    code = kv["code"]
    m = re.search(r"_rm(\d+)|_r(\d+)_|_r(\d+)$", code)
    for g in (m.groups() if m else []):
        if g:
            return int(g)
    return 64


def flag_mask(kv, regs_before):
    """bits of rflags on which CPU and emulator must agree after this instruction"""
    mn = kv["mn"]
    full = STATUS | DF | AF
    if mn in ARITH:
        return STATUS | DF
    if mn in ("Mul", "Imul"):
        return 0x801 | DF
    if mn in ("Div", "Idiv"):
        return DF
    if mn in ("Shl", "Shr"):
        w = op_width(kv)
        ops = kv["ops"].split(",")
        if kv["code"].endswith("_1"):
            raw = 1
        elif kv["code"].endswith("_CL"):
            raw = regs_before[1] & 0xff
        else:
            raw = int(ops[1].split(":")[2], 16) & 0xff
        c = raw & (0x3f if w == 64 else 0x1f)
        if c == 0:
            return full
        m = 0xc4 | DF                      # ZF SF PF
        if c < w:
            m |= 1                         # CF
        if c == 1:
            m |= 0x800                     # OF
        return m
    if mn == "Cpuid":
        return full
    return full


class CaseView:
    """one single-instruction case: commands and the three output streams"""

    def __init__(self, cmds, impl, model, cpu):
        self.cmds, self.impl, self.model, self.cpu = cmds, impl, model, cpu
        self.idx = {}
        for i, c in enumerate(cmds):
            self.idx.setdefault(c.split(" ", 1)[0], []).append(i)
        d = self.idx.get("dec")
        self.kv = parse_dec(cmds[d[0]]) if d and "invalid" not in cmds[d[0]] else None

    def first(self, verb):
        l = self.idx.get(verb)
        return l[0] if l else None

    def regs_before(self):
        i = self.first("setregs")
        return [int(x, 16) for x in self.cmds[i].split()[1].split(",")]


import os
IMPLEMENTED = set(open(os.path.join(os.path.dirname(os.path.dirname(os.path.abspath(__file__))), "inventory",
                                    "implemented_codes.txt")).read().split())


def judge(cv, aspects):
    """returns list of (aspect, detail) where impl disagrees with the CPU on defined state; None if not comparable"""
    try:
        return _judge(cv, aspects)
    except (ValueError, IndexError, TypeError, KeyError):
        # a malformed line from the CPU oracle (it died inside this case): not comparable
        return None


def _judge(cv, aspects):
    if cv.kv is None:
        return None
    if cv.kv["code"] not in IMPLEMENTED:
        # the properties speak about the instruction forms the emulator implements (pinned list: 315 forms)
        return None
    if any(o == "skip" for o in cv.cpu) or len(cv.cpu) < len(cv.cmds):
        return None
    code = cv.kv["code"]
    si = cv.first("step")
    if si is None:
        return None
    istep, cstep = cv.impl[si], cv.cpu[si]
    if not (cstep == "ok" or cstep.startswith("sig")):
        return None
    out = []
    iok = istep.startswith("ok")
    cok = cstep == "ok"
    ipanic = istep in ("panic", "abort", "hang")
    if ipanic:
        if "outcome" in aspects:
            out.append((f"cpu:{code}:outcome", f"emulator {istep}, cpu {cstep}"))
        return out
    if iok and not cok and cv.kv["mn"] in ("Jmp", "Call", "Ret") and cstep.endswith(" 0"):
        # the CPU refuses a branch to a non-canonical address at the branch itself (#GP), the emulator at the next
        # fetch: both refuse to execute there; the property speaks about targets that can be executed
        ri = cv.first("regs")
        rip = int(cv.impl[ri].split()[16], 16)
        top = rip >> 47
        if top != 0 and top != 0x1ffff:
            return None
    if iok != cok:
        if "outcome" in aspects:
            out.append((f"cpu:{code}:outcome", f"emulator {istep}, cpu {cstep}"))
        return out
    if not cok:
        return out      # both refuse: state afterwards is not specified
    rb = cv.regs_before()
    # registers
    ri = cv.first("regs")
    ir = [int(x, 16) for x in cv.impl[ri].split()]
    cr = [int(x, 16) for x in cv.cpu[ri].split()]
    if cv.kv["mn"] == "Cpuid":
        ir[0:4] = cr[0:4] = [0, 0, 0, 0]
    names = ["rax", "rcx", "rdx", "rbx", "rsp", "rbp", "rsi", "rdi", "r8", "r9", "r10", "r11", "r12", "r13", "r14", "r15", "rip"]
    for k in range(17):
        if ir[k] != cr[k]:
            asp = "rip" if k == 16 else ("rsp" if k == 4 else "regs")
            if asp in aspects:
                out.append((f"cpu:{code}:{asp}", f"{names[k]}: emulator {ir[k]:x}, cpu {cr[k]:x}"))
    # flags
    st = cv.first("state")
    mi = re.search(r"flags=([0-9a-f]+)", cv.impl[st])
    mc = re.search(r"flags=([0-9a-f]+)", cv.cpu[st])
    if mi and mc and "flags" in aspects:
        mask = flag_mask(cv.kv, rb)
        fi, fc = int(mi.group(1), 16) & mask, int(mc.group(1), 16) & mask
        if fi != fc:
            bits = {1: "CF", 4: "PF", 0x10: "AF", 0x40: "ZF", 0x80: "SF", 0x400: "DF", 0x800: "OF"}
            diff = "|".join(n for b, n in bits.items() if (fi ^ fc) & b)
            out.append((f"cpu:{code}:flags:{diff}", f"emulator {fi:x}, cpu {fc:x} (mask {mask:x})"))
    # xmm
    xi = cv.first("xmms")
    if xi is not None and cv.impl[xi] != cv.cpu[xi] and "xmm" in aspects:
        out.append((f"cpu:{code}:xmm", f"emulator {cv.impl[xi][:80]} cpu {cv.cpu[xi][:80]}"))
    # memory windows
    for mi_ in cv.idx.get("mrb", []):
        a, b = cv.impl[mi_], cv.cpu[mi_]
        if a != b and "mem" in aspects:
            out.append((f"cpu:{code}:mem", f"{cv.cmds[mi_]}: emulator {a[:100]} cpu {b[:100]}"))
    return out


def stack_shift_explains(cv):
    """C04 known finding: the emulator's PUSH/POP/CALL/RET use [RSP] where the CPU uses [RSP - size] (store) and
    [RSP + size] where the CPU uses [RSP] (load).  True iff every stack-memory / popped-value difference of this
    case is exactly that one-slot shift (RSP itself must agree)."""
    kv = cv.kv
    si = cv.first("step")
    mn = kv["mn"]
    if mn not in ("Push", "Pop", "Call", "Ret"):
        return False
    size = 2 if ("16" in kv["code"] or kv["code"].startswith("Pushw") or kv["code"].startswith("Popw")) else 8
    az = [c for c in cv.cmds if c.startswith("areaz") and c.endswith("Stack")]
    if not az:
        return False
    _, start, ln, seed, _ = az[0].split()
    start, ln, seed = int(start, 16), int(ln, 16), int(seed, 16)
    rsp0 = cv.regs_before()[4]

    def in_page(a, n):
        return start <= a and a + n <= start + ln

    iok_, cok_ = cv.impl[si].startswith("ok"), cv.cpu[si] == "ok"
    if not (iok_ and cok_):
        # an outcome difference is the known shift iff each side succeeds exactly when the slot *it* uses is mapped
        if mn in ("Push", "Call"):
            exp_c, exp_i = in_page((rsp0 - size) % (1 << 64), size), in_page(rsp0, size)
        else:
            exp_c, exp_i = in_page(rsp0, size), in_page((rsp0 + size) % (1 << 64), size)
        if mn == "Ret" and exp_c and size == 8:
            # ... and, for the CPU, the return address in *its* slot is canonical (else #GP at the RET itself; the emulator
            # returned through the other slot)
            off = rsp0 - start
            vc0 = int.from_bytes(lcg(seed, ln)[off:off + 8], "little")
            if (vc0 >> 47) not in (0, 0x1ffff):
                exp_c = False
        return cok_ == exp_c and iok_ == exp_i
    ri = cv.first("regs")
    ir = [int(x, 16) for x in cv.impl[ri].split()]
    cr = [int(x, 16) for x in cv.cpu[ri].split()]
    rb = cv.regs_before()
    page = lcg(seed, ln)

    def init(addr, n):
        off = addr - start
        return int.from_bytes(page[off:off + n], "little") if 0 <= off and off + n <= ln else None

    rsp = rb[4]
    if mn in ("Push", "Call") and ir[4] != cr[4]:
        return False
    if mn in ("Push", "Call"):
        # CPU stores at rsp - size, emulator at rsp: compare the windows shifted
        wi = [i for i in cv.idx.get("mrb", [])][0]
        wa = int(cv.cmds[wi].split()[1], 16)
        ib = bytes.fromhex(cv.impl[wi].split()[1]) if cv.impl[wi].startswith("ok ") else b""
        cb = bytes.fromhex(cv.cpu[wi].split()[1]) if cv.cpu[wi].startswith("ok ") else b""
        if len(ib) != len(cb):
            return False
        # value stored by the CPU
        co = rsp - size - wa
        io = rsp - wa
        if co < 0 or io + size > len(ib):
            return True   # window does not show both slots: cannot refute
        stored_c = cb[co:co + size]
        stored_i = ib[io:io + size]
        if stored_c != stored_i:
            return False
        # every other byte unchanged on both sides
        for k in range(len(ib)):
            exp = page[wa - start + k]
            if not (io <= k < io + size) and ib[k] != exp:
                return False
            if not (co <= k < co + size) and cb[k] != exp:
                return False
        # all registers except rsp equal? (rip for call)
        return all(ir[k] == cr[k] for k in range(17))
    if mn in ("Pop", "Ret"):
        # CPU loads from rsp, emulator from rsp + size
        vc, vi = init(rsp, size), init(rsp + size, size)
        if vc is None or vi is None:
            return True
        diffs = [k for k in range(17) if ir[k] != cr[k]]
        # `pop sp` / `pop rsp`: the popped value ends up in RSP itself
        if "r:SP" in kv["ops"] or "r:RSP" in kv["ops"]:
            if ir[4] == cr[4]:
                return vc == vi
        elif ir[4] != cr[4]:
            return False
        for k in diffs:
            mask = (1 << (8 * size)) - 1
            if (cr[k] & mask) != vc or (ir[k] & mask) != vi:
                return False
        return True
    return False
