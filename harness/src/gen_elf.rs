//! C15: well-formed static ELF64 executables written from a structured description, with the expectations the
//!      property states (image bytes, zero fill, permissions, entry, symbols) attached to the observation commands.
//! C16: mutations of such files (header / program header / section header / symbol fields, truncations, byte flips,
//!      unsupported segment types) and arbitrary byte strings.
use crate::util::*;

const PT_LOAD: u32 = 1;

#[derive(Clone, Debug)]
pub struct Seg {
    pub ptype: u32,
    pub flags: u32,
    pub vaddr: u64,
    pub filesz: u64,
    pub memsz: u64,
    pub align: u64,
    pub content: Vec<u8>,
    /// file offset; assigned by `write_elf` unless `fixed_offset`
    pub offset: u64,
    pub fixed_offset: bool,
}

#[derive(Clone, Debug)]
pub struct Sym {
    pub value: u64,
    pub name: String,
    pub shndx: u16,
    pub info: u8,
}

#[derive(Clone, Debug)]
pub struct Spec {
    pub entry: u64,
    pub segs: Vec<Seg>,
    /// None: no section headers at all
    pub syms: Option<Vec<Sym>>,
    /// keep p_offset congruent to p_vaddr modulo the page size (as linkers do)
    pub congruent: bool,
    /// the fields a loader has no business with: p_paddr (unspecified for user-space files), p_align, e_type (EXEC or DYN),
    /// EI_OSABI (System V or Linux). 0 = the usual values
    pub incidental: u8,
}

/// offsets of fields, for the mutator
pub struct Layout {
    pub phoff: usize,
    pub phnum: usize,
    pub shoff: usize,
    pub shnum: usize,
    pub symtab_off: usize,
    pub symcount: usize,
    pub strtab_off: usize,
    pub strtab_len: usize,
}

fn put16(b: &mut Vec<u8>, v: u16) {
    b.extend_from_slice(&v.to_le_bytes());
}
fn put32(b: &mut Vec<u8>, v: u32) {
    b.extend_from_slice(&v.to_le_bytes());
}
fn put64(b: &mut Vec<u8>, v: u64) {
    b.extend_from_slice(&v.to_le_bytes());
}

pub fn write_elf(spec: &mut Spec) -> (Vec<u8>, Layout) {
    let phnum = spec.segs.len();
    let phoff = 64usize;
    let mut body_off = phoff + 56 * phnum;
    // place segment contents
    let mut blobs: Vec<(usize, Vec<u8>)> = vec![];
    for s in spec.segs.iter_mut() {
        if s.fixed_offset {
            continue;
        }
        if s.filesz == 0 && s.content.is_empty() {
            s.offset = body_off as u64;
            continue;
        }
        if spec.congruent {
            let want = (s.vaddr & 0xfff) as usize;
            let cur = body_off & 0xfff;
            body_off += (want + 0x1000 - cur) & 0xfff;
        }
        s.offset = body_off as u64;
        blobs.push((body_off, s.content.clone()));
        body_off += s.content.len();
    }
    // string tables and symbols
    let mut strtab: Vec<u8> = vec![0];
    let mut symtab: Vec<u8> = vec![];
    let mut symcount = 0;
    let shstr: &[u8] = b"\0.symtab\0.strtab\0.shstrtab\0";
    let (mut symtab_off, mut strtab_off, mut shstr_off, mut shoff) = (0usize, 0usize, 0usize, 0usize);
    let mut shnum = 0usize;
    if let Some(syms) = &spec.syms {
        // index 0: the null symbol
        symtab.extend_from_slice(&[0u8; 24]);
        symcount = 1;
        for y in syms {
            let name_off = if y.name.is_empty() {
                0
            } else {
                let o = strtab.len();
                strtab.extend_from_slice(y.name.as_bytes());
                strtab.push(0);
                o
            };
            put32(&mut symtab, name_off as u32);
            symtab.push(y.info);
            symtab.push(0);
            put16(&mut symtab, y.shndx);
            put64(&mut symtab, y.value);
            put64(&mut symtab, 0);
            symcount += 1;
        }
        body_off = (body_off + 7) & !7;
        symtab_off = body_off;
        body_off += symtab.len();
        strtab_off = body_off;
        body_off += strtab.len();
        shstr_off = body_off;
        body_off += shstr.len();
        body_off = (body_off + 7) & !7;
        shoff = body_off;
        shnum = 4;
    }
    let mut f: Vec<u8> = vec![];
    // e_ident
    let inc = spec.incidental;
    f.extend_from_slice(&[0x7f, b'E', b'L', b'F', 2, 1, 1, if inc & 8 != 0 { 3 } else { 0 }, 0, 0, 0, 0, 0, 0, 0, 0]);
    put16(&mut f, if inc & 4 != 0 { 3 } else { 2 }); // ET_DYN / ET_EXEC
    put16(&mut f, 62); // EM_X86_64
    put32(&mut f, 1);
    put64(&mut f, spec.entry);
    put64(&mut f, phoff as u64);
    put64(&mut f, shoff as u64);
    put32(&mut f, 0);
    put16(&mut f, 64);
    put16(&mut f, 56);
    put16(&mut f, phnum as u16);
    put16(&mut f, 64);
    put16(&mut f, shnum as u16);
    put16(&mut f, if shnum > 0 { 3 } else { 0 });
    for s in &spec.segs {
        put32(&mut f, s.ptype);
        put32(&mut f, s.flags);
        put64(&mut f, s.offset);
        put64(&mut f, s.vaddr);
        put64(&mut f, match inc & 3 {
            1 => 0,
            2 => s.vaddr ^ 0x4010_0000,
            3 => spec.segs.iter().rev().find(|o| o.ptype == PT_LOAD && o.vaddr != s.vaddr).map(|o| o.vaddr).unwrap_or(0x1000),
            _ => s.vaddr,
        });
        put64(&mut f, s.filesz);
        put64(&mut f, s.memsz);
        put64(&mut f, if inc & 16 != 0 { *[0u64, 1, 0x20_0000, 0x10].get((s.vaddr >> 12) as usize % 4).unwrap() } else { s.align });
    }
    for (off, b) in &blobs {
        if f.len() < *off {
            f.resize(*off, 0);
        }
        f.extend_from_slice(b);
    }
    if spec.syms.is_some() {
        f.resize(symtab_off, 0);
        f.extend_from_slice(&symtab);
        f.extend_from_slice(&strtab);
        f.extend_from_slice(shstr);
        f.resize(shoff, 0);
        // null section
        f.extend_from_slice(&[0u8; 64]);
        let mut sh = |name: u32, ty: u32, off: usize, size: usize, link: u32, info: u32, entsize: u64, f: &mut Vec<u8>| {
            put32(f, name);
            put32(f, ty);
            put64(f, 0);
            put64(f, 0);
            put64(f, off as u64);
            put64(f, size as u64);
            put32(f, link);
            put32(f, info);
            put64(f, 8);
            put64(f, entsize);
        };
        sh(1, 2, symtab_off, symtab.len(), 2, 1, 24, &mut f); // .symtab → link .strtab (index 2)
        sh(9, 3, strtab_off, strtab.len(), 0, 0, 0, &mut f); // .strtab
        sh(17, 3, shstr_off, shstr.len(), 0, 0, 0, &mut f); // .shstrtab
    }
    (
        f,
        Layout { phoff, phnum, shoff, shnum, symtab_off, symcount, strtab_off, strtab_len: strtab.len() },
    )
}

fn flags_to_prot(flags: u32) -> u32 {
    (if flags & 4 != 0 { 1 } else { 0 }) | (if flags & 2 != 0 { 2 } else { 0 }) | (if flags & 1 != 0 { 4 } else { 0 })
}

fn round_up(x: u64) -> u64 {
    (x + 0xfff) & !0xfff
}

/// a well-formed executable: PT_LOAD segments on distinct pages, in any order, plus harmless other headers
pub fn well_formed(rng: &mut Rng) -> Spec {
    let nload = 1 + rng.below(5) as usize;
    let mut segs: Vec<Seg> = vec![];
    let mut page = match rng.below(6) {
        0 => 0x10000u64,
        1 => 0x7fff_0000_0000,
        2 => 0xffff_f000,
        _ => 0x40_0000,
    };
    for _ in 0..nload {
        let off = match rng.below(4) {
            0 => rng.below(0x1000),
            1 => *rng.pick(&[0x800u64, 0xff8, 0xfff, 0x10, 0xe10]),
            _ => 0,
        };
        let vaddr = page + off;
        // sizes relative to the page size
        let (filesz, memsz): (u64, u64) = match rng.below(10) {
            0 => {
                let n = 1 + rng.below(0x1800);
                (n, n)
            }
            1 => {
                let f = rng.below(0x900);
                (f, f + 1 + rng.below(0x2000))
            }
            2 => {
                // exact page multiple, aligned: the loader's "header" path
                let n = 0x1000 * (1 + rng.below(3));
                (n, n)
            }
            3 => {
                let f = 0x1000 * (1 + rng.below(2));
                (f, f + 1 + rng.below(0x1800))
            }
            4 => (0, 1 + rng.below(0x2800)),
            5 => {
                // ends exactly on a page boundary
                let m = 0x1000 * (1 + rng.below(3)) - off;
                (rng.below(m + 1), m)
            }
            6 => {
                // file size equal to the distance to the page end, memory size equal
                let m = 0x1000 - off;
                (m, m)
            }
            7 => {
                let m = 0x1000 * (1 + rng.below(2)) + 1;
                (rng.below(m + 1), m)
            }
            _ => {
                let f = rng.below(0x300);
                (f, f + rng.below(0x300))
            }
        };
        let memsz = memsz.max(1);
        let filesz = filesz.min(memsz);
        let content: Vec<u8> = (0..filesz).map(|_| (rng.next() | 1) as u8).collect();
        let flags = *rng.pick(&[4u32, 5, 6, 7, 4, 5, 6, 1, 2, 3, 0]);
        segs.push(Seg { ptype: PT_LOAD, flags, vaddr, filesz, memsz, align: 0x1000, content, offset: 0, fixed_offset: false });
        // next segment: the very next page after this segment's last page, or a gap
        page = round_up(vaddr + memsz) + 0x1000 * match rng.below(3) {
            0 => 0,
            1 => 1,
            _ => rng.below(64),
        };
    }
    // harmless other headers
    let first = segs[0].clone();
    let mut extra: Vec<Seg> = vec![];
    let zero = |ptype: u32, flags: u32| Seg { ptype, flags, vaddr: 0, filesz: 0, memsz: 0, align: 0x10, content: vec![], offset: 0, fixed_offset: true };
    if rng.chance(1, 2) {
        extra.push(zero(0x6474_e551, 6)); // GNU_STACK RW
    }
    if rng.chance(1, 3) {
        extra.push(zero(0, 0)); // PT_NULL
    }
    if rng.chance(1, 3) {
        // NOTE / GNU_PROPERTY / GNU_EH_FRAME / PHDR / RELRO pointing into the first segment's file bytes
        let t = *rng.pick(&[4u32, 0x6474_e553, 0x6474_e550, 6, 0x6474_e552]);
        extra.push(Seg { ptype: t, flags: 4, vaddr: first.vaddr, filesz: first.filesz.min(0x20), memsz: first.filesz.min(0x20), align: 8, content: vec![], offset: 0, fixed_offset: true });
    }
    if rng.chance(1, 4) {
        // TLS template at the start of a loaded segment (must come after that segment in the table)
        extra.push(Seg { ptype: 7, flags: 4, vaddr: first.vaddr, filesz: first.filesz.min(0x10), memsz: first.memsz.min(0x40), align: 8, content: vec![], offset: 0, fixed_offset: true });
    }
    // order: loads shuffled; extras inserted anywhere after the first load (TLS/RELRO/NOTE refer to it)
    let mut loads = segs;
    for i in (1..loads.len()).rev() {
        let j = rng.below(i as u64 + 1) as usize;
        loads.swap(i, j);
    }
    // keep `first` before the extras that refer to it: put it at the front
    if let Some(pos) = loads.iter().position(|s| s.vaddr == first.vaddr) {
        loads.swap(0, pos);
    }
    let mut all = loads;
    for e in extra {
        let at = 1 + rng.below(all.len() as u64) as usize;
        all.insert(at, e);
    }
    // symbols
    let syms = match rng.below(5) {
        0 => None,
        1 => Some(vec![]),
        _ => {
            let mut v = vec![];
            let n = if rng.chance(1, 4) { 1 } else { 1 + rng.below(12) };
            let loads: Vec<&Seg> = all.iter().filter(|s| s.ptype == PT_LOAD).collect();
            let mut addrs: Vec<u64> = vec![];
            for k in 0..n {
                let s = rng.pick(&loads);
                let value = if !addrs.is_empty() && rng.chance(1, 4) { *rng.pick(&addrs) } else { s.vaddr + rng.below(s.memsz) };
                addrs.push(value);
                let name = match rng.below(8) {
                    0 => String::new(),
                    6 => {
                        // long and not ASCII: mangled C++/Rust names run to hundreds of bytes, identifiers may be any UTF-8
                        let chars = ['a', 'Z', '_', '$', '.', 'é', 'ß', '日', '𝄞', '0'];
                        let len = *rng.pick(&[60u64, 120, 126, 127, 128, 129, 130, 200, 255, 256, 257, 300, 1000]) + rng.below(4);
                        let mut st = String::new();
                        while (st.len() as u64) < len {
                            st.push(*rng.pick(&chars));
                        }
                        st
                    }
                    7 => format!("{}{}", "n".repeat(*rng.pick(&[125usize, 126, 127, 253, 254, 255])), rng.pick(&["é", "日本", "𝄞x", "ab"])),
                    1 => format!("s{}", k),
                    2 => format!("_Z{}fooEv_{}", k, "x".repeat(rng.below(40) as usize)),
                    _ => format!("sym_{:x}_{}", value & 0xfff, k),
                };
                let shndx: u16 = if rng.chance(1, 6) { 0 } else { *rng.pick(&[1u16, 2, 0xfff1]) };
                v.push(Sym { value, name, shndx, info: *rng.pick(&[0x12u8, 0x11, 0x10, 0x03, 0x00, 0x16, 0x06, 0x14, 0x1a, 0x0f]) });
            }
            Some(v)
        }
    };
    let entry = {
        let loads: Vec<&Seg> = all.iter().filter(|s| s.ptype == PT_LOAD).collect();
        let s = rng.pick(&loads);
        match rng.below(6) {
            0 => rng.val(),
            // the entry point usually is a symbol (`_start`, `main`): sometimes the only one, sometimes one of several there
            1 | 2 if syms.as_ref().map_or(false, |v| !v.is_empty()) => {
                let v = syms.as_ref().unwrap();
                let defined: Vec<u64> = v.iter().filter(|y| y.shndx != 0).map(|y| y.value).collect();
                if defined.is_empty() { s.vaddr + rng.below(s.memsz) } else { *rng.pick(&defined) }
            }
            _ => s.vaddr + rng.below(s.memsz),
        }
    };
    Spec { entry, segs: all, syms, congruent: rng.chance(1, 2), incidental: if rng.chance(1, 2) { rng.below(32) as u8 } else { 0 } }
}

/// fix up the `fixed_offset` headers that point into the first load's file bytes (after offsets are known)
fn resolve_extras(spec: &mut Spec) {
    let first = spec.segs.iter().find(|s| s.ptype == PT_LOAD).cloned();
    if let Some(f) = first {
        for s in spec.segs.iter_mut() {
            if s.fixed_offset && s.vaddr == f.vaddr && s.ptype != PT_LOAD {
                s.offset = f.offset;
            }
        }
    }
}

pub fn build(spec: &mut Spec) -> (Vec<u8>, Layout) {
    // two passes: the first assigns offsets, the second writes the resolved extras
    let _ = write_elf(spec);
    resolve_extras(spec);
    write_elf(spec)
}

fn observe(spec: &Spec, rng: &mut Rng, out: &mut Vec<String>, with_expect: bool) {
    let ex = |s: String, e: String| if with_expect { format!("{} #expect={}", s, e) } else { s };
    out.push(ex("rr 64 RIP".into(), format!("ok {:x}", spec.entry)));
    out.push("state".into());
    out.push("areas".into());
    for s in spec.segs.iter().filter(|s| s.ptype == PT_LOAD) {
        let prot = flags_to_prot(s.flags);
        let readable = prot & 1 != 0;
        let mut win = |a: u64, n: u64, out: &mut Vec<String>| {
            if n == 0 {
                return;
            }
            // expected bytes: file content then zeros, within [vaddr, vaddr + memsz)
            let mut exp = vec![];
            for k in 0..n {
                let o = a + k - s.vaddr;
                exp.push(if o < s.filesz { s.content[o as usize] } else { 0 });
            }
            let e = if readable { format!("ok {}", hex(&exp)) } else { "err".to_string() };
            out.push(ex(format!("mrb {:x} {:x}", a, n), e));
        };
        win(s.vaddr, s.memsz.min(24), out);
        if s.filesz > 0 {
            // around the end of the file bytes
            let a = s.vaddr + s.filesz.saturating_sub(8);
            win(a, (s.vaddr + s.memsz - a).min(24), out);
        }
        let a = s.vaddr + s.memsz.saturating_sub(16);
        win(a, s.vaddr + s.memsz - a, out);
        if s.memsz > 64 {
            let a = s.vaddr + rng.below(s.memsz - 32);
            win(a, 32, out);
        }
        out.push(ex(format!("perm {:x}", s.vaddr), format!("{:x}", prot)));
        out.push(ex(format!("perm {:x}", s.vaddr + s.memsz - 1), format!("{:x}", prot)));
    }
    // symbols: every address carrying a defined symbol resolves to the name of one defined there
    if let Some(syms) = &spec.syms {
        let mut addrs: Vec<u64> = syms.iter().filter(|y| y.shndx != 0).map(|y| y.value).collect();
        addrs.sort();
        addrs.dedup();
        for a in addrs {
            let names: Vec<String> = syms
                .iter()
                .filter(|y| y.shndx != 0 && y.value == a)
                .map(|y| format!("some {}", if y.name.is_empty() { "-".to_string() } else { hex(y.name.as_bytes()) }))
                .collect();
            let cmd = format!("sym {:x}", a);
            out.push(if with_expect { format!("{} #expect-in={}", cmd, names.join("|")) } else { cmd });
        }
    }
    out.push("symcount".into());
    out.push("trace".into());
    out.push("callstack".into());
}

/// C09: permissions of loaded segments govern guest-visible accesses: stores and fetches are attempted on every segment
pub fn gen_perm_cases(tier: &str, seed: u64, out: &mut Vec<String>) {
    let mut rng = Rng::new(seed ^ 0xE1F9);
    let n = if tier == "thorough" { 600 } else { 60 };
    for _ in 0..n {
        let mut spec = well_formed(&mut rng);
        let (bytes, _) = build(&mut spec);
        out.push("new".into());
        out.push(format!("elfload {} #expect=ok", hex(&bytes)));
        out.push("areas".into());
        for s in spec.segs.iter().filter(|s| s.ptype == PT_LOAD) {
            let prot = flags_to_prot(s.flags);
            let a = s.vaddr + rng.below(s.memsz);
            out.push(format!("perm {:x} #expect={:x}", a, prot));
            out.push(format!("mrb {:x} 1{}", a, if prot & 1 != 0 { "" } else { " #expect=err" }));
            out.push(format!("mrx {:x}{}", a, if prot & 4 != 0 { "" } else { " #expect=err" }));
            out.push(format!("mwb {:x} 5a #expect={}", a, if prot & 2 != 0 { "ok" } else { "err" }));
            out.push(format!("mw 8 {:x} 1122334455667788{}", s.vaddr, if prot & 2 != 0 { "" } else { " #expect=err" }));
        }
        out.push("areas".into());
    }
}

/// C10: the areas a load creates are areas like the others — exact extents (to the page end, not beyond), then allocations
/// right behind and right in front of each of them
pub fn gen_layout_cases(tier: &str, seed: u64, out: &mut Vec<String>) {
    let mut rng = Rng::new(seed ^ 0xE1F0);
    let n = if tier == "thorough" { 600 } else { 60 };
    for _ in 0..n {
        let mut spec = well_formed(&mut rng);
        let (bytes, _) = build(&mut spec);
        out.push("new".into());
        out.push(format!("elfload {}", hex(&bytes)));
        out.push("areas".into());
        for s in spec.segs.iter().filter(|s| s.ptype == PT_LOAD) {
            let end = round_up(s.vaddr + s.memsz);
            out.push(format!("mr 1 {:x}", end));
            out.push(format!("mr 1 {:x}", end - 1));
            out.push(format!("zero {:x} {:x} ~", end, 1 + rng.below(0x20)));
            if s.vaddr & 0xfff != 0 {
                out.push(format!("zero {:x} {:x} ~", s.vaddr & !0xfff, *rng.pick(&[1u64, s.vaddr & 0xfff, (s.vaddr & 0xfff) + 1])));
            }
        }
        out.push("areas".into());
    }
}

pub fn observe_plain(spec: &Spec, rng: &mut Rng, out: &mut Vec<String>) {
    observe(spec, rng, out, false)
}

pub fn gen_c15(tier: &str, seed: u64, out: &mut Vec<String>) {
    let mut rng = Rng::new(seed ^ 0xC15);
    let n = if tier == "thorough" { 4000 } else { 250 };
    for _ in 0..n {
        let mut spec = well_formed(&mut rng);
        let (bytes, _) = build(&mut spec);
        out.push("new".into());
        out.push(format!("elfload {} #expect=ok", hex(&bytes)));
        observe(&spec, &mut rng, out, true);
    }
}

fn interesting(rng: &mut Rng, file_len: usize) -> u64 {
    match rng.below(16) {
        0 => 0,
        1 => 1,
        2 => u64::MAX,
        3 => u64::MAX - rng.below(0x2000),
        4 => 1 << 63,
        5 => (1 << 63) - 1,
        6 => 1 << 40,
        7 => 1 << 32,
        8 => file_len as u64,
        9 => file_len as u64 + 1,
        10 => (file_len as u64).saturating_sub(1 + rng.below(64)),
        11 => 0xffff_ffff,
        12 => (1 << 30) + rng.below(3) - 1,
        13 => 0x1000 * rng.below(0x100),
        14 => rng.below(0x10000),
        _ => rng.next(),
    }
}

fn poke(f: &mut [u8], off: usize, n: usize, v: u64) {
    for k in 0..n {
        if off + k < f.len() {
            f[off + k] = (v >> (8 * k)) as u8;
        }
    }
}

pub fn gen_c16(tier: &str, seed: u64, out: &mut Vec<String>) {
    let mut rng = Rng::new(seed ^ 0xC16);
    let n = if tier == "thorough" { 12000 } else { 700 };
    for case in 0..n {
        let mut spec = well_formed(&mut rng);
        // structural variants the loader must reject or survive
        if rng.chance(1, 5) {
            match rng.below(9) {
                0 => spec.segs.push(Seg { ptype: 2, flags: 6, vaddr: 0x60_0000, filesz: 0, memsz: 0, align: 8, content: vec![], offset: 0, fixed_offset: true }),
                1 => spec.segs.push(Seg { ptype: 3, flags: 4, vaddr: 0x40_0200, filesz: 0, memsz: 0, align: 1, content: vec![], offset: 0, fixed_offset: true }),
                2 => spec.segs.push(Seg { ptype: rng.next() as u32, flags: 4, vaddr: 0x50_0000, filesz: 0, memsz: 0, align: 1, content: vec![], offset: 0, fixed_offset: true }),
                3 => spec.segs.push(Seg { ptype: 0x6474_e551, flags: *rng.pick(&[7u32, 4, 0, 5]), vaddr: 0x10, filesz: 0, memsz: 0, align: 1, content: vec![], offset: 0, fixed_offset: true }),
                4 => {
                    // two TLS headers / TLS without a matching area
                    let v = spec.segs[0].vaddr;
                    for _ in 0..2 {
                        // (also sizes that leave 64 bits when added to an offset inside the area)
                        let tm = if rng.chance(1, 3) { *rng.pick(&[u64::MAX, u64::MAX - 7, u64::MAX - 0xf, 1 << 63]) } else { rng.below(0x3000) };
                        spec.segs.push(Seg { ptype: 7, flags: 4, vaddr: if rng.chance(1, 2) { v } else { v + *rng.pick(&[8u64, 0x10, 1]) }, filesz: 0, memsz: tm, align: 8, content: vec![], offset: 0, fixed_offset: true });
                    }
                }
                5 => {
                    // overlapping loads
                    let mut s = spec.segs[0].clone();
                    s.vaddr += *rng.pick(&[0u64, 1, 0x800, 0xfff]);
                    spec.segs.push(s);
                }
                6 => {
                    // load at the very top of the address space
                    spec.segs.push(Seg { ptype: PT_LOAD, flags: 6, vaddr: u64::MAX - rng.below(0x3000), filesz: 0, memsz: 1 + rng.below(0x3000), align: 0x1000, content: vec![], offset: 0, fixed_offset: false });
                }
                7 => {
                    // a load whose size alone is close to 2^64 but whose end still fits the address space (tiny p_vaddr): the
                    // running image total must not overflow; placed after, before or between the other loads
                    let va = *rng.pick(&[0x1000u64, 0x10000, 0x2000]);
                    let end = 0u64.wrapping_sub(0x1000 * (1 + rng.below(4)));
                    let sg = Seg { ptype: PT_LOAD, flags: 6, vaddr: va, filesz: 0, memsz: end - va - rng.below(2), align: 0x1000, content: vec![], offset: 0, fixed_offset: false };
                    let at = rng.below(spec.segs.len() as u64 + 1) as usize;
                    spec.segs.insert(at, sg);
                }
                _ => {
                    // legitimately large bss
                    spec.segs.push(Seg { ptype: PT_LOAD, flags: 6, vaddr: 0x1_0000_0000, filesz: 0, memsz: *rng.pick(&[1u64 << 20, (1 << 30) - 0x1000, 1 << 30, (1 << 30) + 1, 1 << 31, 1 << 36]), align: 0x1000, content: vec![], offset: 0, fixed_offset: false });
                }
            }
        }
        let (mut f, lay) = build(&mut spec);
        let flen = f.len();
        let kind = if case % 7 == 6 { 9 } else { rng.below(9) };
        match kind {
            0 => {} // unmutated
            1 => {
                // file header fields
                for _ in 0..1 + rng.below(2) {
                    let (off, sz) = *rng.pick(&[(0x18usize, 8usize), (0x20, 8), (0x28, 8), (0x36, 2), (0x38, 2), (0x3a, 2), (0x3c, 2), (0x3e, 2), (0x10, 2), (0x12, 2), (0x14, 4), (4, 1), (5, 1), (6, 1)]);
                    let v = if sz == 1 { rng.below(4) } else { interesting(&mut rng, flen) };
                    poke(&mut f, off, sz, v);
                }
            }
            2 | 3 | 4 => {
                // program header fields (one or several)
                for _ in 0..1 + rng.below(3) {
                    if lay.phnum == 0 {
                        break;
                    }
                    let ph = lay.phoff + 56 * rng.below(lay.phnum as u64) as usize;
                    let (off, sz) = *rng.pick(&[(0usize, 4usize), (4, 4), (8, 8), (16, 8), (32, 8), (40, 8), (40, 8), (32, 8), (48, 8)]);
                    let v = if off == 0 {
                        *rng.pick(&[0u64, 1, 2, 3, 4, 5, 6, 7, 8, 0x6474_e550, 0x6474_e551, 0x6474_e552, 0x6474_e553, 0x7000_0000, 0xffff_ffff])
                    } else {
                        interesting(&mut rng, flen)
                    };
                    poke(&mut f, ph + off, sz, v);
                }
            }
            5 => {
                // section headers / symbols / string table
                if lay.shnum > 0 {
                    match rng.below(3) {
                        0 => {
                            let sh = lay.shoff + 64 * rng.below(lay.shnum as u64) as usize;
                            let (off, sz) = *rng.pick(&[(0usize, 4usize), (4, 4), (24, 8), (32, 8), (40, 4), (44, 4), (56, 8)]);
                            poke(&mut f, sh + off, sz, interesting(&mut rng, flen));
                        }
                        1 => {
                            if lay.symcount > 0 {
                                let y = lay.symtab_off + 24 * rng.below(lay.symcount as u64) as usize;
                                let (off, sz) = *rng.pick(&[(0usize, 4usize), (6, 2), (8, 8)]);
                                poke(&mut f, y + off, sz, interesting(&mut rng, flen));
                            }
                        }
                        _ => {
                            // non-UTF-8 / unterminated names
                            if lay.strtab_len > 0 {
                                let k = lay.strtab_off + rng.below(lay.strtab_len as u64) as usize;
                                f[k] = *rng.pick(&[0xffu8, 0x80, 0xc3, 0x41]);
                            }
                        }
                    }
                }
            }
            6 => {
                // cut anywhere — and, half of the time, at the places where a reader changes gear: inside and right after the
                // identification bytes, the file header, each program header, the section headers
                let k = if rng.chance(1, 2) {
                    let marks = [0usize, 1, 3, 4, 5, 6, 7, 8, 15, 16, 17, 0x18, 0x20, 0x3f, 0x40, 0x41, lay.phoff, lay.phoff + 1, lay.phoff + 55, lay.phoff + 56, lay.phoff + 56 * lay.phnum, lay.shoff, lay.shoff + 63, lay.shoff + 64, flen - 1];
                    (*rng.pick(&marks)).min(flen)
                } else {
                    rng.below(flen as u64 + 1) as usize
                };
                f.truncate(k);
            }
            7 => {
                for _ in 0..1 + rng.below(8) {
                    if !f.is_empty() {
                        let k = rng.below(f.len() as u64) as usize;
                        f[k] ^= 1 << rng.below(8);
                    }
                }
            }
            8 => {
                // big-endian / 32-bit flags flipped together with a field
                poke(&mut f, *rng.pick(&[4usize, 5]), 1, rng.below(4));
                let ph = lay.phoff + 40;
                poke(&mut f, ph, 8, interesting(&mut rng, flen));
            }
            _ => {
                // arbitrary bytes, sometimes behind a valid magic
                let len = rng.below(200) as usize;
                f = (0..len).map(|_| rng.next() as u8).collect();
                if rng.chance(1, 2) && f.len() >= 6 {
                    f[..4].copy_from_slice(&[0x7f, b'E', b'L', b'F']);
                    f[4] = 1 + rng.below(2) as u8;
                    f[5] = 1 + rng.below(2) as u8;
                }
            }
        }
        out.push("new".into());
        out.push(format!("elfload {}", hex(&f)));
        // whatever came out must be a consistent machine (or the old one, after an error)
        out.push("rr 64 RIP".into());
        out.push("state".into());
        out.push("areas".into());
        out.push("symcount".into());
        for s in spec.segs.iter().filter(|s| s.ptype == PT_LOAD).take(2) {
            out.push(format!("mrb {:x} {:x}", s.vaddr, s.memsz.min(16)));
            out.push(format!("perm {:x}", s.vaddr));
        }
        out.push("trace".into());
    }
}
