//! Serialise what iced-x86 says about the bytes at an address into a `dec` protocol line
//! (the Lean model starts at iced's `Instruction` API; the decoder itself is not modelled).
use crate::util::*;
use iced_x86::{Decoder, DecoderOptions, Instruction, OpKind, Register};

fn reg_name(r: Register) -> String {
    if r == Register::None {
        return "-".into();
    }
    let n = format!("{:?}", r);
    if reg_by_name(&n).is_some() {
        n
    } else {
        "?".into()
    }
}

fn seg_name(r: Register) -> String {
    match r {
        Register::None => "-".into(),
        Register::ES | Register::CS | Register::SS | Register::DS | Register::FS | Register::GS => {
            format!("{:?}", r)
        }
        _ => "?".into(),
    }
}

pub fn decode_window(window: &[u8], ip: u64) -> Option<Instruction> {
    if window.is_empty() {
        return None;
    }
    let mut dec = Decoder::with_ip(64, window, ip, DecoderOptions::NONE);
    if !dec.can_decode() {
        return None;
    }
    let ins = dec.decode();
    if ins.is_invalid() {
        None
    } else {
        Some(ins)
    }
}

pub fn instr_payload(ins: &Instruction) -> String {
    let mut ops: Vec<String> = vec![];
    for k in 0..ins.op_count() {
        let s = match ins.op_kind(k) {
            OpKind::Register => format!("r:{}", reg_name(ins.op_register(k))),
            OpKind::Memory => "m".to_string(),
            OpKind::Immediate8 => format!("i:1:{:x}", ins.immediate8() as u64),
            OpKind::Immediate8_2nd => format!("i:1:{:x}", ins.immediate8_2nd() as u64),
            OpKind::Immediate16 => format!("i:2:{:x}", ins.immediate16() as u64),
            OpKind::Immediate32 => format!("i:4:{:x}", ins.immediate32() as u64),
            OpKind::Immediate64 => format!("i:8:{:x}", ins.immediate64()),
            OpKind::Immediate8to16 => format!("i:2:{:x}", ins.immediate8to16() as i64 as u64),
            OpKind::Immediate8to32 => format!("i:4:{:x}", ins.immediate8to32() as i64 as u64),
            OpKind::Immediate8to64 => format!("i:8:{:x}", ins.immediate8to64() as u64),
            OpKind::Immediate32to64 => format!("i:8:{:x}", ins.immediate32to64() as u64),
            _ => "o".to_string(),
        };
        ops.push(s);
    }
    let nb64 = ins.op_count() > 0 && ins.op0_kind() == OpKind::NearBranch64;
    let nb = if nb64 { ins.near_branch64() } else { 0 };
    format!(
        "code={:?} mn={:?} len={} next={:x} nb={:x} nb64={} ops={} base={} index={} scale={} disp={:x} seg={}",
        ins.code(),
        ins.mnemonic(),
        ins.len(),
        ins.next_ip(),
        nb,
        if nb64 { 1 } else { 0 },
        if ops.is_empty() { "-".to_string() } else { ops.join(",") },
        reg_name(ins.memory_base()),
        reg_name(ins.memory_index()),
        ins.memory_index_scale(),
        ins.memory_displacement64(),
        seg_name(ins.memory_segment()),
    )
}

/// `dec` line for the instruction fetch at `ip` when the executable area holds `code` from `start`
/// (the window is what mem_read_executable_bytes returns: up to 15 bytes, to the end of the area).
pub fn dec_line(code: &[u8], start: u64, ip: u64) -> Option<String> {
    if ip < start || ip - start >= code.len() as u64 {
        return None;
    }
    let off = (ip - start) as usize;
    let end = (off + 15).min(code.len());
    let window = &code[off..end];
    Some(match decode_window(window, ip) {
        Some(ins) => format!("dec {:x} {} {}", ip, hex(window), instr_payload(&ins)),
        None => format!("dec {:x} {} invalid", ip, hex(window)),
    })
}

/// dec lines for every offset of a code area (small programs)
pub fn dec_all(code: &[u8], start: u64, out: &mut Vec<String>) {
    for off in 0..code.len() {
        if let Some(l) = dec_line(code, start, start + off as u64) {
            out.push(l);
        }
    }
}
