mod decode;
mod exec;
mod gen_c07;
mod gen_elf;
mod gen_fuzz;
mod gen_instr;
mod gen_mem;
mod gen_prog;
mod util;

fn main() {
    let args: Vec<String> = std::env::args().collect();
    match args.get(1).map(|s| s.as_str()) {
        Some("exec") => exec::main_exec(),
        Some("gen") => {
            let prop = args.get(2).expect("property id");
            let tier = args.get(3).map(|s| s.as_str()).unwrap_or("quick");
            let seed: u64 = args.get(4).and_then(|s| s.parse().ok()).unwrap_or(1);
            let mut out: Vec<String> = Vec::new();
            match prop.as_str() {
                "C01" => {
                    gen_instr::gen(&[gen_instr::Class::Data, gen_instr::Class::Lea, gen_instr::Class::Os], tier, seed, 6, 40, &mut out);
                    gen_prog::gen_patched_code(tier, seed ^ 0x101, &mut out);
                }
                "C02" => gen_instr::gen(&[gen_instr::Class::Data, gen_instr::Class::Lea, gen_instr::Class::Stack, gen_instr::Class::CallRet, gen_instr::Class::Branch], tier, seed ^ 0x202, 5, 40, &mut out),
                "C03" => {
                    gen_instr::gen(&[gen_instr::Class::Branch, gen_instr::Class::CallRet], tier, seed, 30, 300, &mut out);
                    gen_prog::gen_stack_programs(tier, seed ^ 0x303, &mut out);
                }
                "C04" => {
                    gen_instr::gen(&[gen_instr::Class::Stack, gen_instr::Class::CallRet], tier, seed, 40, 400, &mut out);
                    gen_prog::gen_stack_programs(tier, seed ^ 0x404, &mut out);
                }
                "C05" => gen_instr::gen_filtered(
                    &[gen_instr::Class::Lea, gen_instr::Class::Data, gen_instr::Class::Stack, gen_instr::Class::CallRet, gen_instr::Class::Branch],
                    tier, seed ^ 0x505, 6, 40, true, &mut out),
                "C06" => {
                    gen_instr::gen(&[gen_instr::Class::Data], tier, seed ^ 0x606, 6, 40, &mut out);
                    // no spurious failures in histories either: returns after returns, calls in calls (model only)
                    gen_prog::gen_stack_programs(tier, seed ^ 0x606, &mut out);
                }
                "C07" => gen_c07::gen(tier, seed, &mut out),
                "C08" => {
                    gen_mem::gen_c08(tier, seed, &mut out);
                    // guest loads and stores of every width, with the bytes around the operand observed
                    gen_instr::gen_filtered(&[gen_instr::Class::Data, gen_instr::Class::Stack, gen_instr::Class::CallRet, gen_instr::Class::Branch], tier, seed ^ 0x808, 2, 12, true, &mut out);
                }
                "C09" => {
                    gen_mem::gen_c09(tier, seed, &mut out);
                    gen_elf::gen_perm_cases(tier, seed, &mut out);
                    // guest accesses to read-only / unmapped / straddling operands
                    // (also the transfers through memory: a denied read of the target must leave the stack alone)
                    gen_instr::gen_filtered(&[gen_instr::Class::Data, gen_instr::Class::Stack, gen_instr::Class::CallRet, gen_instr::Class::Branch], tier, seed ^ 0x909, 2, 12, true, &mut out);
                }
                "C10" => {
                    gen_mem::gen_c10(tier, seed, &mut out);
                    // the heap is an area like the others: brk histories (growing, shrinking, failing) with the area list observed
                    gen_prog::gen_c13(tier, seed ^ 0x1013, &mut out);
                    gen_elf::gen_layout_cases(tier, seed ^ 0x1015, &mut out);
                }
                "C11" => gen_prog::gen_c11(tier, seed, &mut out),
                "C12" => gen_prog::gen_c12(tier, seed, &mut out),
                "C13" => gen_prog::gen_c13(tier, seed, &mut out),
                "C14" => gen_prog::gen_c14(tier, seed, &mut out),
                "C15" => gen_elf::gen_c15(tier, seed, &mut out),
                "C16" => gen_elf::gen_c16(tier, seed, &mut out),
                "C17" => gen_prog::gen_c17(tier, seed, &mut out),
                "C18" => gen_prog::gen_c18(tier, seed, &mut out),
                "C19" => gen_fuzz::gen_c19(tier, seed, &mut out),
                "C20" => gen_fuzz::gen_c20(tier, seed, &mut out),
                _ => {
                    eprintln!("unknown property {}", prop);
                    std::process::exit(2);
                }
            }
            use std::io::Write;
            let stdout = std::io::stdout();
            let mut w = std::io::BufWriter::new(stdout.lock());
            for l in out {
                writeln!(w, "{}", l).unwrap();
            }
        }
        _ => {
            eprintln!("usage: axh gen <prop> <tier> <seed> | axh exec");
            std::process::exit(2);
        }
    }
}
