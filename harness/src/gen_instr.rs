//! Single-instruction cases for the instruction-level properties (C01–C06, C19, C20).
//! Templates come from probing iced with structured random byte strings, never from a hand-made table.
use crate::decode::*;
use crate::util::*;
use ax_x86::auto::generated::SupportedMnemonic;
use iced_x86::{Code, Decoder, DecoderOptions, Instruction, Mnemonic, OpKind, Register};
use std::collections::BTreeMap;
use std::convert::TryFrom;

pub const CODE: u64 = 0x40_0000;
pub const STACK: u64 = 0x7000_0000;

pub fn supported(m: Mnemonic) -> bool {
    std::panic::catch_unwind(|| SupportedMnemonic::try_from(m).is_ok()).unwrap_or(false)
}

#[derive(Clone, Copy, PartialEq, Eq, Debug)]
pub enum Class {
    Data,    // C01/C02/C06: arithmetic, moves, …
    Branch,  // C03
    Stack,   // C04: push / pop
    CallRet, // C03 and C04
    Lea,     // C05
    Os,      // syscall / int / cpuid
}

pub fn class_of(m: Mnemonic) -> Class {
    use Mnemonic::*;
    match m {
        Ja | Jae | Jb | Jbe | Je | Jecxz | Jg | Jge | Jl | Jle | Jmp | Jne | Jno | Jnp | Jns | Jo | Jp | Jrcxz | Js => Class::Branch,
        Call | Ret => Class::CallRet,
        Push | Pop => Class::Stack,
        Lea => Class::Lea,
        Syscall | Int | Int1 | Int3 | Cpuid => Class::Os,
        _ => Class::Data,
    }
}

/// structured random candidate: [legacy prefixes] [REX] opcode [modrm [sib] [disp]] [imm]
pub fn candidate(rng: &mut Rng) -> Vec<u8> {
    let mut b = vec![];
    match rng.below(12) {
        0 => b.push(0x66),
        1 => b.push(0x67),
        2 => b.push(0x65),
        3 => b.push(0x64),
        4 => {
            b.push(0x67);
            b.push(0x66)
        }
        5 => {
            b.push(0x65);
            b.push(0x66)
        }
        6 => b.push(*rng.pick(&[0xf2u8, 0xf3, 0x2e, 0x3e, 0x26, 0x36])),
        _ => {}
    }
    match rng.below(5) {
        0 => b.push(0x48),
        1 => b.push(0x40 | rng.below(16) as u8),
        2 => b.push(0x48 | rng.below(8) as u8),
        _ => {}
    }
    if rng.chance(1, 4) {
        b.push(0x0f);
    }
    b.push(rng.next() as u8);
    // modrm: bias towards register forms and the special encodings
    let modrm = match rng.below(8) {
        0 => 0xc0 | rng.below(64) as u8,
        1 => 0x04 | ((rng.below(8) as u8) << 3),          // SIB, no disp
        2 => 0x05 | ((rng.below(8) as u8) << 3),          // RIP-relative
        3 => 0x44 | ((rng.below(8) as u8) << 3),          // SIB + disp8
        4 => 0x84 | ((rng.below(8) as u8) << 3),          // SIB + disp32
        _ => rng.next() as u8,
    };
    b.push(modrm);
    while b.len() < 15 {
        // displacement / immediate bytes: mix of sign-boundary and random bytes
        b.push(match rng.below(6) {
            0 => 0x00,
            1 => 0xff,
            2 => 0x80,
            3 => 0x7f,
            4 => 0x01,
            _ => rng.next() as u8,
        });
    }
    b
}

pub struct Templates {
    pub by_code: BTreeMap<String, Vec<Vec<u8>>>,
}

fn shape_key(ins: &Instruction) -> String {
    let mut k = String::new();
    for i in 0..ins.op_count() {
        k.push_str(&format!("{:?}", ins.op_kind(i)));
    }
    k.push_str(&format!(
        "{:?}{:?}{}{}{:?}",
        ins.memory_base() != Register::None,
        ins.memory_index() != Register::None,
        ins.memory_index_scale(),
        ins.memory_displ_size(),
        ins.segment_prefix()
    ));
    if ins.memory_base() == Register::RIP || ins.memory_base() == Register::EIP {
        k.push_str("rip");
    }
    if ins.memory_base().is_gpr32() || ins.memory_index().is_gpr32() {
        k.push_str("a32");
    }
    k
}

pub fn probe(seed: u64, rounds: usize) -> Templates {
    // probing uses its own fixed stream so that templates do not depend on the run's seed more than necessary
    let mut rng = Rng::new(seed ^ 0x7E3);
    let mut by_code: BTreeMap<String, Vec<Vec<u8>>> = BTreeMap::new();
    let mut shapes: BTreeMap<(String, String), usize> = BTreeMap::new();
    for _ in 0..rounds {
        let bytes = candidate(&mut rng);
        let mut d = Decoder::with_ip(64, &bytes, CODE, DecoderOptions::NONE);
        let ins = d.decode();
        if ins.is_invalid() || !supported(ins.mnemonic()) {
            continue;
        }
        let key = format!("{:?}", ins.code());
        let sk = shape_key(&ins);
        let cnt = shapes.entry((key.clone(), sk)).or_insert(0);
        if *cnt >= 3 {
            continue;
        }
        *cnt += 1;
        by_code.entry(key).or_default().push(bytes[..ins.len()].to_vec());
    }
    Templates { by_code }
}

/// how the operand's memory is placed
#[derive(Clone, Copy, PartialEq, Eq, Debug)]
pub enum Place {
    Rw,
    Ro,
    Unmapped,
    Straddle, // area ends inside the operand
    Misaligned,
}

pub struct Case {
    pub lines: Vec<String>,
}

fn mem_size(ins: &Instruction) -> u64 {
    let s = ins.memory_size().size() as u64;
    if s == 0 {
        8
    } else {
        s
    }
}

fn has_mem(ins: &Instruction) -> bool {
    (0..ins.op_count()).any(|k| ins.op_kind(k) == OpKind::Memory)
}

/// Emit one single-instruction case.
pub fn emit_case(rng: &mut Rng, bytes0: &[u8], out: &mut Vec<String>, native_friendly: bool) -> Option<()> {
    // where the code lives: mostly the usual place, sometimes above 4 GiB or just below it (branch targets and RIP-relative
    // operands then need all 64 bits)
    let code_base: u64 = match rng.below(10) {
        0 => 0x1_0000_0000,
        1 => 0x5555_5555_4000,
        2 => 0xffff_e000,
        3 => 0x1234_5678_9000,
        _ => CODE,
    };
    let mut bytes = bytes0.to_vec();
    // re-randomise immediate and displacement fields
    {
        let mut d = Decoder::with_ip(64, &bytes, code_base, DecoderOptions::NONE);
        let ins0 = d.decode();
        let co = d.get_constant_offsets(&ins0);
        let mut fill = |off: usize, n: usize, rng: &mut Rng, bytes: &mut Vec<u8>| {
            // sign-boundary biased little-endian field
            let v: u64 = match rng.below(8) {
                0 => 0,
                1 => 1,
                2 => u64::MAX,
                3 => (1u64 << (8 * n as u32 - 1)).wrapping_sub(1),
                4 => 1u64 << (8 * n as u32 - 1),
                5 => rng.below(64),
                _ => rng.next(),
            };
            for j in 0..n {
                bytes[off + j] = (v >> (8 * j)) as u8;
            }
        };
        if co.has_immediate() {
            fill(co.immediate_offset(), co.immediate_size(), rng, &mut bytes);
        }
        if co.has_immediate2() {
            fill(co.immediate_offset2(), co.immediate_size2(), rng, &mut bytes);
        }
        if co.has_displacement() && ins0.is_ip_rel_memory_operand() && co.displacement_size() == 4 && native_friendly {
            // RIP-relative data: keep it away from the code page so that it can be mapped as data on all sides
            let v = (0x1000_0000u64 + rng.below(0x100_0000)) as u32;
            bytes[co.displacement_offset()..co.displacement_offset() + 4].copy_from_slice(&v.to_le_bytes());
        } else if co.has_displacement() && !ins0.is_ip_rel_memory_operand() && class_of(ins0.mnemonic()) != Class::Branch {
            if co.displacement_size() <= 4 && native_friendly {
                // keep displacements small so that effective addresses stay mappable
                let v = (rng.below(0x200) as i64 - 0x100) as u64;
                for j in 0..co.displacement_size() {
                    bytes[co.displacement_offset() + j] = (v >> (8 * j)) as u8;
                }
            } else {
                fill(co.displacement_offset(), co.displacement_size(), rng, &mut bytes);
            }
        }
    }
    // re-randomise the register fields (REX.RXB, ModRM.reg/rm, SIB.index/base, opcode+r): the template fixes only the shape, so
    // aliased operands (same register twice, RSP/RBP/R12/R13 as operand or base, a base that is also the destination) all occur
    {
        let d0 = {
            let mut d = Decoder::with_ip(64, &bytes, code_base, DecoderOptions::NONE);
            d.decode()
        };
        let key0 = (d0.code(), d0.len(), shape_key(&d0));
        let mut d = Decoder::with_ip(64, &bytes, code_base, DecoderOptions::NONE);
        let i0 = d.decode();
        let co = d.get_constant_offsets(&i0);
        let mut head = bytes.len();
        if co.has_displacement() {
            head = head.min(co.displacement_offset());
        }
        if co.has_immediate() {
            head = head.min(co.immediate_offset());
        }
        if co.has_immediate2() {
            head = head.min(co.immediate_offset2());
        }
        for _ in 0..rng.below(5) {
            if head == 0 {
                break;
            }
            let k = rng.below(head as u64) as usize;
            let mut cand = bytes.clone();
            match rng.below(3) {
                0 => cand[k] = (cand[k] & !0x07) | rng.below(8) as u8,
                1 => cand[k] = (cand[k] & !0x38) | ((rng.below(8) as u8) << 3),
                _ if cand[k] & 0xf0 == 0x40 => cand[k] = (cand[k] & !0x07) | rng.below(8) as u8,
                _ => continue,
            }
            let mut dd = Decoder::with_ip(64, &cand, code_base, DecoderOptions::NONE);
            let i1 = dd.decode();
            if !i1.is_invalid() && (i1.code(), i1.len(), shape_key(&i1)) == key0 {
                bytes = cand;
            }
        }
        // the same register as both operands (`xor eax, eax`, `sub rcx, rcx`, `xchg bl, bl`, `cmp r9, r9`): idioms that code
        // special-cases, practically never produced by independent fields. ModRM.rm := ModRM.reg, REX.B := REX.R
        if d0.op_count() >= 2 && d0.op0_kind() == OpKind::Register && d0.op1_kind() == OpKind::Register && rng.chance(1, 5) {
            for k in (0..head).rev() {
                let mut cand = bytes.clone();
                if cand[k] & 0xc0 != 0xc0 {
                    continue;
                }
                cand[k] = (cand[k] & !0x07) | ((cand[k] >> 3) & 7);
                for j in 0..k {
                    if cand[j] & 0xf0 == 0x40 {
                        cand[j] = (cand[j] & !0x01) | ((cand[j] >> 2) & 1);
                    }
                }
                let mut dd = Decoder::with_ip(64, &cand, code_base, DecoderOptions::NONE);
                let i1 = dd.decode();
                if !i1.is_invalid() && (i1.code(), i1.len(), shape_key(&i1)) == key0 && i1.op0_register() == i1.op1_register() {
                    bytes = cand;
                    break;
                }
            }
        }
    }
    // the longest legal encodings: redundant prefixes in front (a repeated segment override or operand-size prefix changes
    // nothing) up to exactly 15 bytes, the architectural limit, and just below it
    if rng.chance(1, 25) && bytes.len() < 15 {
        let d0 = {
            let mut d = Decoder::with_ip(64, &bytes, code_base, DecoderOptions::NONE);
            d.decode()
        };
        // (the null segments DS/ES/CS/SS are interchangeable in 64-bit mode; FS/GS are kept as they are)
        let fsgs = |i: &Instruction| matches!(i.segment_prefix(), Register::FS | Register::GS).then(|| i.segment_prefix());
        let skey = |i: &Instruction| {
            let ops: Vec<OpKind> = (0..i.op_count()).map(|k| i.op_kind(k)).collect();
            (i.code(), ops, i.memory_base(), i.memory_index(), i.memory_index_scale(), i.memory_displ_size(), i.memory_displacement64(), fsgs(i))
        };
        let key0 = skey(&d0);
        let target = *rng.pick(&[15usize, 15, 14, 13]);
        if target > bytes.len() {
            let pad = match d0.segment_prefix() {
                Register::FS => 0x64u8,
                Register::GS => 0x65,
                _ => *rng.pick(&[0x3eu8, 0x2e, 0x26, 0x36]),
            };
            let mut cand = vec![pad; target - bytes.len()];
            cand.extend_from_slice(&bytes);
            let mut dd = Decoder::with_ip(64, &cand, code_base, DecoderOptions::NONE);
            let i1 = dd.decode();
            // relative branches move with the length: only forms without a code-relative part are padded
            if !i1.is_invalid()
                && i1.len() == cand.len()
                && skey(&i1) == key0
                && !i1.is_ip_rel_memory_operand()
                && class_of(i1.mnemonic()) != Class::Branch
                && class_of(i1.mnemonic()) != Class::CallRet
            {
                bytes = cand;
            }
        }
    }
    let mut d = Decoder::with_ip(64, &bytes, code_base, DecoderOptions::NONE);
    let ins = d.decode();
    if ins.is_invalid() || ins.len() != bytes.len() {
        return None;
    }
    let class = class_of(ins.mnemonic());
    // registers
    let mut regs = [0u64; 16];
    for r in regs.iter_mut() {
        *r = if native_friendly && class != Class::Lea {
            match rng.below(6) {
                0 => 0x1000_0000 + 0x1000 * rng.below(0x100) + rng.below(0x40),
                1 => rng.below(16),
                _ => rng.val(),
            }
        } else {
            rng.val()
        };
    }
    // shift counts live in CL, divisors anywhere: make small values likely in RCX
    if rng.chance(1, 2) {
        regs[1] = (regs[1] & !0xff) | rng.below(0x48);
    }
    // stack pointer inside the stack page (edges included)
    // the stack: usually one page in the usual place; sometimes two pages around an address where adding or subtracting the
    // operand size carries out of bit 15 / bit 31 (a stack pointer updated through a narrower register view shows there)
    let (stack_base, stack_len): (u64, u64) = match rng.below(if matches!(class, Class::Stack | Class::CallRet) { 9 } else { 8 }) {
        // the very bottom of the address space (the emulator maps it like any other page; never native)
        8 => (0, 0x2000),
        0 => (0x6fff_f000, 0x2000),
        1 if code_base != 0xffff_e000 => (0xffff_f000, 0x2000),
        2 => (0x2_ffff_f000, 0x2000),
        _ => (STACK, 0x1000),
    };
    regs[4] = match rng.below(12) {
        _ if stack_base == 0 && stack_len == 0x2000 => *rng.pick(&[0u64, 1, 2, 4, 6, 7, 8, 0xa, 0x10, 0x18]),
        0 => stack_base,
        1 => stack_base + stack_len - 8,
        2 => stack_base + stack_len,
        3 => stack_base - 8,
        4 => stack_base + stack_len - 16,
        5 | 6 if stack_len == 0x2000 => stack_base + 0x1000 - 16 + 2 * rng.below(17),
        _ if stack_len == 0x2000 => stack_base + 0x1000 + 8 * rng.below(4) - 16,
        _ => stack_base + 0x800 + 8 * rng.below(0x40),
    };
    let flags = {
        let f = rng.next();
        (f & 1) | ((f >> 1 & 1) << 2) | ((f >> 2 & 1) << 4) | ((f >> 3 & 1) << 6) | ((f >> 4 & 1) << 7) | ((f >> 5 & 1) << 11) | ((f >> 6 & 1) << 10)
    };
    let (fs, gs) = if ins.segment_prefix() == Register::FS || ins.segment_prefix() == Register::GS {
        // (page-aligned, or not even 16-byte aligned: alignment is a property of the linear address)
        let odd = |rng: &mut Rng| if rng.chance(1, 3) { *rng.pick(&[8u64, 4, 0x18, 1, 0xff8]) } else { 0 };
        (0x2000_0000 + 0x1000 * rng.below(16) + odd(rng), 0x3000_0000 + 0x1000 * rng.below(16) + odd(rng))
    } else {
        (0, 0)
    };
    let place = if class == Class::Lea {
        Place::Unmapped
    } else {
        match rng.below(12) {
            0 => Place::Ro,
            // a memory destination that may not be written is the interesting half of the permission cases
            3 if ins.op0_kind() == OpKind::Memory => Place::Ro,
            1 => Place::Unmapped,
            2 => Place::Straddle,
            3 | 4 if ins.mnemonic() == Mnemonic::Xorps || ins.mnemonic() == Mnemonic::Movups => Place::Misaligned,
            _ => Place::Rw,
        }
    };
    let sz = mem_size(&ins);
    let ea_of = |regs: &[u64; 16]| -> Option<u64> {
        if !has_mem(&ins) {
            return None;
        }
        let opidx = (0..ins.op_count()).find(|k| ins.op_kind(*k) == OpKind::Memory).unwrap();
        ins.virtual_address(opidx, 0, |reg, _, _| {
            Some(match reg {
                Register::FS => fs,
                Register::GS => gs,
                Register::DS | Register::ES | Register::SS | Register::CS => 0,
                r if r.is_gpr64() => regs[r.number()],
                r if r.is_gpr32() => regs[r.number()] & 0xffff_ffff,
                r if r.is_gpr16() => regs[r.number()] & 0xffff,
                Register::RIP => ins.next_ip(),
                Register::EIP => ins.next_ip() & 0xffff_ffff,
                _ => 0,
            })
        })
    };
    // steer the effective address to the wanted offset inside its page through the base (or index) register
    if let Some(ea) = ea_of(&regs) {
        if place != Place::Unmapped && class != Class::Lea {
            let want: u64 = match place {
                Place::Straddle if sz >= 2 => 0x1000 - 1 - rng.below(sz - 1),
                Place::Misaligned => (16 * rng.below(0xf0)) + 1 + rng.below(15),
                _ => match rng.below(6) {
                    0 => 0,
                    1 => 0x1000 - sz,
                    2 => 0x1000 - 1 - rng.below(sz.max(2) - 1),
                    3 if sz == 16 => 16 * rng.below(0xf0),
                    _ => rng.below(0x1000 - sz),
                },
            };
            let delta = want.wrapping_sub(ea) & 0xfff;
            let base = ins.memory_base();
            let idx = ins.memory_index();
            let adj = if base != Register::None && base != Register::RIP && base != Register::EIP && base.number() != 4 {
                Some(base.number())
            } else if idx != Register::None && ins.memory_index_scale() == 1 && idx.number() != 4 {
                Some(idx.number())
            } else {
                None
            };
            if let Some(n) = adj {
                regs[n] = regs[n].wrapping_add(delta);
            }
        }
    }
    // JRCXZ / JECXZ: the halves of RCX decide
    if matches!(ins.mnemonic(), Mnemonic::Jrcxz | Mnemonic::Jecxz) && rng.chance(3, 4) {
        regs[1] = *rng.pick(&[0u64, 1, 1 << 32, (1 << 32) + 1, 0xffff_ffff_0000_0000, 1 << 63, 0xffff_ffff, 0x8000_0000]);
    }
    // shifts: the interesting counts are around the masking boundaries (0, 1, width-1, width, width+1, 31/32/33, 63/64/65,
    // and the same plus multiples of 32/64 up to 255), which a random byte hits once in a while at best
    if matches!(ins.mnemonic(), Mnemonic::Shl | Mnemonic::Shr | Mnemonic::Sar | Mnemonic::Rol | Mnemonic::Ror)
        && (rng.chance(2, 3) || (place == Place::Ro && ins.op0_kind() == OpKind::Memory))
    {
        // (a shift that changes nothing — masked count 0 — into memory that may not be written is still a store)
        let quiet_shift = place == Place::Ro && ins.op0_kind() == OpKind::Memory && rng.chance(1, 2);
        let base = if quiet_shift { 0 } else { *rng.pick(&[0u64, 1, 2, 7, 8, 9, 15, 16, 17, 31, 32, 33, 63, 64, 65]) };
        let count = (base + *rng.pick(&[0u64, 0, 0, 32, 64, 96, 128, 192, 224])) & 0xff;
        if ins.op_count() == 2 && ins.op1_kind() == OpKind::Register && ins.op1_register() == Register::CL {
            regs[1] = (regs[1] & !0xff) | count;
        } else if ins.op_count() == 2 && matches!(ins.op1_kind(), OpKind::Immediate8) {
            let mut d = Decoder::with_ip(64, &bytes, code_base, DecoderOptions::NONE);
            let i0 = d.decode();
            let co = d.get_constant_offsets(&i0);
            if co.has_immediate() && co.immediate_size() == 1 {
                bytes[co.immediate_offset()] = count as u8;
            }
        }
    }
    // DIV/IDIV: the interesting inputs relate dividend and divisor (quotient exactly at the limit of the destination), which
    // independent random values never hit: steer them half of the time
    let mut mem_patch: Option<(u64, Vec<u8>)> = None;
    if matches!(ins.mnemonic(), Mnemonic::Div | Mnemonic::Idiv) && rng.chance(1, 2) {
        let opreg = if ins.op0_kind() == OpKind::Register { Some(ins.op0_register()) } else { None };
        let w: u32 = match opreg {
            Some(r) => 8 * r.size() as u32,
            None => 8 * sz as u32,
        };
        let mask: u64 = if w == 64 { u64::MAX } else { (1u64 << w) - 1 };
        let parent_shift = opreg.map(|r| {
            if matches!(r, Register::AH | Register::CH | Register::DH | Register::BH) {
                (r.full_register().number(), 8u32)
            } else {
                (r.full_register().number(), 0u32)
            }
        });
        let addr_uses_ad = [ins.memory_base(), ins.memory_index()]
            .iter()
            .any(|r| (r.is_gpr64() || r.is_gpr32()) && (r.number() == 0 || r.number() == 2));
        let tied = matches!(parent_shift, Some((0, _)) | Some((2, _))) || addr_uses_ad;
        if !tied && (8..=64).contains(&w) {
            let d: u64 = match if ins.mnemonic() == Mnemonic::Idiv && rng.chance(1, 4) { 1 } else { rng.below(7) } {
                0 => 1,
                1 => mask,
                2 => 1u64 << (w - 1),
                3 => 2 + rng.below(5),
                4 => mask - rng.below(3),
                _ => rng.val_w(w) & mask,
            };
            match parent_shift {
                Some((n, sh)) => regs[n] = (regs[n] & !(mask << sh)) | (d << sh),
                None => {
                    if let Some(a) = ea_of(&regs) {
                        mem_patch = Some((a, (0..(w / 8) as usize).map(|k| (d >> (8 * k)) as u8).collect()));
                    }
                }
            }
            let (hi, lo): (u64, u64) = if ins.mnemonic() == Mnemonic::Div {
                let hi = match rng.below(5) {
                    0 => d,
                    1 => d.wrapping_sub(1),
                    2 => 0,
                    3 => d.wrapping_add(1),
                    _ => if d > 0 { rng.below(d) } else { rng.val_w(w) },
                } & mask;
                let lo = match rng.below(4) {
                    0 => 0,
                    1 => mask,
                    2 => d,
                    _ => rng.val_w(w),
                } & mask;
                (hi, lo)
            } else {
                let sd: i128 = if w == 64 { d as i64 as i128 } else { ((d << (64 - w)) as i64 >> (64 - w)) as i128 };
                let lim: i128 = 1i128 << (w - 1);
                let q: i128 = match rng.below(7) {
                    0 => lim - 1,
                    1 => lim,
                    2 => -lim,
                    3 => -lim - 1,
                    4 => 0,
                    5 => rng.below(16) as i128 - 8,
                    _ => (rng.val_w(w) as i128) - lim,
                };
                let ad = sd.unsigned_abs().max(1);
                let r0 = (rng.next() as u128 % ad) as i128;
                let mut n = q.wrapping_mul(sd);
                // remainder takes the sign of the dividend
                n = if n >= 0 { n + r0 } else { n - r0 };
                let un = n as u128;
                // the extremes of the dividend itself (most negative / most positive double-width value and their neighbours):
                // with a divisor of -1 or 1 the quotient is off the scale by a whole word, not by one
                // (a divisor of -1 or 1 makes the first of them four times as likely: that pair is the one case where the quotient
                // itself is not representable in the double width)
                let unit = d == mask || d == 1;
                match rng.below(if unit { 5 } else { 8 }) {
                    0 => (1u64 << (w - 1), 0),
                    1 => (1u64 << (w - 1), 1),
                    2 => ((1u64 << (w - 1)) - 1, mask),
                    3 => (mask, mask),
                    _ => (((un >> w) as u64) & mask, (un as u64) & mask),
                }
            };
            if w == 8 {
                regs[0] = (regs[0] & !0xffff) | (hi << 8) | lo;
            } else {
                regs[2] = (regs[2] & !mask) | hi;
                regs[0] = (regs[0] & !mask) | lo;
            }
        }
    }
    // two-operand arithmetic: relate the operands (carry chains end exactly at all-ones, products exactly at the signed and
    // unsigned limits, equal / complementary / negated operands) - independent random values practically never do
    {
        use Mnemonic::*;
        let two_op = matches!(ins.mnemonic(), Add | Adc | Sub | Sbb | Cmp | And | Or | Xor | Test | Imul | Cmove | Cmovne | Cmovae | Xchg | Mov)
            && ins.op_count() >= 2;
        let mul1 = matches!(ins.mnemonic(), Mul | Imul) && ins.op_count() == 1;
        let addr_regs: Vec<usize> = [ins.memory_base(), ins.memory_index()]
            .iter()
            .filter(|r| r.is_gpr64() || r.is_gpr32())
            .map(|r| r.number())
            .collect();
        // (parent register, shift, width) of a register operand, if it may be set freely
        let reg_loc = |r: Register| -> Option<(usize, u32, u32)> {
            if !(r.is_gpr64() || r.is_gpr32() || r.is_gpr16() || r.is_gpr8()) {
                return None;
            }
            let p = r.full_register().number();
            if p == 4 || addr_regs.contains(&p) {
                return None;
            }
            let sh = if matches!(r, Register::AH | Register::CH | Register::DH | Register::BH) { 8 } else { 0 };
            Some((p, sh, 8 * r.size() as u32))
        };
        let maskw = |w: u32| if w >= 64 { u64::MAX } else { (1u64 << w) - 1 };
        if mem_patch.is_none() && (two_op || mul1) && (rng.chance(2, 5) || (place == Place::Ro && ins.op0_kind() == OpKind::Memory)) {
            // operand 0 = destination (or the single explicit operand), operand "src" = the last explicit one
            let k_src = if mul1 { 0 } else { 1 };
            let dst_reg = if mul1 { reg_loc(Register::RAX).map(|(p, s, _)| (p, s, 8 * ins.op0_register().size().max(sz as usize) as u32)) } else if ins.op0_kind() == OpKind::Register { reg_loc(ins.op0_register()) } else { None };
            let w: u32 = if ins.op0_kind() == OpKind::Register && !mul1 { 8 * ins.op0_register().size() as u32 } else if ins.op0_kind() == OpKind::Register { 8 * ins.op0_register().size() as u32 } else { 8 * sz as u32 };
            if (8..=64).contains(&w) {
                let m = maskw(w);
                let d: u64 = match rng.below(6) {
                    0 => m,
                    1 => 1u64 << (w - 1),
                    2 => (1u64 << (w - 1)) - 1,
                    3 => 0,
                    _ => rng.val_w(w) & m,
                };
                let is_mul = matches!(ins.mnemonic(), Mul | Imul);
                let sv: u64 = if is_mul {
                    // a product at a boundary: pick the product, derive the second factor
                    let a = if d == 0 { 3 } else { d };
                    let sa: i128 = if ins.mnemonic() == Imul { ((a << (64 - w)) as i64 >> (64 - w)) as i128 } else { a as i128 };
                    let lim = 1i128 << (w - 1);
                    let target: i128 = *rng.pick(&[lim - 1, lim, 2 * lim - 1, 2 * lim, -lim, -lim - 1, -2 * lim, 2 * lim + 1, lim + 1]);
                    let b = if sa != 0 { target / sa } else { 1 };
                    (b as u64) & m
                } else {
                    // (the last three make the result equal to the old destination for one family each: a store that changes
                    // nothing is still a store)
                    let quiet = place == Place::Ro && ins.op0_kind() == OpKind::Memory && rng.chance(1, 2);
                    match if quiet { 8 + rng.below(3) } else { rng.below(11) } {
                        0 => !d & m,
                        1 => d.wrapping_neg() & m,
                        2 | 8 => d,
                        3 => (!d).wrapping_sub(1) & m,
                        4 => d.wrapping_add(1) & m,
                        5 => d.wrapping_sub(1) & m,
                        6 => (m - d).wrapping_add(1) & m,
                        9 => 0,
                        10 => m,
                        _ => 1,
                    }
                };
                // destination
                let mut ok = true;
                let mut patches: Vec<(u64, Vec<u8>)> = vec![];
                let le = |v: u64, n: u32| (0..(n / 8) as usize).map(|k| (v >> (8 * k)) as u8).collect::<Vec<u8>>();
                if mul1 {
                    if let Some((p, sh, _)) = dst_reg { regs[p] = (regs[p] & !(m << sh)) | ((sv & m) << sh); } else { ok = false; }
                    // the explicit operand takes d
                    if ins.op0_kind() == OpKind::Register {
                        match reg_loc(ins.op0_register()) {
                            Some((p, sh, _)) if p != 0 => regs[p] = (regs[p] & !(m << sh)) | (d << sh),
                            _ => ok = false,
                        }
                    } else if let Some(a) = ea_of(&regs) {
                        patches.push((a, le(d, w)));
                    }
                } else {
                    match ins.op0_kind() {
                        OpKind::Register => match reg_loc(ins.op0_register()) {
                            Some((p, sh, _)) => regs[p] = (regs[p] & !(m << sh)) | (d << sh),
                            None => ok = false,
                        },
                        OpKind::Memory => {
                            if let Some(a) = ea_of(&regs) { patches.push((a, le(d, w))); } else { ok = false; }
                        }
                        _ => ok = false,
                    }
                    // source
                    if ok {
                        match ins.op_kind(k_src) {
                            OpKind::Register => {
                                let r = ins.op_register(k_src);
                                let same = ins.op0_kind() == OpKind::Register && r.full_register() == ins.op0_register().full_register();
                                match reg_loc(r) {
                                    Some((p, sh, sw)) if !same => {
                                        let smk = maskw(sw);
                                        regs[p] = (regs[p] & !(smk << sh)) | ((sv & smk) << sh);
                                    }
                                    _ => ok = false,
                                }
                            }
                            OpKind::Memory => {
                                if let Some(a) = ea_of(&regs) { patches.push((a, le(sv, w))); } else { ok = false; }
                            }
                            OpKind::Immediate8 | OpKind::Immediate16 | OpKind::Immediate32 | OpKind::Immediate64
                            | OpKind::Immediate8to16 | OpKind::Immediate8to32 | OpKind::Immediate8to64 | OpKind::Immediate32to64 => {
                                let mut dd = Decoder::with_ip(64, &bytes, code_base, DecoderOptions::NONE);
                                let i0 = dd.decode();
                                let co = dd.get_constant_offsets(&i0);
                                if co.has_immediate() {
                                    let n = co.immediate_size();
                                    // representable (after sign extension) in the immediate field?
                                    let sx = |v: u64, bits: u32| if bits >= 64 { v } else { (((v << (64 - bits)) as i64) >> (64 - bits)) as u64 };
                                    let trunc = sv & maskw(8 * n as u32);
                                    let back = if (n as u32) * 8 < w { sx(trunc, 8 * n as u32) & m } else { trunc & m };
                                    if back == sv & m {
                                        for j in 0..n { bytes[co.immediate_offset() + j] = (trunc >> (8 * j)) as u8; }
                                    }
                                }
                            }
                            _ => {}
                        }
                    }
                }
                if ok {
                    if let Some(p0) = patches.into_iter().next() {
                        mem_patch = Some(p0);
                    }
                }
            }
        }
    }
    // indirect CALL / JMP through memory: put a canonical target into the operand (a random quadword almost never is one, and
    // the CPU then faults where the emulator does not care)
    if mem_patch.is_none() && matches!(ins.mnemonic(), Mnemonic::Call | Mnemonic::Jmp) && has_mem(&ins) {
        if let Some(a) = ea_of(&regs) {
            let t = match rng.below(4) {
                0 => code_base + 0x20,
                1 => 0x7fff_ffff_f000,
                2 => 0x1000_0000 + rng.below(0x1000),
                _ => code_base.wrapping_add(rng.below(0x100)),
            };
            mem_patch = Some((a, (0..8).map(|k| (t >> (8 * k)) as u8).collect()));
        }
    }
    let ea = ea_of(&regs);
    out.push(format!("new {} {:x} {:x}", hex(&bytes), code_base, code_base));
    out.push(dec_line(&bytes, code_base, code_base)?);
    // forms the emulator does not implement are never executed natively (a `mov fs, bx` loads a segment register of the
    // oracle process itself); they are compared between implementation and model only — both refuse them
    {
        static IMPLEMENTED: &str = include_str!("../../inventory/implemented_codes.txt");
        let name = format!("{:?}", ins.code());
        if !IMPLEMENTED.split_whitespace().any(|c| c == name) {
            out.push("nonative".into());
        }
    }
    let mut rv: Vec<String> = regs.iter().map(|r| format!("{:x}", r)).collect();
    rv.push(format!("{:x}", code_base));
    out.push(format!("areaz {:x} {:x} {:x} Stack", stack_base, stack_len, rng.next()));
    let mut window: Option<(u64, u64)> = None;
    if let Some(ea) = ea {
        if place != Place::Unmapped {
            let page = ea & !0xfff;
            let crosses = (ea & 0xfff) + sz > 0x1000;
            let pages: u64 = if crosses && place != Place::Straddle { 2 } else { 1 };
            let len = 0x1000 * pages;
            let collides = |s: u64, l: u64, a: u64, al: u64| s < a.wrapping_add(al) && a < s.wrapping_add(l);
            let ok = page.checked_add(len).is_some()
                && !collides(page, len, code_base & !0xfff, 0x1000)
                && !collides(page, len, stack_base, stack_len);
            if ok {
                // the emulator's unit of mapping is the area: an access may not run from one area into the next, while two
                // adjacent native mappings are one contiguous range. A data area touching the stack or code page would
                // make the comparison about that difference, which C08 sanctions ("runs past the end of its area"):
                // such layouts are compared between implementation and model only
                let cp = code_base & !0xfff;
                if page + len == stack_base || page == stack_base + stack_len || page + len == cp || page == cp + 0x1000 {
                    out.push("nonative".into());
                }
                out.push(format!("areaz {:x} {:x} {:x} data", page, len, rng.next()));
                if let Some((a, b)) = &mem_patch {
                    if *a >= page && a + b.len() as u64 <= page + len {
                        out.push(format!("mwb {:x} {}", a, hex(b)));
                    }
                }
                if place == Place::Ro {
                    // not writable in various ways: read-only data, read+execute (code-like), no access, execute-only; and
                    // the write-only masks. Natively W implies R and X-only pages are readable, so only the masks whose
                    // meaning coincides on both sides are compared with the CPU
                    let mask = *rng.pick(&[1u64, 1, 1, 5, 5, 5, 0, 4, 2, 6]);
                    if matches!(mask, 2 | 4 | 6) {
                        out.push("nonative".into());
                    }
                    out.push(format!("prot {:x} {:x}", page, mask));
                }
                let ws = ea.saturating_sub(16).max(page);
                let we = (ea.saturating_add(sz + 16)).min(page + len);
                if we > ws {
                    window = Some((ws, we - ws));
                }
            }
        }
    }
    if let Some(ea) = ea {
        // natively the whole code page is mapped RWX: an operand in (or reaching into) it cannot be compared with the CPU
        let cp = code_base & !0xfff;
        if class != Class::Lea && ea.wrapping_add(32) >= cp && ea < cp + 0x1000 {
            out.push("nonative".into());
        }
    }
    out.push(format!("setregs {}", rv.join(",")));
    out.push(format!("setflags {:x}", flags));
    if fs != 0 || gs != 0 {
        out.push(format!("setseg fs {:x}", fs));
        out.push(format!("setseg gs {:x}", gs));
    }
    let xv: Vec<String> = (0..16).map(|_| format!("{:x}", ((rng.val() as u128) << 64) | rng.val() as u128)).collect();
    out.push(format!("setxmms {}", xv.join(",")));
    out.push("step".into());
    out.push("regs".into());
    out.push("state".into());
    out.push("xmms".into());
    let sws = regs[4].saturating_sub(32).max(stack_base).min(stack_base + stack_len - 1);
    let swe = (regs[4].saturating_add(48)).min(stack_base + stack_len).max(sws + 1);
    out.push(format!("mrb {:x} {:x}", sws, swe - sws));
    if let Some((s, l)) = window {
        out.push(format!("mrb {:x} {:x}", s, l));
    }
    out.push("areas".into());
    out.push("trace".into());
    Some(())
}

fn regs_adjust(rv: &mut [String], n: usize, delta: u64) {
    let v = u64::from_str_radix(&rv[n], 16).unwrap().wrapping_add(delta);
    rv[n] = format!("{:x}", v);
}

pub fn gen(classes: &[Class], tier: &str, seed: u64, per_code_quick: usize, per_code_thorough: usize, out: &mut Vec<String>) {
    gen_filtered(classes, tier, seed, per_code_quick, per_code_thorough, false, out)
}

pub fn gen_filtered(
    classes: &[Class],
    tier: &str,
    seed: u64,
    per_code_quick: usize,
    per_code_thorough: usize,
    mem_only: bool,
    out: &mut Vec<String>,
) {
    let t = probe(1, if tier == "thorough" { 1_500_000 } else { 400_000 });
    let mut rng = Rng::new(seed ^ 0x1257);
    let per = if tier == "thorough" { per_code_thorough } else { per_code_quick };
    for (code, temps) in t.by_code.iter() {
        let ins = {
            let mut d = Decoder::with_ip(64, &temps[0], CODE, DecoderOptions::NONE);
            d.decode()
        };
        if !classes.contains(&class_of(ins.mnemonic())) {
            continue;
        }
        let _ = code;
        let temps: Vec<Vec<u8>> = if mem_only && class_of(ins.mnemonic()) != Class::Lea {
            temps
                .iter()
                .filter(|t| {
                    let mut d = Decoder::with_ip(64, t, CODE, DecoderOptions::NONE);
                    has_mem(&d.decode())
                })
                .cloned()
                .collect()
        } else {
            temps.clone()
        };
        if temps.is_empty() {
            continue;
        }
        // memory operands come in dozens of shapes (base/index/scale/displacement size/segment), register operands in one:
        // picking uniformly over templates would leave the register forms — the bulk of real code — with a few percent
        let reg_temps: Vec<Vec<u8>> = temps
            .iter()
            .filter(|t| {
                let mut d = Decoder::with_ip(64, t, CODE, DecoderOptions::NONE);
                !has_mem(&d.decode())
            })
            .cloned()
            .collect();
        // the few forms with a 16-byte memory operand (the only accesses wider than a machine word) get their share of the
        // placements — straddling, misaligned, not writable — by count
        let wide = temps.iter().any(|t| {
            let mut d = Decoder::with_ip(64, t, CODE, DecoderOptions::NONE);
            let i = d.decode();
            has_mem(&i) && mem_size(&i) == 16
        });
        for _ in 0..(if wide { 8 * per } else { per }) {
            let tpl = if !reg_temps.is_empty() && rng.chance(2, 5) { rng.pick(&reg_temps).clone() } else { rng.pick(&temps).clone() };
            let _ = emit_case(&mut rng, &tpl, out, true);
        }
    }
    // a second pass over *addressing shapes*: every combination of base / index / scale / displacement size / segment /
    // RIP-relative / 32-bit addressing that the probe found gets its own cases, whatever instruction carries it — a form that
    // is one of dozens per instruction (index without base under 0x67, say) would otherwise appear a handful of times
    let mut by_shape: BTreeMap<String, Vec<Vec<u8>>> = BTreeMap::new();
    for temps in t.by_code.values() {
        for tpl in temps {
            let mut d = Decoder::with_ip(64, tpl, CODE, DecoderOptions::NONE);
            let ins = d.decode();
            if !has_mem(&ins) || !classes.contains(&class_of(ins.mnemonic())) {
                continue;
            }
            by_shape.entry(addr_shape_key(&ins)).or_default().push(tpl.clone());
        }
    }
    let per_shape = if tier == "thorough" { (per / 2).clamp(8, 40) } else { 2 * per.clamp(1, 3) };
    for temps in by_shape.values() {
        for _ in 0..per_shape {
            let tpl = rng.pick(temps).clone();
            let _ = emit_case(&mut rng, &tpl, out, true);
        }
    }
}

fn addr_shape_key(ins: &Instruction) -> String {
    format!(
        "{:?}{:?}{}{}{:?}{}{}",
        ins.memory_base() != Register::None,
        ins.memory_index() != Register::None,
        ins.memory_index_scale(),
        ins.memory_displ_size(),
        ins.segment_prefix(),
        ins.memory_base() == Register::RIP || ins.memory_base() == Register::EIP,
        ins.memory_base().is_gpr32() || ins.memory_index().is_gpr32() || ins.memory_base() == Register::EIP
    )
}

#[allow(dead_code)]
pub fn code_from_name(_s: &str) -> Option<Code> {
    None
}
