//! Shared helpers: PRNG, future driver, hex, register tables.
use ax_x86::state::registers::SupportedRegister as R;
use std::future::Future;
use std::pin::Pin;
use std::task::{Context, Poll, RawWaker, RawWakerVTable, Waker};

fn noop_waker() -> Waker {
    fn clone(_: *const ()) -> RawWaker {
        RawWaker::new(std::ptr::null(), &VT)
    }
    fn noop(_: *const ()) {}
    static VT: RawWakerVTable = RawWakerVTable::new(clone, noop, noop, noop);
    unsafe { Waker::from_raw(RawWaker::new(std::ptr::null(), &VT)) }
}

/// Drive a future that never really suspends (native hooks are synchronous).
pub fn block_on<F: Future>(mut f: F) -> F::Output {
    let w = noop_waker();
    let mut cx = Context::from_waker(&w);
    let mut f = unsafe { Pin::new_unchecked(&mut f) };
    loop {
        if let Poll::Ready(v) = f.as_mut().poll(&mut cx) {
            return v;
        }
    }
}

/// splitmix64; every random choice of a run derives from one seed.
#[derive(Clone)]
pub struct Rng(pub u64);
impl Rng {
    pub fn new(seed: u64) -> Self {
        Rng(seed.wrapping_mul(0x9E3779B97F4A7C15) ^ 0xD1B54A32D192ED03)
    }
    pub fn next(&mut self) -> u64 {
        self.0 = self.0.wrapping_add(0x9E3779B97F4A7C15);
        let mut z = self.0;
        z = (z ^ (z >> 30)).wrapping_mul(0xBF58476D1CE4E5B9);
        z = (z ^ (z >> 27)).wrapping_mul(0x94D049BB133111EB);
        z ^ (z >> 31)
    }
    pub fn below(&mut self, n: u64) -> u64 {
        if n == 0 {
            0
        } else {
            self.next() % n
        }
    }
    pub fn chance(&mut self, num: u64, den: u64) -> bool {
        self.below(den) < num
    }
    pub fn pick<'a, T>(&mut self, xs: &'a [T]) -> &'a T {
        &xs[self.below(xs.len() as u64) as usize]
    }
    /// boundary-biased 64-bit value
    pub fn val(&mut self) -> u64 {
        match self.below(14) {
            0 => 0,
            1 => 1,
            2 => u64::MAX,
            3 => 1u64 << self.below(64),
            4 => (1u64 << self.below(64)).wrapping_sub(1),
            5 => (1u64 << self.below(64)).wrapping_add(1),
            6 => 0x8000_0000_0000_0000u64 >> (8 * self.below(8)),
            7 => (0x8000_0000_0000_0000u64 >> (8 * self.below(8))).wrapping_sub(1),
            8 => self.next() & 0xff,
            9 => self.next() & 0xffff,
            10 => self.next() & 0xffff_ffff,
            11 => !(self.next() & 0xffff),
            _ => self.next(),
        }
    }
    /// boundary-biased value for a `w`-bit quantity (w in 8,16,32,64)
    pub fn val_w(&mut self, w: u32) -> u64 {
        let m = if w >= 64 { u64::MAX } else { (1u64 << w) - 1 };
        let v = match self.below(10) {
            0 => 0,
            1 => 1,
            2 => m,
            3 => m >> 1,
            4 => (m >> 1) + 1,
            5 => 1u64 << self.below(w as u64),
            6 => (1u64 << self.below(w as u64)).wrapping_sub(1),
            7 => m - self.below(4),
            _ => self.next(),
        };
        v & m
    }
}

pub fn hex(b: &[u8]) -> String {
    if b.is_empty() {
        return "-".to_string();
    }
    let mut s = String::with_capacity(b.len() * 2);
    for x in b {
        s.push_str(&format!("{:02x}", x));
    }
    s
}

pub fn unhex(s: &str) -> Option<Vec<u8>> {
    if s == "-" {
        return Some(vec![]);
    }
    if s.len() % 2 != 0 {
        return None;
    }
    (0..s.len() / 2)
        .map(|i| u8::from_str_radix(&s[2 * i..2 * i + 2], 16).ok())
        .collect()
}

pub fn parse_hex(s: &str) -> Option<u64> {
    u64::from_str_radix(s, 16).ok()
}
pub fn parse_hex128(s: &str) -> Option<u128> {
    u128::from_str_radix(s, 16).ok()
}

/// 16 GPRs in hardware encoding order.
pub const GPR64: [R; 16] = [
    R::RAX, R::RCX, R::RDX, R::RBX, R::RSP, R::RBP, R::RSI, R::RDI, R::R8, R::R9, R::R10, R::R11,
    R::R12, R::R13, R::R14, R::R15,
];
pub const GPR32: [R; 16] = [
    R::EAX, R::ECX, R::EDX, R::EBX, R::ESP, R::EBP, R::ESI, R::EDI, R::R8D, R::R9D, R::R10D,
    R::R11D, R::R12D, R::R13D, R::R14D, R::R15D,
];
pub const GPR16: [R; 16] = [
    R::AX, R::CX, R::DX, R::BX, R::SP, R::BP, R::SI, R::DI, R::R8W, R::R9W, R::R10W, R::R11W,
    R::R12W, R::R13W, R::R14W, R::R15W,
];
pub const GPR8: [R; 16] = [
    R::AL, R::CL, R::DL, R::BL, R::SPL, R::BPL, R::SIL, R::DIL, R::R8L, R::R9L, R::R10L, R::R11L,
    R::R12L, R::R13L, R::R14L, R::R15L,
];
pub const GPR8H: [R; 4] = [R::AH, R::CH, R::DH, R::BH];
pub const XMM: [R; 16] = [
    R::XMM0, R::XMM1, R::XMM2, R::XMM3, R::XMM4, R::XMM5, R::XMM6, R::XMM7, R::XMM8, R::XMM9,
    R::XMM10, R::XMM11, R::XMM12, R::XMM13, R::XMM14, R::XMM15,
];

pub fn all_regs() -> Vec<R> {
    let mut v = vec![R::RIP, R::EIP];
    v.extend(GPR64);
    v.extend(GPR32);
    v.extend(GPR16);
    v.extend(GPR8);
    v.extend(GPR8H);
    v.extend(XMM);
    v
}

/// The 68 GPR views.
pub fn all_views() -> Vec<(R, u32)> {
    let mut v = vec![];
    for r in GPR64 {
        v.push((r, 64));
    }
    for r in GPR32 {
        v.push((r, 32));
    }
    for r in GPR16 {
        v.push((r, 16));
    }
    for r in GPR8 {
        v.push((r, 8));
    }
    for r in GPR8H {
        v.push((r, 8));
    }
    v
}

pub fn reg_by_name(s: &str) -> Option<R> {
    all_regs().into_iter().find(|r| format!("{:?}", r) == s)
}

/// deterministic filler for large areas (same generator in the Lean driver and the native oracle)
pub fn lcg_bytes(seed: u64, n: usize) -> Vec<u8> {
    let mut x = seed;
    let mut v = Vec::with_capacity(n);
    for _ in 0..n {
        x = x.wrapping_mul(6364136223846793005).wrapping_add(1442695040888963407);
        v.push((x >> 56) as u8);
    }
    v
}
