//! `axh exec`: read protocol commands from stdin, run them against the real ax code, print one
//! output line per command (same vocabulary as the Lean driver).
use crate::util::*;
use ax_x86::axecutor::Axecutor;
use std::io::{BufRead, Write};
use std::panic::{catch_unwind, AssertUnwindSafe};

pub struct Session {
    pub ax: Option<Axecutor>,
}

fn res_unit<E>(r: Result<(), E>) -> String {
    match r {
        Ok(()) => "ok".into(),
        Err(_) => "err".into(),
    }
}

impl Session {
    pub fn new() -> Self {
        Session { ax: None }
    }

    fn ax(&mut self) -> &mut Axecutor {
        self.ax.as_mut().expect("no machine: missing `new`")
    }

    /// Execute one command; a panic inside ax is reported as "panic".
    pub fn run(&mut self, line: &str) -> String {
        let ws: Vec<&str> = line.split_whitespace().collect();
        match catch_unwind(AssertUnwindSafe(|| self.dispatch(&ws))) {
            Ok(Some(s)) => s,
            Ok(None) => "bad-op".into(),
            Err(_) => "panic".into(),
        }
    }

    fn dispatch(&mut self, ws: &[&str]) -> Option<String> {
        match ws {
            ["new"] => {
                let ax = Axecutor::new(&[0x90], 0x1000, 0x1000).ok()?;
                self.ax = Some(ax);
                Some("-".into())
            }
            ["setregs", v] => {
                let vals: Option<Vec<u64>> = v.split(',').map(parse_hex).collect();
                let vals = vals?;
                if vals.len() != 17 {
                    return None;
                }
                for (i, r) in GPR64.iter().enumerate() {
                    self.ax().reg_write_64(*r, vals[i]).ok()?;
                }
                self.ax()
                    .reg_write_64(ax_x86::state::registers::SupportedRegister::RIP, vals[16])
                    .ok()?;
                Some("-".into())
            }
            ["rw", w, r, v] => {
                let r = reg_by_name(r)?;
                let v = parse_hex(v)?;
                let ax = self.ax();
                Some(match *w {
                    "8" => res_unit(ax.reg_write_8(r, v)),
                    "16" => res_unit(ax.reg_write_16(r, v)),
                    "32" => res_unit(ax.reg_write_32(r, v)),
                    "64" => res_unit(ax.reg_write_64(r, v)),
                    _ => return None,
                })
            }
            ["rr", w, r] => {
                let r = reg_by_name(r)?;
                let ax = self.ax();
                let res = match *w {
                    "8" => ax.reg_read_8(r),
                    "16" => ax.reg_read_16(r),
                    "32" => ax.reg_read_32(r),
                    "64" => ax.reg_read_64(r),
                    _ => return None,
                };
                Some(match res {
                    Ok(v) => format!("ok {:x}", v),
                    Err(_) => "err".into(),
                })
            }
            ["regs"] => {
                let ax = self.ax();
                let mut s = String::new();
                for r in GPR64.iter() {
                    s.push_str(&format!("{:x} ", ax.reg_read_64(*r).ok()?));
                }
                s.push_str(&format!(
                    "{:x}",
                    ax.reg_read_64(ax_x86::state::registers::SupportedRegister::RIP)
                        .ok()?
                ));
                Some(s)
            }
            _ => None,
        }
    }
}

pub fn main_exec() {
    std::panic::set_hook(Box::new(|_| {}));
    let stdin = std::io::stdin();
    let stdout = std::io::stdout();
    let mut out = std::io::BufWriter::new(stdout.lock());
    let mut sess = Session::new();
    for line in stdin.lock().lines() {
        let line = line.unwrap();
        let o = sess.run(&line);
        writeln!(out, "{}", o).unwrap();
        out.flush().unwrap();
    }
    out.flush().unwrap();
}
