//! `axh exec`: read protocol commands from stdin, run them against the real ax code, print one
//! output line per command (same vocabulary as the Lean driver).
use crate::util::*;
use ax_x86::auto::generated::SupportedMnemonic;
use ax_x86::axecutor::Axecutor;
use ax_x86::helpers::errors::AxError;
use ax_x86::helpers::syscalls::Syscall;
use ax_x86::state::hooks::HookResult;
use ax_x86::state::registers::SupportedRegister as SR;
use std::cell::RefCell;
use std::convert::TryFrom;

thread_local! {
    /// event log written by the scripted hooks
    static HOOK_LOG: RefCell<Vec<String>> = RefCell::new(Vec::new());
    /// callbacks created by `hook`, by id: `hookdup` registers the *same* reference again (tracer pattern: one callback for
    /// both phases / several mnemonics / registered twice)
    static HOOK_CBS: RefCell<std::collections::HashMap<String, &'static (dyn Fn(&mut Axecutor, SupportedMnemonic) -> Result<HookResult, Box<dyn std::error::Error>>)>> = RefCell::new(std::collections::HashMap::new());
}

fn mnemonic_by_name(s: &str) -> Option<SupportedMnemonic> {
    for m in iced_x86::Mnemonic::values() {
        if format!("{:?}", m) == s {
            return std::panic::catch_unwind(|| SupportedMnemonic::try_from(m).ok()).ok().flatten();
        }
    }
    None
}

fn step_str(r: Result<bool, AxError>) -> String {
    match r {
        Ok(true) => "ok 1".into(),
        Ok(false) => "ok 0".into(),
        Err(e) => err_out(&e),
    }
}
use std::io::{BufRead, Write};
use std::panic::{catch_unwind, AssertUnwindSafe};

pub struct Session {
    pub ax: Option<Axecutor>,
    /// did the last `step` succeed? (`rrok` / `xmmok` observe a written register only then)
    pub last_step_ok: bool,
}

fn name_opt(s: &str) -> Option<String> {
    if s == "~" {
        None
    } else {
        Some(s.to_string())
    }
}

/// What the `elf` crate (third-party, not modelled) says about a file, in the terms `from_binary` uses:
///   P                          minimal_parse failed
///   E<entry>;N                 no program headers
///   E<entry>;S<type>,<flags>,<offset>,<vaddr>,<filesz>,<memsz>;…;(T|U)[;Y<value>,<undef>,<name hex | !>…]
/// (T: a symbol table was found, U: none / error)
pub fn elf_view(bytes: &[u8]) -> String {
    use elf::endian::AnyEndian;
    use elf::ElfBytes;
    let file = match ElfBytes::<AnyEndian>::minimal_parse(bytes) {
        Ok(f) => f,
        Err(_) => return "P".into(),
    };
    let mut out = format!("E{:x}", file.ehdr.e_entry);
    let segs = match file.segments() {
        Some(s) => s,
        None => return out + ";N",
    };
    for s in segs {
        out.push_str(&format!(";S{:x},{:x},{:x},{:x},{:x},{:x}", s.p_type, s.p_flags, s.p_offset, s.p_vaddr, s.p_filesz, s.p_memsz));
    }
    match file.symbol_table() {
        Ok(Some((symtab, strtab))) => {
            out.push_str(";T");
            for sym in symtab.iter() {
                let name = match strtab.get(sym.st_name as usize) {
                    Ok(n) => {
                        if n.is_empty() {
                            "-".to_string()
                        } else {
                            hex(n.as_bytes())
                        }
                    }
                    Err(_) => "!".into(),
                };
                out.push_str(&format!(";Y{:x},{},{}", sym.st_value, if sym.is_undefined() { 1 } else { 0 }, name));
            }
        }
        _ => out.push_str(";U"),
    }
    out
}

pub fn fnv64(b: &[u8]) -> u64 {
    let mut h: u64 = 0xcbf29ce484222325;
    for x in b {
        h = (h ^ (*x as u64)).wrapping_mul(0x100000001b3);
    }
    h
}

/// with `errtext on` every error line carries a hash of the error's text (C20 compares texts between runs)
pub static ERRTEXT: std::sync::atomic::AtomicBool = std::sync::atomic::AtomicBool::new(false);

pub fn err_out<E: std::fmt::Display>(e: &E) -> String {
    if ERRTEXT.load(std::sync::atomic::Ordering::Relaxed) {
        let text = format!("{}", e);
        if std::env::var("AXH_ERRFULL").is_ok() {
            eprintln!("ERRTEXT {:016x}: {}", fnv64(text.as_bytes()), text.replace('\n', " | "));
        }
        format!("err msg={:016x}", fnv64(text.as_bytes()))
    } else {
        "err".into()
    }
}

fn res_unit<E: std::fmt::Display>(r: Result<(), E>) -> String {
    match r {
        Ok(()) => "ok".into(),
        Err(e) => err_out(&e),
    }
}

impl Session {
    pub fn new() -> Self {
        Session { ax: None, last_step_ok: false }
    }

    fn ax(&mut self) -> &mut Axecutor {
        self.ax.as_mut().expect("no machine: missing `new`")
    }

    /// `raw`: leave the constructor's random register values in place (C20 observes that they do not matter);
    /// otherwise all general purpose and XMM registers are written with zero through the public API, which is what the
    /// model starts from — so that a case stays meaningful when the shrinker drops its explicit register set-up.
    fn do_new(&mut self, code: &[u8], start: u64, rip: u64, raw: bool) -> String {
        HOOK_LOG.with(|l| l.borrow_mut().clear());
        match Axecutor::new(code, start, rip) {
            Ok(mut ax) => {
                if !raw {
                    for r in all_regs() {
                        let name = format!("{:?}", r);
                        if name.starts_with("XMM") {
                            let _ = ax.reg_write_128(r, 0);
                        } else if name != "RIP" && name != "EIP" && ax.reg_read_64(r).is_ok() {
                            let _ = ax.reg_write_64(r, 0);
                        }
                    }
                }
                self.ax = Some(ax);
                "ok".into()
            }
            Err(e) => err_out(&e),
        }
    }

    /// Execute one command; a panic inside ax is reported as "panic".
    pub fn run(&mut self, line: &str) -> String {
        let ws: Vec<&str> = line.split_whitespace().collect();
        match catch_unwind(AssertUnwindSafe(|| self.dispatch(&ws))) {
            Ok(Some(s)) => s,
            Ok(None) => "bad-op".into(),
            Err(_) => "panic".into(),
        }
    }

    fn dispatch(&mut self, ws: &[&str]) -> Option<String> {
        match ws {
            ["new"] => Some(self.do_new(&[0x90], 0x1000, 0x1000, false)),
            ["newraw", code, start, rip] => {
                let code = unhex(code)?;
                let start = parse_hex(start)?;
                let rip = parse_hex(rip)?;
                Some(self.do_new(&code, start, rip, true))
            }
            ["errtext", v] => {
                ERRTEXT.store(*v == "on", std::sync::atomic::Ordering::Relaxed);
                Some("-".into())
            }
            ["new", code, start, rip] => {
                let code = unhex(code)?;
                let start = parse_hex(start)?;
                let rip = parse_hex(rip)?;
                Some(self.do_new(&code, start, rip, false))
            }
            ["setregs", v] => {
                let vals: Option<Vec<u64>> = v.split(',').map(parse_hex).collect();
                let vals = vals?;
                if vals.len() != 17 {
                    return None;
                }
                for (i, r) in GPR64.iter().enumerate() {
                    self.ax().reg_write_64(*r, vals[i]).ok()?;
                }
                self.ax()
                    .reg_write_64(ax_x86::state::registers::SupportedRegister::RIP, vals[16])
                    .ok()?;
                Some("-".into())
            }
            ["rw", w, r, v] => {
                let r = reg_by_name(r)?;
                let v = parse_hex(v)?;
                let ax = self.ax();
                Some(match *w {
                    "8" => res_unit(ax.reg_write_8(r, v)),
                    "16" => res_unit(ax.reg_write_16(r, v)),
                    "32" => res_unit(ax.reg_write_32(r, v)),
                    "64" => res_unit(ax.reg_write_64(r, v)),
                    _ => return None,
                })
            }
            ["rr", w, r] => {
                let r = reg_by_name(r)?;
                let ax = self.ax();
                let res = match *w {
                    "8" => ax.reg_read_8(r),
                    "16" => ax.reg_read_16(r),
                    "32" => ax.reg_read_32(r),
                    "64" => ax.reg_read_64(r),
                    _ => return None,
                };
                Some(match res {
                    Ok(v) => format!("ok {:x}", v),
                    Err(e) => err_out(&e),
                })
            }
            ["mrb", a, n] => {
                let (a, n) = (parse_hex(a)?, parse_hex(n)?);
                Some(match self.ax().mem_read_bytes(a, n) {
                    Ok(b) => format!("ok {}", hex(&b)),
                    Err(e) => err_out(&e),
                })
            }
            ["mwb", a, d] => {
                let (a, d) = (parse_hex(a)?, unhex(d)?);
                Some(res_unit(self.ax().mem_write_bytes(a, &d)))
            }
            ["mr", n, a] => {
                let a = parse_hex(a)?;
                let ax = self.ax();
                let r: Result<u128, _> = match *n {
                    "1" => ax.mem_read_8(a).map(|v| v as u128),
                    "2" => ax.mem_read_16(a).map(|v| v as u128),
                    "4" => ax.mem_read_32(a).map(|v| v as u128),
                    "8" => ax.mem_read_64(a).map(|v| v as u128),
                    "16" => ax.mem_read_128(a),
                    _ => return None,
                };
                Some(match r {
                    Ok(v) => format!("ok {:x}", v),
                    Err(e) => err_out(&e),
                })
            }
            ["mw", n, a, v] => {
                let a = parse_hex(a)?;
                let v = parse_hex128(v)?;
                let ax = self.ax();
                if *n != "16" && v > u64::MAX as u128 {
                    return None;
                }
                Some(res_unit(match *n {
                    "1" => ax.mem_write_8(a, v as u64),
                    "2" => ax.mem_write_16(a, v as u64),
                    "4" => ax.mem_write_32(a, v as u64),
                    "8" => ax.mem_write_64(a, v as u64),
                    "16" => ax.mem_write_128(a, v),
                    _ => return None,
                }))
            }
            ["mrx", a] => {
                let a = parse_hex(a)?;
                Some(match self.ax().verif_fetch_bytes(a) {
                    Ok(b) => format!("ok {}", hex(&b)),
                    Err(e) => err_out(&e),
                })
            }
            ["area", s, d, nm] => {
                let (s, d) = (parse_hex(s)?, unhex(d)?);
                // (the unnamed variant goes through the public wrapper it has)
                Some(res_unit(match name_opt(nm) {
                    Some(name) => self.ax().mem_init_area_named(s, d, Some(name)),
                    None => self.ax().mem_init_area(s, d),
                }))
            }
            ["areaz", s, n, seed, nm] => {
                let (s, n, seed) = (parse_hex(s)?, parse_hex(n)?, parse_hex(seed)?);
                let d = lcg_bytes(seed, n as usize);
                Some(res_unit(self.ax().mem_init_area_named(s, d, name_opt(nm))))
            }
            ["zero", s, n, nm] => {
                let (s, n) = (parse_hex(s)?, parse_hex(n)?);
                Some(res_unit(match name_opt(nm) {
                    Some(name) => self.ax().mem_init_zero_named(s, n, name),
                    None => self.ax().mem_init_zero(s, n),
                }))
            }
            ["prot", s, p] => {
                let (s, p) = (parse_hex(s)?, parse_hex(p)?);
                Some(res_unit(self.ax().mem_prot(s, p as u32)))
            }
            ["resize", s, n] => {
                let (s, n) = (parse_hex(s)?, parse_hex(n)?);
                Some(res_unit(self.ax().mem_resize_section(s, n)))
            }
            ["anyz", n] => {
                let n = parse_hex(n)?;
                Some(match self.ax().mem_init_zero_anywhere(n) {
                    Ok(a) => format!("ok {:x}", a),
                    Err(e) => err_out(&e),
                })
            }
            ["any", d, nm] => {
                let d = unhex(d)?;
                Some(match self.ax().mem_init_anywhere(d, name_opt(nm)) {
                    Ok(a) => format!("ok {:x}", a),
                    Err(e) => err_out(&e),
                })
            }
            ["areas"] => {
                // (digests computed in place: the contents are not copied)
                let v = self.ax().verif_area_digests();
                if v.is_empty() {
                    return Some("none".into());
                }
                Some(
                    v.iter()
                        .map(|a| format!("{},{:x},{:x},{},{:x},{:x}", a.0.clone().unwrap_or("~".into()), a.1, a.2, a.3, a.4, a.5))
                        .collect::<Vec<_>>()
                        .join(" "),
                )
            }
            ["elfload", file] => {
                let bytes = unhex(file)?;
                let view = elf_view(&bytes);
                HOOK_LOG.with(|l| l.borrow_mut().clear());
                let r = Axecutor::from_binary(&bytes);
                Some(match r {
                    Ok(ax) => {
                        self.ax = Some(ax);
                        format!("ok @view={}", view)
                    }
                    Err(e) => format!("{} @view={}", err_out(&e), view),
                })
            }
            ["perm", a] => {
                let a = parse_hex(a)?;
                let v = self.ax().verif_areas();
                Some(match v.iter().find(|ar| ar.start <= a && a - ar.start < ar.length) {
                    Some(ar) => format!("{:x}", ar.access),
                    None => "none".into(),
                })
            }
            ["sym", a] => {
                let a = parse_hex(a)?;
                Some(match self.ax().resolve_symbol(a) {
                    Some(n) => format!("some {}", hex(n.as_bytes())),
                    None => "none".into(),
                })
            }
            ["symcount"] => Some(format!("{:x}", self.ax().verif_symbols().len())),
            ["dec", ..] => Some("-".into()),
            ["nonative"] => Some("-".into()),
            ["nomodel"] => Some("-".into()),
            ["step"] => {
                let before = self.ax().verif_pipes();
                let r = step_str(block_on(self.ax().step()));
                self.last_step_ok = r.starts_with("ok");
                // feedback for the model: descriptor numbers handed out by a pipe() call in this step
                let after = self.ax().verif_pipes();
                let newp: Vec<_> = after.iter().filter(|p| !before.iter().any(|q| q.0 == p.0)).collect();
                if newp.len() == 1 {
                    Some(format!("{} @fds={:x},{:x}", r, newp[0].0, newp[0].1))
                } else {
                    Some(r)
                }
            }
            ["execute", _fuel] => Some(match block_on(self.ax().execute()) {
                Ok(()) => "ok".into(),
                Err(e) => err_out(&e),
            }),
            ["maxinstr", n] => {
                let n = parse_hex(n)?;
                self.ax().set_max_instructions(n);
                Some("-".into())
            }
            ["setflags", v] => {
                let v = parse_hex(v)?;
                self.ax().verif_set_rflags(v);
                Some("-".into())
            }
            ["setseg", which, v] => {
                let v = parse_hex(v)?;
                match *which {
                    "fs" => self.ax().write_fs(v),
                    "gs" => self.ax().write_gs(v),
                    _ => return None,
                }
                Some("-".into())
            }
            ["setxmm", i, v] => {
                let i: usize = i.parse().ok()?;
                let v = parse_hex128(v)?;
                self.ax().reg_write_128(XMM[i], v).ok()?;
                Some("-".into())
            }
            ["setxmms", v] => {
                let vals: Option<Vec<u128>> = v.split(',').map(parse_hex128).collect();
                let vals = vals?;
                if vals.len() != 16 {
                    return None;
                }
                for (i, x) in vals.iter().enumerate() {
                    self.ax().reg_write_128(XMM[i], *x).ok()?;
                }
                Some("-".into())
            }
            ["rrok", w, r] => {
                // a register the instruction *writes* is observed only if the instruction completed (a failed one leaves it alone)
                if !self.last_step_ok {
                    return Some("step-failed".into());
                }
                let r = reg_by_name(r)?;
                let ax = self.ax();
                let res = match *w {
                    "8" => ax.reg_read_8(r),
                    "16" => ax.reg_read_16(r),
                    "32" => ax.reg_read_32(r),
                    "64" => ax.reg_read_64(r),
                    _ => return None,
                };
                Some(match res {
                    Ok(v) => format!("ok {:x}", v),
                    Err(e) => err_out(&e),
                })
            }
            ["xmmok", i] => {
                if !self.last_step_ok {
                    return Some("step-failed".into());
                }
                let i: usize = i.parse().ok()?;
                Some(format!("{:x}", self.ax().reg_read_128(*XMM.get(i)?).ok()?))
            }
            ["xmm", i] => {
                let i: usize = i.parse().ok()?;
                Some(format!("{:x}", self.ax().reg_read_128(*XMM.get(i)?).ok()?))
            }
            ["xmms"] => {
                let ax = self.ax();
                let v: Vec<String> = XMM.iter().map(|r| format!("{:x}", ax.reg_read_128(*r).unwrap())).collect();
                Some(v.join(" "))
            }
            ["state"] => {
                let ax = self.ax();
                Some(format!(
                    "fin={} count={} rip={:x} flags={:x} codeend={:x} stacktop={:x} running={} fs={:x} gs={:x}",
                    ax.verif_finished() as u8,
                    ax.verif_executed_instructions_count(),
                    ax.reg_read_64(SR::RIP).ok()?,
                    ax.verif_rflags(),
                    ax.verif_code_end_addr(),
                    ax.verif_stack_top(),
                    ax.verif_hooks_running() as u8,
                    ax.read_fs(),
                    ax.read_gs()
                ))
            }
            ["trace"] => {
                let t = self.ax().verif_trace();
                if t.is_empty() {
                    return Some("none".into());
                }
                Some(
                    t.iter()
                        .map(|e| format!("{:x},{:x},{},{},{}", e.0, e.1, ["c", "r", "j"][e.2 as usize], e.3, e.4))
                        .collect::<Vec<_>>()
                        .join(" "),
                )
            }
            ["tracetail", n] => {
                // the number of entries and the last n of them (deep histories: the whole trace would be megabytes)
                let n = parse_hex(n)? as usize;
                let t = self.ax().verif_trace();
                let tail: Vec<String> = t.iter().skip(t.len().saturating_sub(n))
                    .map(|e| format!("{:x},{:x},{},{},{}", e.0, e.1, ["c", "r", "j"][e.2 as usize], e.3, e.4)).collect();
                Some(format!("{} {}", t.len(), tail.join(" ")))
            }
            ["callstack"] => {
                let c = self.ax().verif_call_stack();
                if c.is_empty() {
                    return Some("none".into());
                }
                Some(c.iter().map(|a| format!("{:x}", a)).collect::<Vec<_>>().join(" "))
            }
            ["render"] => {
                // the three renderers must return (Ok or Err) whatever the program did
                let ax = self.ax();
                let t = ax.trace();
                let c = ax.call_stack();
                let _ = ax.to_string();
                // "never fails": a renderer that returns Err has failed as much as one that panics
                let status = format!("t={} c={}", if t.is_ok() { "ok" } else { "err" }, if c.is_ok() { "ok" } else { "err" });
                if ERRTEXT.load(std::sync::atomic::Ordering::Relaxed) {
                    // C20: the rendered trace and call stack (symbol names, order, indentation) must not vary between runs;
                    // to_string() prints every register, written or not, and is only exercised
                    let text = format!("{:?}|{:?}", t.map_err(|e| e.to_string()), c.map_err(|e| e.to_string()));
                    Some(format!("ok {} msg={:016x}", status, fnv64(text.as_bytes())))
                } else {
                    Some(format!("ok {}", status))
                }
            }
            ["log"] => HOOK_LOG.with(|l| {
                let l = l.borrow();
                Some(if l.is_empty() { "none".to_string() } else { l.join(" ") })
            }),
            ["hook", phase, mn, id, outcome, edit] => {
                let m = mnemonic_by_name(mn)?;
                let id = id.to_string();
                let id_key = id.clone();
                let phase_s = phase.to_string();
                let outcome = outcome.to_string();
                let edit: Option<(SR, u64)> = match edit.split_once('=') {
                    Some((r, v)) => Some((reg_by_name(r)?, parse_hex(v)?)),
                    None => None,
                };
                let cb: Box<dyn Fn(&mut Axecutor, SupportedMnemonic) -> Result<HookResult, Box<dyn std::error::Error>>> =
                    Box::new(move |ax: &mut Axecutor, _| {
                        let rip = ax.reg_read_64(SR::RIP)?;
                        // "tryreg": the hook itself tries to register (a built-in syscall handler and a mnemonic hook); both must be
                        // refused while a hook runs, and a refused call must not leave anything behind
                        // "stoptryreg": stop first, then try to register — stopping does not end the hook
                        if outcome == "stoptryreg" {
                            ax.stop();
                        }
                        let suffix = if outcome == "tryreg" || outcome == "stoptryreg" {
                            fn noop(_: &mut Axecutor, _: SupportedMnemonic) -> Result<HookResult, Box<dyn std::error::Error>> {
                                Ok(HookResult::Unhandled)
                            }
                            let r1 = ax.handle_syscalls(vec![Syscall::Exit]).is_err();
                            let r2 = ax.hook_before_mnemonic_native(SupportedMnemonic::Nop, &noop).is_err();
                            // … also for the mnemonics whose instructions ask "is there any hook at all"
                            let r3 = ax.hook_before_mnemonic_native(SupportedMnemonic::Syscall, &noop).is_err()
                                & ax.hook_after_mnemonic_native(SupportedMnemonic::Int3, &noop).is_err()
                                & ax.hook_before_mnemonic_native(SupportedMnemonic::Int, &noop).is_err()
                                & ax.hook_after_mnemonic_native(SupportedMnemonic::Int1, &noop).is_err();
                            format!(":rej{}{}", r1 as u8, (r2 & r3) as u8)
                        } else {
                            String::new()
                        };
                        HOOK_LOG.with(|l| {
                            l.borrow_mut().push(format!(
                                "{}:{}:{:x}:{}:{}{}",
                                id,
                                phase_s,
                                rip,
                                ax.verif_executed_instructions_count(),
                                ax.verif_hooks_running() as u8,
                                suffix
                            ))
                        });
                        if let Some((r, v)) = edit {
                            ax.reg_write_64(r, v)?;
                        }
                        match outcome.as_str() {
                            "error" => Err(AxError::from("scripted hook error").into()),
                            // an error whose text is empty is still an error
                            "errorempty" => Err("".into()),
                            "stoperror" => {
                                ax.stop();
                                Err(AxError::from("scripted hook error after stop").into())
                            }
                            "handled" => Ok(HookResult::Handled),
                            "stop" => {
                                ax.stop();
                                Ok(HookResult::Unhandled)
                            }
                            "stophandled" => {
                                ax.stop();
                                Ok(HookResult::Handled)
                            }
                            _ => Ok(HookResult::Unhandled),
                        }
                    });
                let cb: &'static _ = Box::leak(cb);
                HOOK_CBS.with(|m| m.borrow_mut().insert(id_key, cb));
                let ax = self.ax();
                Some(res_unit(match *phase {
                    "before" => ax.hook_before_mnemonic_native(m, cb),
                    "after" => ax.hook_after_mnemonic_native(m, cb),
                    _ => return None,
                }))
            }
            ["hookdup", phase, mn, id, _label, _outcome, _edit] => {
                // the same callback reference as the earlier `hook … <id> …` line, registered once more
                let m = mnemonic_by_name(mn)?;
                let cb = HOOK_CBS.with(|c| c.borrow().get(*id).copied())?;
                let ax = self.ax();
                Some(res_unit(match *phase {
                    "before" => ax.hook_before_mnemonic_native(m, cb),
                    "after" => ax.hook_after_mnemonic_native(m, cb),
                    _ => return None,
                }))
            }
            ["syscalls", l] => {
                let mut v = vec![];
                for n in l.split(',') {
                    v.push(match n {
                        "12" => Syscall::Brk,
                        "22" => Syscall::Pipe,
                        "60" => Syscall::Exit,
                        "158" => Syscall::ArchPrctl,
                        _ => return None,
                    });
                }
                Some(res_unit(self.ax().handle_syscalls(v)))
            }
            ["stack", n] => {
                let n = parse_hex(n)?;
                Some(match self.ax().init_stack(n) {
                    Ok(a) => format!("ok {:x}", a),
                    Err(e) => err_out(&e),
                })
            }
            ["stackps", n, argv, envp] => {
                let n = parse_hex(n)?;
                let conv = |s: &str| -> Option<Vec<String>> {
                    if s == "-" {
                        return Some(vec![]);
                    }
                    s.split(',').map(|h| String::from_utf8(unhex(h)?).ok()).collect()
                };
                let (argv, envp) = (conv(argv)?, conv(envp)?);
                Some(match self.ax().init_stack_program_start(n, argv, envp) {
                    Ok(a) => format!("ok {:x}", a),
                    Err(e) => err_out(&e),
                })
            }
            ["cpreg", dst, src, delta] => {
                // dst := src + delta (wrapping): lets a case use a value the run itself produced (a returned break, …)
                let (d, sr) = (reg_by_name(dst)?, reg_by_name(src)?);
                let delta = parse_hex(delta)?;
                let ax = self.ax();
                Some(match ax.reg_read_64(sr) {
                    Ok(v) => match ax.reg_write_64(d, v.wrapping_add(delta)) {
                        Ok(()) => format!("ok {:x}", v.wrapping_add(delta)),
                        Err(e) => err_out(&e),
                    },
                    Err(e) => err_out(&e),
                })
            }
            ["ldregq", r, a] => {
                // as `ldreg`, without printing the value (descriptor numbers are random by design and must not be observed
                // where two runs are compared)
                let r = reg_by_name(r)?;
                let a = parse_hex(a)?;
                let ax = self.ax();
                Some(match ax.mem_read_64(a) {
                    Ok(v) => {
                        ax.reg_write_64(r, v).ok()?;
                        "ok".to_string()
                    }
                    Err(e) => err_out(&e),
                })
            }
            ["fill", a, n, v] => {
                // n copies of the 8-byte value v from address a upwards (a stack full of return addresses, …)
                let (a, n, v) = (parse_hex(a)?, parse_hex(n)?, parse_hex(v)?);
                let mut bytes = Vec::with_capacity(8 * n as usize);
                for _ in 0..n {
                    bytes.extend_from_slice(&v.to_le_bytes());
                }
                Some(res_unit(self.ax().mem_write_bytes(a, &bytes)))
            }
            ["stat", ra, v] => {
                // store a 64-bit value at the address held in a register (an address the run itself produced)
                let ra = reg_by_name(ra)?;
                let v = parse_hex(v)?;
                let ax = self.ax();
                Some(match ax.reg_read_64(ra) {
                    Ok(a) => res_unit(ax.mem_write_64(a, v)),
                    Err(e) => err_out(&e),
                })
            }
            ["ldat", r, ra] => {
                // r := the 64-bit value at the address held in ra
                let (r, ra) = (reg_by_name(r)?, reg_by_name(ra)?);
                let ax = self.ax();
                Some(match ax.reg_read_64(ra).and_then(|a| ax.mem_read_64(a)) {
                    Ok(v) => {
                        ax.reg_write_64(r, v).ok()?;
                        format!("ok {:x}", v)
                    }
                    Err(e) => err_out(&e),
                })
            }
            ["ldreg", r, a] => {
                let r = reg_by_name(r)?;
                let a = parse_hex(a)?;
                let ax = self.ax();
                Some(match ax.mem_read_64(a) {
                    Ok(v) => {
                        ax.reg_write_64(r, v).ok()?;
                        format!("ok {:x}", v)
                    }
                    Err(e) => err_out(&e),
                })
            }
            ["sys"] => {
                let ax = self.ax();
                let (bs, bl) = ax.verif_brk();
                let p = ax.verif_pipes();
                // pipes in creation order are not recoverable from the maps: sorted by read end on both sides
                Some(format!(
                    "brk={:x},{:x} pipes={}",
                    bs,
                    bl,
                    if p.is_empty() {
                        "none".to_string()
                    } else {
                        p.iter().map(|(r, w, c)| format!("{:x},{:x},{}", r, w, hex(c))).collect::<Vec<_>>().join(";")
                    }
                ))
            }
            ["regs"] => {
                let ax = self.ax();
                let mut s = String::new();
                for r in GPR64.iter() {
                    s.push_str(&format!("{:x} ", ax.reg_read_64(*r).ok()?));
                }
                s.push_str(&format!(
                    "{:x}",
                    ax.reg_read_64(ax_x86::state::registers::SupportedRegister::RIP)
                        .ok()?
                ));
                Some(s)
            }
            _ => None,
        }
    }
}

pub fn main_exec() {
    std::panic::set_hook(Box::new(|_| {}));
    let stdin = std::io::stdin();
    let stdout = std::io::stdout();
    let mut out = std::io::BufWriter::new(stdout.lock());
    let mut sess = Session::new();
    for line in stdin.lock().lines() {
        let line = line.unwrap();
        let o = sess.run(&line);
        writeln!(out, "{}", o).unwrap();
        out.flush().unwrap();
    }
    out.flush().unwrap();
}
