//! C19: arbitrary byte strings as code × arbitrary register/flag/memory state.
//! C20: the same cases, observed twice (see the check's two-run mode).
use crate::decode::*;
use crate::gen_instr::{candidate, probe, CODE, STACK};
use crate::util::*;

fn reg_value(rng: &mut Rng, pages: &[u64]) -> u64 {
    match rng.below(10) {
        0 | 1 | 2 if !pages.is_empty() => {
            // into (or just around) a mapped page
            let p = *rng.pick(pages);
            match rng.below(6) {
                0 => p,
                1 => p + 0xfff,
                2 => p.wrapping_add(0x1000).wrapping_sub(rng.below(17)),
                3 => p.wrapping_sub(rng.below(17)),
                _ => p + rng.below(0x1000),
            }
        }
        3 => rng.below(0x48),
        4 => *rng.pick(&[0u64, 1, u64::MAX, u64::MAX - 7, 1 << 63, (1 << 63) - 1, 0xffff_ffff, 0x1_0000_0000, 0x7fff_ffff, 0x8000_0000, 0xffff, 0xff]),
        _ => rng.val(),
    }
}

fn code_bytes(rng: &mut Rng, temps: &[Vec<u8>]) -> Vec<u8> {
    let len = 1 + rng.below(15) as usize;
    match rng.below(5) {
        0 => (0..len).map(|_| rng.next() as u8).collect(),
        1 => {
            let mut c = candidate(rng);
            c.truncate(len);
            c
        }
        2 | 3 => {
            // a valid instruction, mutated: extra prefix, flipped byte, truncation, appended garbage
            let mut b = rng.pick(temps).clone();
            match rng.below(6) {
                0 => b.insert(0, *rng.pick(&[0x66u8, 0x67, 0xf0, 0xf2, 0xf3, 0x2e, 0x36, 0x3e, 0x26, 0x64, 0x65, 0x40, 0x48, 0x4f])),
                1 => {
                    let k = rng.below(b.len() as u64) as usize;
                    b[k] ^= 1 << rng.below(8);
                }
                2 => {
                    let k = rng.below(b.len() as u64) as usize;
                    b[k] = rng.next() as u8;
                }
                3 => {
                    let k = 1 + rng.below(b.len() as u64) as usize;
                    b.truncate(k);
                }
                4 => {
                    for _ in 0..rng.below(4) {
                        b.push(rng.next() as u8);
                    }
                }
                _ => {}
            }
            b.truncate(15);
            b
        }
        _ => {
            // prefix soup, then an opcode and operand bytes
            let mut b = vec![];
            for _ in 0..rng.below(5) {
                b.push(*rng.pick(&[0x66u8, 0x67, 0xf0, 0xf2, 0xf3, 0x2e, 0x36, 0x3e, 0x26, 0x64, 0x65]));
            }
            if rng.chance(1, 2) {
                b.push(0x40 | rng.below(16) as u8);
            }
            if rng.chance(1, 4) {
                b.push(0x0f);
                if rng.chance(1, 6) {
                    b.push(*rng.pick(&[0x38u8, 0x3a]));
                }
            }
            if rng.chance(1, 12) {
                // VEX / EVEX / XOP leaders
                b.push(*rng.pick(&[0xc4u8, 0xc5, 0x62, 0x8f]));
            }
            while b.len() < len.max(2) {
                b.push(rng.next() as u8);
            }
            b.truncate(15);
            b
        }
    }
}

pub fn emit_fuzz_case(rng: &mut Rng, temps: &[Vec<u8>], out: &mut Vec<String>) {
    emit_fuzz_case_opt(rng, temps, out, true)
}

/// `pipes`: may the SYSCALL family register the pipe handler (its descriptor numbers are random by design: C20 leaves it out)
pub fn emit_fuzz_case_opt(rng: &mut Rng, temps: &[Vec<u8>], out: &mut Vec<String>, pipes: bool) {
    // one case in twelve is a SYSCALL with the built-in handlers registered and arguments near mapped memory
    let sys_case = rng.chance(1, 12);
    let bytes = if sys_case { vec![0x0f, 0x05] } else { code_bytes(rng, temps) };
    // code area: exactly the string, or the string followed by padding (so that a truncated tail decodes differently)
    let mut code = bytes.clone();
    if rng.chance(1, 3) {
        for _ in 0..rng.below(20) {
            code.push(if rng.chance(1, 2) { 0x90 } else { rng.next() as u8 });
        }
    }
    // where the code lives: mostly the usual place, sometimes at the edges of the address space
    let start: u64 = match rng.below(16) {
        0 => 0x1000 - code.len() as u64,
        1 => (u64::MAX - code.len() as u64) + 1, // ends exactly at 2^64
        2 => 0x7fff_ffff_f000,
        3 => 0xffff_ffff - rng.below(8), // straddles 2^32
        _ => CODE,
    };
    let ip = start;
    out.push(format!("new {} {:x} {:x}", hex(&code), start, ip));
    dec_all(&code, start, out);
    if rng.chance(1, 8) {
        // an empty area (a heap shrunk to nothing, `mem_init_zero(a, 0)`) early in the area list: it contains no address
        out.push(format!("zero {:x} 0 ~", *rng.pick(&[0x5000u64, 0x1000, 0, 0x6fff_f000, 0x1000_0000])));
    }
    // memory layout: stack page (not always), 0..3 data pages with arbitrary permissions
    let mut pages: Vec<u64> = vec![];
    let collides = |s: u64, l: u64, a: u64, al: u64| (s as u128) < a as u128 + al as u128 && (a as u128) < s as u128 + l as u128;
    let code_page = start & !0xfff;
    if rng.chance(5, 6) {
        out.push(format!("areaz {:x} {:x} {:x} Stack", STACK, 0x1000, rng.next()));
        pages.push(STACK);
    }
    for _ in 0..rng.below(4) {
        let p = match rng.below(8) {
            0 => 0xffff_ffff_ffff_f000u64,
            1 => 0xffff_f000,
            2 => 0x1_0000_0000,
            3 => 0,
            _ => 0x1000_0000 + 0x1000 * rng.below(0x1000),
        };
        if pages.contains(&p) || collides(p, 0x1000, code_page, 0x2000) || collides(p, 0x1000, STACK, 0x1000) || collides(p, 0x1000, start, code.len() as u64) {
            continue;
        }
        out.push(format!("areaz {:x} {:x} {:x} data", p, 0x1000, rng.next()));
        if rng.chance(1, 3) {
            out.push(format!("prot {:x} {:x}", p, rng.below(4)));
        }
        pages.push(p);
    }
    let mut rv: Vec<String> = (0..16).map(|_| format!("{:x}", reg_value(rng, &pages))).collect();
    if rng.chance(3, 4) && pages.contains(&STACK) {
        rv[4] = format!(
            "{:x}",
            match rng.below(8) {
                0 => STACK,
                1 => STACK + 0x1000 - 8,
                2 => STACK + 0x1000,
                3 => STACK - 8,
                _ => STACK + 0x800 + rng.below(0x80),
            }
        );
    }
    if sys_case {
        rv[0] = format!("{:x}", *rng.pick(&[0u64, 1, 12, 22, 60, 158, 22, 12, 0x1002, 0x1003, 2]));
        if rng.chance(1, 2) {
            // arch_prctl codes / small counts
            rv[7] = format!("{:x}", *rng.pick(&[0x1001u64, 0x1002, 0x1003, 0x1004, 0, 1, 0xffff_ffff_ffff_fff8]));
        }
        rv[2] = format!("{:x}", *rng.pick(&[0u64, 1, 8, 0x40, 0x1000, 0x1001, u64::MAX]));
    }
    rv.push(format!("{:x}", ip));
    out.push(format!("setregs {}", rv.join(",")));
    let flags = match rng.below(4) {
        0 => rng.next(),
        1 => 0,
        _ => rng.next() & 0xcd5,
    };
    out.push(format!("setflags {:x}", flags));
    if rng.chance(1, 3) {
        out.push(format!("setseg fs {:x}", reg_value(rng, &pages)));
        out.push(format!("setseg gs {:x}", reg_value(rng, &pages)));
    }
    let xv: Vec<String> = (0..16).map(|_| format!("{:x}", ((rng.val() as u128) << 64) | rng.val() as u128)).collect();
    out.push(format!("setxmms {}", xv.join(",")));
    if sys_case {
        let sets: &[&str] = if pipes { &["60,12,22,158", "22", "12", "158", "12,22", "60"] } else { &["60,12,158", "12", "158", "60,12", "60"] };
        out.push(format!("syscalls {}", *rng.pick(sets)));
        if rng.chance(1, 2) {
            // a pipe to read from / write to: create it with a first syscall, then run the case's own
            out.push("step".into());
            out.push("state".into());
            out.push(format!("setregs {}", rv.join(",")));
        }
    } else if rng.chance(1, 8) {
        out.push("syscalls 60,12,22,158".into());
    }
    out.push("step".into());
    out.push("regs".into());
    out.push("state".into());
    out.push("xmms".into());
    for p in pages.iter() {
        out.push(format!("mrb {:x} {:x}", p, 0x40));
        out.push(format!("mrb {:x} {:x}", p + 0xfc0, 0x40));
    }
    out.push("areas".into());
    out.push("trace".into());
    // a second step from wherever the first one went (usually outside the code: must be an error, not a crash)
    out.push("step".into());
    out.push("state".into());
}

pub fn gen_c19(tier: &str, seed: u64, out: &mut Vec<String>) {
    let t = probe(1, 300_000);
    let temps: Vec<Vec<u8>> = t.by_code.values().flat_map(|v| v.iter().cloned()).collect();
    let mut rng = Rng::new(seed ^ 0xC19);
    let n = if tier == "thorough" { 25_000 } else { 2_000 };
    for _ in 0..n {
        emit_fuzz_case(&mut rng, &temps, out);
    }
    // crashes that need related operand values and flags (a carry chain ending exactly at all-ones with CF set, a quotient at
    // the limit, …): the steered single-instruction stream of C01-C06, here judged for crashes only
    {
        use crate::gen_instr::Class::*;
        crate::gen_instr::gen(&[Data, Lea, Stack, CallRet, Branch, Os], tier, seed ^ 0x1919, 2, 8, out);
    }
    // … and very long histories: tens of thousands of unmatched returns (counters at the end of their range)
    {
        use crate::gen_prog::*;
        // (returns only: a trace of tens of thousands of *nested calls* renders to gigabytes, indented by depth)
        for (code, rsp) in [(vec![0xc3u8, 0x90], 0x1000_0000u64)] {
            emit_new(out, &code, CODE);
            out.push(setregs_at(&mut rng, CODE));
            out.push("nomodel".into());
            out.push("zero 10000000 48000 ~".into());
            out.push(format!("fill 10000000 9000 {:x}", CODE));
            out.push(format!("rw 64 RSP {:x}", rsp));
            out.push(format!("maxinstr {:x}", 32790 + rng.below(8)));
            out.push("execute 40000".into());
            out.push("state".into());
            out.push("tracetail 4".into());
            out.push("render".into());
        }
    }
    // crashes that need a history: more returns than calls (negative nesting level), then a step that fails (its error
    // carries the rendered trace), or a rendering of that state
    {
        use crate::gen_prog::*;
        let m = if tier == "thorough" { 600 } else { 60 };
        for _ in 0..m {
            let extra = 1 + rng.below(6) as usize;
            let fail: Vec<u8> = match rng.below(4) {
                0 => vec![0x06],                                              // invalid in 64-bit mode
                1 => vec![0x48, 0xf7, 0xf1],                                  // div rcx, rcx = 0
                2 => vec![0x48, 0x8b, 0x04, 0x25, 0x00, 0x00, 0x00, 0x00],    // mov rax, [0]
                _ => vec![0x0f, 0x0b],                                        // ud2
            };
            let build = |targets: &[u64]| -> Vec<Ins> {
                let mut p = vec![mov_r_imm32(1, 0)];
                for t in targets {
                    p.push(mov_r_imm32(0, *t as u32));
                    p.push(push_r(0));
                }
                for _ in 0..targets.len() {
                    p.push(ret());
                }
                p.push(ins(&fail));
                p
            };
            let (_, addrs) = assemble(&build(&vec![0; extra]), CODE);
            let first_ret = 1 + 2 * extra;
            // popped in reverse order of pushing: ret k goes to ret k+1, the last one to the failing instruction
            let targets: Vec<u64> = (0..extra).rev().map(|j| addrs[first_ret + j + 1]).collect();
            let (code, _) = assemble(&build(&targets), CODE);
            emit_new(out, &code, CODE);
            out.push(setregs_at(&mut rng, CODE));
            out.push("stack 400".into());
            for _ in 0..(3 * extra + 3) {
                out.push("step".into());
            }
            out.push("state".into());
            out.push("trace".into());
            out.push("callstack".into());
            out.push("render".into());
        }
    }
}

/// C20: everything is observed with error texts on; three families — fuzzed single instructions with a fully written
/// state, program-level runs (limits, hooks, syscalls, traces), and runs in which only the registers the program uses are
/// ever written (the constructor's random values stay in all others and must not influence anything observed).
pub fn gen_c20(tier: &str, seed: u64, out: &mut Vec<String>) {
    use crate::gen_prog::*;
    let mut raw: Vec<String> = vec![];
    let t = probe(1, 200_000);
    let temps: Vec<Vec<u8>> = t.by_code.values().flat_map(|v| v.iter().cloned()).collect();
    let mut rng = Rng::new(seed ^ 0xC20);
    let n = if tier == "thorough" { 8_000 } else { 600 };
    for _ in 0..n {
        emit_fuzz_case_opt(&mut rng, &temps, &mut raw, false);
    }
    let sub = if tier == "thorough" { "thorough" } else { "quick" };
    gen_c11(sub, seed ^ 0x2011, &mut raw);
    gen_c12(sub, seed ^ 0x2012, &mut raw);
    gen_c13(sub, seed ^ 0x2013, &mut raw);
    gen_c18(sub, seed ^ 0x2018, &mut raw);
    // partially written register files
    let m = if tier == "thorough" { 3_000 } else { 300 };
    for _ in 0..m {
        let plen = 2 + rng.below(12) as usize;
        // no RET here: every transfer is direct, so control stays on instruction boundaries and the program provably touches
        // only the registers written below (returns are covered by the fully-written families)
        // which of the four registers the program names (and the case writes) varies: the others keep the constructor's values
        let skip = if rng.chance(1, 3) { rng.below(4) as u8 } else { 9 };
        let used: Vec<u8> = (0..4u8).filter(|k| *k != skip).collect();
        let prog = random_program_on(&mut rng, plen, false, &used);
        let (code, _) = assemble(&prog, CODE);
        raw.push(format!("newraw {} {:x} {:x}", hex(&code), CODE, CODE));
        dec_all(&code, CODE, &mut raw);
        if rng.chance(1, 6) {
            // an area that merely looks like a stack (by name) is there already: the stack pointer still comes from init_stack
            raw.push(format!("zero {:x} {:x} Stack", *rng.pick(&[0x8000u64, 0x10_0000]), *rng.pick(&[0x100u64, 0x200, 0x1000])));
        }
        raw.push("stack 200".into());
        if rng.chance(1, 3) {
            // a failing hook: the error (and its text) is a function of the program and the written registers only
            raw.push(format!(
                "hook {} {} e error -",
                rng.pick(&["before", "before", "after"]),
                rng.pick(&["Mov", "Add", "Sub", "Inc", "Dec", "Cmp", "Jmp", "Jne", "Je", "Push", "Pop", "Nop", "Call"])
            ));
        }
        for (k, r) in ["RAX", "RCX", "RDX", "RBX"].iter().enumerate() {
            if k as u8 == skip {
                continue;
            }
            // never a code address: `push r; ret` would otherwise land inside an instruction, whose bytes decode to something
            // that legitimately reads registers this family leaves unwritten
            let mut v = rng.val();
            if v & !0xfff == CODE & !0xfff {
                v ^= 0x1000_0000;
            }
            raw.push(format!("rw 64 {} {:x}", r, v));
        }
        raw.push(format!("maxinstr {:x}", 1 + rng.below(40)));
        let by_step = rng.chance(1, 2);
        if by_step {
            for _ in 0..(plen + 4) {
                raw.push("step".into());
                raw.push("state".into());
            }
        } else {
            raw.push("execute 1000".into());
            raw.push("state".into());
        }
        for (k, r) in ["RAX", "RCX", "RDX", "RBX", "RSP", "RIP"].iter().enumerate() {
            if k as u8 != skip {
                raw.push(format!("rr 64 {}", r));
            }
        }
        raw.push("areas".into());
        raw.push("trace".into());
        raw.push("callstack".into());
        raw.push("render".into());
    }
    // single instructions on a machine where only the registers the instruction names — explicit operands, address registers and
    // the implicit ones (iced's used-register analysis) — were ever written: outcome, error text and every named register must not
    // depend on what the constructor left in the others
    {
        use iced_x86::{Decoder, DecoderOptions, InstructionInfoFactory, OpAccess, Register};
        let mut factory = InstructionInfoFactory::new();
        let k = if tier == "thorough" { 12_000 } else { 1_500 };
        const NAMES: [&str; 16] = ["RAX", "RCX", "RDX", "RBX", "RSP", "RBP", "RSI", "RDI", "R8", "R9", "R10", "R11", "R12", "R13", "R14", "R15"];
        for _ in 0..k {
            let tpl = rng.pick(&temps).clone();
            let mut d = Decoder::with_ip(64, &tpl, CODE, DecoderOptions::NONE);
            let ins = d.decode();
            if ins.is_invalid() || ins.len() != tpl.len() {
                continue;
            }
            // registers the instruction reads are written beforehand (in full); registers it writes are observed afterwards
            // through exactly the view it writes — a pure output that is not written keeps the constructor's value and shows
            let mut reads: Vec<usize> = vec![];
            let mut xreads: Vec<usize> = vec![];
            let mut observe: Vec<String> = vec![];
            let mut ok = true;
            for u in factory.info(&ins).used_registers() {
                let r = u.register();
                let f = r.full_register();
                let (rd, wr) = match u.access() {
                    OpAccess::Read | OpAccess::CondRead => (true, false),
                    OpAccess::Write => (false, true),
                    OpAccess::ReadWrite | OpAccess::ReadCondWrite => (true, true),
                    OpAccess::CondWrite => {
                        ok = false;
                        (false, false)
                    }
                    _ => (false, false),
                };
                if f.is_gpr64() {
                    if rd {
                        reads.push(f.number());
                    }
                    if wr {
                        let name = format!("{:?}", r);
                        if crate::util::reg_by_name(&name).is_some() {
                            observe.push(format!("rrok {} {}", 8 * r.size(), name));
                        } else {
                            ok = false;
                        }
                    }
                } else if r.is_xmm() {
                    if rd {
                        xreads.push(r.number());
                    }
                    if wr {
                        observe.push(format!("xmmok {}", r.number()));
                    }
                } else if f == Register::RIP || f == Register::EIP || r.is_segment_register() {
                } else {
                    ok = false;
                }
            }
            if !ok {
                continue;
            }
            reads.sort();
            reads.dedup();
            xreads.sort();
            xreads.dedup();
            raw.push(format!("newraw {} {:x} {:x}", hex(&tpl), CODE, CODE));
            dec_all(&tpl, CODE, &mut raw);
            raw.push(format!("areaz {:x} 1000 {:x} Stack", STACK, rng.next()));
            raw.push(format!("setflags {:x}", rng.next() & 0xcd5));
            for &n in &reads {
                let v = if n == 4 {
                    STACK + 0x800
                } else {
                    match rng.below(5) {
                        0 => rng.below(4),
                        1 => STACK + 0x400 + 8 * rng.below(0x40),
                        2 => rng.below(0x10000),
                        _ => rng.val(),
                    }
                };
                raw.push(format!("rw 64 {} {:x}", NAMES[n], v));
            }
            for &n in &xreads {
                raw.push(format!("setxmm {} {:x}", n, ((rng.val() as u128) << 64) | rng.val() as u128));
            }
            raw.push("step".into());
            raw.push("state".into());
            for &n in &reads {
                raw.push(format!("rr 64 {}", NAMES[n]));
            }
            for &n in &xreads {
                raw.push(format!("xmm {}", n));
            }
            raw.extend(observe);
            raw.push("rr 64 RIP".into());
            raw.push(format!("mrb {:x} 100", STACK + 0x780));
        }
    }
    // many pipes open at once: descriptor numbers are random (and never observed here), but which bytes arrive where and how
    // many a read returns is decided by the program alone
    let mp = if tier == "thorough" { 4 } else { 1 };
    for _ in 0..mp {
        const BUF: u64 = 0x20_0000;
        let np = 1200 + rng.below(600);
        let prog = vec![syscall(), jmp(0, false)];
        let (code, _) = assemble(&prog, CODE);
        emit_new(&mut raw, &code, CODE);
        raw.push(setregs_at(&mut rng, CODE));
        raw.push(format!("zero {:x} {:x} ~", BUF, 16 * np + 0x1000));
        raw.push("syscalls 22".into());
        let data = BUF + 16 * np + 0x100;
        for p in 0..np {
            raw.push("rw 64 RAX 16".into());
            raw.push(format!("rw 64 RDI {:x}", BUF + 16 * p));
            raw.push("step".into());
            raw.push("rr 64 RAX".into());
            raw.push("step".into());
        }
        for p in 0..np {
            raw.push(format!("mwb {:x} {:02x}{:02x}", data, p & 0xff, (p >> 8) & 0xff));
            raw.push("rw 64 RAX 1".into());
            raw.push(format!("ldregq RDI {:x}", BUF + 16 * p + 8));
            raw.push(format!("rw 64 RSI {:x}", data));
            raw.push(format!("rw 64 RDX {:x}", 1 + (p & 1)));
            raw.push("step".into());
            raw.push("rr 64 RAX".into());
            raw.push("step".into());
        }
        for p in 0..np {
            raw.push("rw 64 RAX 0".into());
            raw.push(format!("ldregq RDI {:x}", BUF + 16 * p));
            raw.push(format!("rw 64 RSI {:x}", data + 0x40));
            raw.push("rw 64 RDX 8".into());
            raw.push("step".into());
            raw.push("rr 64 RAX".into());
            raw.push(format!("mrb {:x} 2", data + 0x40));
            raw.push("step".into());
        }
        raw.push("state".into());
    }
    // loaded ELF images: symbol resolution (aliases at one address), image, trace rendering
    let e = if tier == "thorough" { 600 } else { 60 };
    for _ in 0..e {
        let mut spec = crate::gen_elf::well_formed(&mut rng);
        // make aliases likely: several names for the entry point and for a few other addresses
        if let Some(syms) = spec.syms.as_mut() {
            let mut extra = vec![];
            for k in 0..3 + rng.below(4) {
                let value = if k < 2 || syms.is_empty() { spec.entry } else { rng.pick(syms).value };
                extra.push(crate::gen_elf::Sym { value, name: format!("alias{}_{:x}", k, rng.below(0x1000)), shndx: 1, info: 0x12 });
            }
            syms.extend(extra);
        }
        let (bytes, _) = crate::gen_elf::build(&mut spec);
        raw.push("new".into());
        raw.push(format!("elfload {}", hex(&bytes)));
        crate::gen_elf::observe_plain(&spec, &mut rng, &mut raw);
        raw.push("render".into());
    }
    for l in raw {
        let is_new = l.starts_with("new ") || l == "new" || l.starts_with("newraw ");
        out.push(l);
        if is_new {
            out.push("errtext on".into());
        }
    }
}
