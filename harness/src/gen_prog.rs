//! Program-level generators: C11 (loop), C12 (hooks), C18 (trace), C13 (brk), C14 (pipes), C17 (stack init).
use crate::decode::*;
use crate::util::*;

pub const CODE: u64 = 0x40_0000;

/// one assembled instruction
#[derive(Clone)]
pub struct Ins {
    pub bytes: Vec<u8>,
    /// index of the instruction a relative branch targets (patched in `assemble`)
    pub target: Option<usize>,
    /// rel8 or rel32 field?
    pub rel32: bool,
}

pub fn ins(b: &[u8]) -> Ins {
    Ins { bytes: b.to_vec(), target: None, rel32: false }
}

pub fn mov_r_imm32(r: u8, v: u32) -> Ins {
    let mut b = vec![0x48 | ((r >> 3) & 1), 0xc7, 0xc0 | (r & 7)];
    b.extend(v.to_le_bytes());
    ins(&b)
}
pub fn mov_r_imm64(r: u8, v: u64) -> Ins {
    let mut b = vec![0x48 | ((r >> 3) & 1), 0xb8 | (r & 7)];
    b.extend(v.to_le_bytes());
    ins(&b)
}
pub fn alu_r_imm8(op: u8, r: u8, v: u8) -> Ins {
    // op: 0 add, 2 adc, 5 sub, 7 cmp, 4 and, 6 xor
    ins(&[0x48 | ((r >> 3) & 1), 0x83, 0xc0 | (op << 3) | (r & 7), v])
}
pub fn inc_r(r: u8) -> Ins {
    ins(&[0x48 | ((r >> 3) & 1), 0xff, 0xc0 | (r & 7)])
}
pub fn dec_r(r: u8) -> Ins {
    ins(&[0x48 | ((r >> 3) & 1), 0xff, 0xc8 | (r & 7)])
}
pub fn push_r(r: u8) -> Ins {
    if r >= 8 {
        ins(&[0x41, 0x50 | (r & 7)])
    } else {
        ins(&[0x50 | r])
    }
}
pub fn pop_r(r: u8) -> Ins {
    if r >= 8 {
        ins(&[0x41, 0x58 | (r & 7)])
    } else {
        ins(&[0x58 | r])
    }
}
pub fn jcc(cc: u8, target: usize, rel32: bool) -> Ins {
    if rel32 {
        Ins { bytes: vec![0x0f, 0x80 | cc, 0, 0, 0, 0], target: Some(target), rel32: true }
    } else {
        Ins { bytes: vec![0x70 | cc, 0], target: Some(target), rel32: false }
    }
}
pub fn jmp(target: usize, rel32: bool) -> Ins {
    if rel32 {
        Ins { bytes: vec![0xe9, 0, 0, 0, 0], target: Some(target), rel32: true }
    } else {
        Ins { bytes: vec![0xeb, 0], target: Some(target), rel32: false }
    }
}
pub fn call(target: usize) -> Ins {
    Ins { bytes: vec![0xe8, 0, 0, 0, 0], target: Some(target), rel32: true }
}
pub fn ret() -> Ins {
    ins(&[0xc3])
}
pub fn nop() -> Ins {
    ins(&[0x90])
}
pub fn syscall() -> Ins {
    ins(&[0x0f, 0x05])
}
pub fn jmp_r(r: u8) -> Ins {
    ins(&[0xff, 0xe0 | r])
}
pub fn call_r(r: u8) -> Ins {
    ins(&[0xff, 0xd0 | r])
}
pub fn jrcxz(target: usize) -> Ins {
    Ins { bytes: vec![0xe3, 0], target: Some(target), rel32: false }
}
pub fn jecxz(target: usize) -> Ins {
    Ins { bytes: vec![0x67, 0xe3, 0], target: Some(target), rel32: false }
}
/// mov [rsp+d8], r  /  mov r, [rsp+d8]
pub fn store_rsp(r: u8, d: i8) -> Ins {
    ins(&[0x48, 0x89, 0x44 | (r << 3), 0x24, d as u8])
}
pub fn load_rsp(r: u8, d: i8) -> Ins {
    ins(&[0x48, 0x8b, 0x44 | (r << 3), 0x24, d as u8])
}

/// assemble at `base`; branches whose rel8 does not reach are turned into jumps to themselves+2 (nop-like)
pub fn assemble(prog: &[Ins], base: u64) -> (Vec<u8>, Vec<u64>) {
    let mut addrs = vec![];
    let mut a = base;
    for i in prog {
        addrs.push(a);
        a = a.wrapping_add(i.bytes.len() as u64);
    }
    addrs.push(a);
    let mut out = vec![];
    for (k, i) in prog.iter().enumerate() {
        let mut b = i.bytes.clone();
        if let Some(t) = i.target {
            let next = addrs[k + 1] as i64;
            let tgt = addrs[t.min(prog.len())] as i64;
            let rel = tgt.wrapping_sub(next);
            let n = b.len();
            if i.rel32 {
                b[n - 4..].copy_from_slice(&(rel as i32).to_le_bytes());
            } else if (-128..=127).contains(&rel) {
                b[n - 1] = rel as i8 as u8;
            } else {
                b[n - 1] = 0;
            }
        }
        out.extend(b);
    }
    (out, addrs)
}

pub fn setregs_at(rng: &mut Rng, rip: u64) -> String {
    let mut vals: Vec<String> = (0..16).map(|_| format!("{:x}", rng.val())).collect();
    vals.push(format!("{:x}", rip));
    format!("setregs {}", vals.join(","))
}

/// a random branchy program over mov/add/sub/cmp/inc/dec/jcc/jmp/call/ret/push/pop/nop
pub fn random_program(rng: &mut Rng, n: usize, rets: bool) -> Vec<Ins> {
    random_program_on(rng, n, rets, &[0, 1, 2, 3])
}

/// a random program that names only the given registers (of rax rcx rdx rbx)
pub fn random_program_on(rng: &mut Rng, n: usize, rets: bool, regs: &[u8]) -> Vec<Ins> {
    let mut p = vec![];
    for _ in 0..n {
        let r = *rng.pick(regs);
        // a branch target is any instruction of the program (or its end); fairly often the very next instruction — a taken
        // branch that goes nowhere is still a taken branch —, or the branch itself
        let t = match rng.below(10) {
            0 | 1 => p.len() + 1,
            2 => p.len(),
            _ => rng.below(n as u64 + 1) as usize,
        };
        let i = match rng.below(20) {
            0 | 1 => mov_r_imm32(r, rng.below(6) as u32),
            2 => alu_r_imm8(0, r, rng.below(4) as u8),
            3 => alu_r_imm8(5, r, rng.below(4) as u8),
            4 | 5 => alu_r_imm8(7, r, rng.below(4) as u8),
            6 => inc_r(r),
            7 => dec_r(r),
            8 | 9 | 10 => jcc(rng.below(16) as u8, t, rng.chance(1, 4)),
            11 => jmp(t, rng.chance(1, 3)),
            12 | 13 => call(t),
            14 | 15 if rets => ret(),
            16 => push_r(r),
            17 => pop_r(r),
            18 if regs.contains(&1) => if rng.chance(1, 2) { jecxz(t) } else { jrcxz(t) },
            _ => nop(),
        };
        p.push(i);
    }
    p
}

pub fn emit_new(out: &mut Vec<String>, code: &[u8], base: u64) {
    out.push(format!("new {} {:x} {:x}", hex(code), base, base));
    dec_all(code, base, out);
}

/// C01 (and everything else): an instruction is what the bytes at RIP say *now* — code patched by the host between steps,
/// or by the program itself (a store into its own, writable, code), executes as patched
pub fn gen_patched_code(tier: &str, seed: u64, out: &mut Vec<String>) {
    let mut rng = Rng::new(seed ^ 0x9A7C);
    let n = if tier == "thorough" { 600 } else { 60 };
    let pool: Vec<Vec<u8>> = vec![
        vec![0xb8, 1, 0, 0, 0],             // mov eax, 1
        vec![0xb9, 7, 0, 0, 0],             // mov ecx, 7
        vec![0xb8, 5, 0, 0, 0],             // mov eax, 5
        vec![0x01, 0xc3],                   // add ebx, eax
        vec![0x48, 0xff, 0xc2],             // inc rdx
        vec![0x31, 0xf6],                   // xor esi, esi
        vec![0x90],                         // nop
        vec![0x48, 0x89, 0xd8],             // mov rax, rbx
        vec![0x48, 0xc7, 0xc0, 0x2a, 0, 0, 0], // mov rax, 42
    ];
    for k in 0..n {
        if k % 2 == 0 {
            // host-driven: step, overwrite the instruction, put RIP back, step again (several times)
            let first = rng.pick(&pool).clone();
            let mut code = first.clone();
            code.resize(16, 0x90);
            emit_new(out, &code, CODE);
            out.push("nonative".into());
            out.push(setregs_at(&mut rng, CODE));
            out.push(format!("prot {:x} 7", CODE));
            out.push("step".into());
            out.push("regs".into());
            for _ in 0..1 + rng.below(3) {
                let next = rng.pick(&pool).clone();
                let mut code2 = next.clone();
                code2.resize(16, 0x90);
                out.push(format!("mwb {:x} {}", CODE, hex(&code2)));
                dec_all(&code2, CODE, out);
                out.push(format!("rw 64 RIP {:x}", CODE));
                out.push("step".into());
                out.push("regs".into());
            }
        } else {
            // guest-driven: a loop whose first instruction is rewritten by a store inside the loop
            //   0: mov eax, 1 ; 1: add ebx, eax ; 2: mov byte [rip+d], 5 (patches the immediate of 0) ; 3: dec ecx ; 4: jne 0
            let build = |d: i32| -> Vec<Ins> {
                let mut st = vec![0xc6, 0x05];
                st.extend(d.to_le_bytes());
                st.push(5);
                vec![ins(&[0xb8, 1, 0, 0, 0]), ins(&[0x01, 0xc3]), ins(&st), ins(&[0xff, 0xc9]), jcc(5, 0, false)]
            };
            let (_, addrs) = assemble(&build(0), CODE);
            // the store's operand is relative to the end of the store instruction: target = CODE + 1 (the imm32 of `mov eax, 1`)
            let d = (CODE + 1) as i64 - addrs[3] as i64;
            let prog = build(d as i32);
            let (code, _) = assemble(&prog, CODE);
            emit_new(out, &code, CODE);
            // after the patch the first instruction decodes differently at the same address
            let mut patched = code.clone();
            patched[1] = 5;
            dec_all(&patched, CODE, out);
            out.push("nonative".into());
            out.push(setregs_at(&mut rng, CODE));
            out.push(format!("rw 64 RCX {:x}", 2 + rng.below(3)));
            out.push("rw 64 RBX 0".into());
            out.push(format!("prot {:x} 7", CODE));
            out.push("maxinstr 40".into());
            for _ in 0..22 {
                out.push("step".into());
            }
            out.push("regs".into());
            out.push(format!("mrb {:x} 10", CODE));
        }
    }
}

/// C11: step-by-step and execute runs of the same program under a limit; steps after the end
pub fn gen_c11(tier: &str, seed: u64, out: &mut Vec<String>) {
    let mut rng = Rng::new(seed ^ 0xC11);
    let n = if tier == "thorough" { 1500 } else { 150 };
    for _ in 0..n {
        let plen = 2 + rng.below(14) as usize;
        let prog = random_program(&mut rng, plen, true);
        // the code usually sits in the middle of nowhere; sometimes it ends exactly at 2^64 (its end address wraps to 0) or at 2^32
        let cbase = {
            let (probe, _) = assemble(&prog, CODE);
            match rng.below(12) {
                0 => 0u64.wrapping_sub(probe.len() as u64),
                1 => (1u64 << 32) - probe.len() as u64,
                _ => CODE,
            }
        };
        let (code, addrs) = assemble(&prog, cbase);
        // the entry point is usually the start of the code, sometimes a later instruction (the end of the code stays where it is)
        let entry = if rng.chance(1, 4) { addrs[rng.below(prog.len() as u64) as usize] } else { cbase };
        let regs = setregs_at(&mut rng, entry);
        let limit = match rng.below(5) {
            0 => None,
            1 => Some(rng.below(4)),
            _ => Some(1 + rng.below(40)),
        };
        let stack = rng.chance(5, 6);
        let stack_len = *rng.pick(&[0x200u64, 0x200, 0x208, 0x1008, 0x3f8, 0x101, 0x18]);
        let stop_after = rng.below(30);
        let relimit_at = rng.below(12);
        let relimit = rng.below(12);
        let mut hooks: Vec<(&str, &str, &str)> = vec![];
        if rng.chance(1, 3) {
            for _ in 0..1 + rng.below(2) {
                hooks.push((
                    *rng.pick(&["before", "after"]),
                    *rng.pick(&["Mov", "Add", "Sub", "Cmp", "Inc", "Dec", "Jmp", "Call", "Ret", "Push", "Pop", "Nop", "Jne", "Je"]),
                    *rng.pick(&["stop", "stop", "stophandled", "unhandled"]),
                ));
            }
        }
        for mode in 0..2 {
            out.push(format!("new {} {:x} {:x}", hex(&code), cbase, entry));
            dec_all(&code, cbase, out);
            out.push(regs.clone());
            if stack {
                // also lengths that are not multiples of 16 (the top-of-stack sentinel must still be where RSP + 8 starts)
                out.push(format!("stack {:x}", stack_len));
            }
            // a hook may stop the run: the stopped step still executes its instruction exactly once and is counted
            for (h, hk) in hooks.iter().enumerate() {
                out.push(format!("hook {} {} s{} {} -", hk.0, hk.1, h, hk.2));
            }
            // a bounded run is needed for `execute`: always set some limit there
            let lim = limit.unwrap_or(60);
            out.push(format!("maxinstr {:x}", lim));
            if mode == 0 {
                for k in 0..(lim + 3).min(64) {
                    out.push("step".into());
                    out.push("state".into());
                    if k % 3 == 0 {
                        out.push("regs".into());
                    }
                    if k == stop_after {
                        break;
                    }
                    if k == relimit_at {
                        // the limit counts instructions since construction, also when it is (re)set in the middle of a run
                        out.push(format!("maxinstr {:x}", relimit));
                    }
                }
                out.push("regs".into());
                out.push("areas".into());
            } else {
                out.push("execute 1000".into());
                out.push("state".into());
                out.push("regs".into());
                out.push("areas".into());
                if rng.chance(1, 3) {
                    // raising the limit after it was hit lets the run continue up to the new absolute count
                    out.push(format!("maxinstr {:x}", lim + 1 + relimit));
                    out.push("execute 1000".into());
                    out.push("state".into());
                    out.push("regs".into());
                }
                // a further step fails and changes nothing
                out.push("step".into());
                out.push("state".into());
                out.push("regs".into());
                out.push("execute 1000".into());
                out.push("state".into());
            }
            out.push("trace".into());
            out.push("callstack".into());
        }
    }
}

/// C18: trace / call stack after each step; unbalanced returns; rendering after every step
pub fn gen_c18(tier: &str, seed: u64, out: &mut Vec<String>) {
    let mut rng = Rng::new(seed ^ 0xC18);
    let n = if tier == "thorough" { 1500 } else { 150 };
    // a traced jump whose bytes are gone by the time the trace is rendered (overwritten by the program or by the host): the
    // renderers still return
    for _ in 0..(if tier == "thorough" { 40 } else { 6 }) {
        // 0: jmp 1 ; 1: mov byte [rip+d], 06 (over the first jmp) ; 2: jmp 3 ; 3: nop ; 4: nop
        let build = |d: i32| -> Vec<Ins> {
            let mut st = vec![0xc6, 0x05];
            st.extend(d.to_le_bytes());
            st.push(*[0x06u8, 0x0f, 0xff].get(0).unwrap());
            vec![jmp(1, false), ins(&st), jmp(3, false), nop(), nop()]
        };
        let (_, addrs) = assemble(&build(0), CODE);
        let d = CODE as i64 - addrs[2] as i64;
        let (code, _) = assemble(&build(d as i32), CODE);
        emit_new(out, &code, CODE);
        out.push(setregs_at(&mut rng, CODE));
        out.push(format!("prot {:x} 7", CODE));
        out.push("stack 400".into());
        for _ in 0..5 {
            out.push("step".into());
            out.push("trace".into());
            out.push("render".into());
        }
        // host-side: wipe the whole code, then render again
        out.push(format!("mwb {:x} {}", CODE, hex(&vec![0x06u8; code.len()])));
        out.push("render".into());
        out.push("trace".into());
    }
    // returns far outnumbering calls (and calls nested far deeper than any program would): the nesting level stays at the
    // bound of its range instead of wrapping around
    // (tens of thousands of *nested calls* are not run: the rendered trace is indented by depth and grows to gigabytes)
    for _ in 0..1 {
        let code = vec![0xc3u8, 0x90];
        emit_new(out, &code, CODE);
        out.push(setregs_at(&mut rng, CODE));
        out.push("nomodel".into());
        out.push("zero 10000000 48000 ~".into());
        out.push(format!("fill 10000000 9000 {:x}", CODE));
        out.push("rw 64 RSP 10000000".into());
        let lim = 32790 + rng.below(8);
        out.push(format!("maxinstr {:x}", lim));
        out.push("execute 40000".into());
        out.push("state".into());
        // return k (k >= 1) is recorded at level max(2 - k, -32768)
        out.push(format!("tracetail c #expect={} {}", lim + 1, vec![format!("{:x},{:x},r,-32768,1", CODE, CODE); 12].join(" ")));
        out.push("render #expect=ok t=ok c=ok".into());
    }
    for k in 0..n {
        let mut prog: Vec<Ins> = vec![];
        let plen = 3 + rng.below(12) as usize;
        if k % 3 == 0 {
            // unmatched returns: push a few code addresses, then return to them
            let extra = 1 + rng.below(3) as usize;
            for j in 0..extra {
                prog.push(mov_r_imm32(0, (CODE + 7 * (extra as u64) * 2 + j as u64) as u32));
                prog.push(push_r(0));
            }
            for _ in 0..extra {
                prog.push(ret());
            }
        }
        if k % 5 == 1 {
            // indirect jump / call through a register
            prog.push(mov_r_imm32(3, (CODE + 9 + rng.below(6)) as u32));
            prog.push(if rng.chance(1, 2) { jmp_r(3) } else { call_r(3) });
        }
        if k % 5 == 3 {
            // one indirect jump taken several times in a row with changing targets (no other transfer in between):
            //   0: mov eax, &3 ; 1: jmp 4 ; 2: nop ; 3: mov eax, &(5|6) ; 4: jmp rax ; 5: nop ; 6: nop
            // repeated jumps to the *same* target are produced by the loops of random_program
            let build = |a3: u64, a5: u64| -> Vec<Ins> {
                vec![mov_r_imm32(0, a3 as u32), jmp(4, false), nop(), mov_r_imm32(0, a5 as u32), jmp_r(0), nop(), nop()]
            };
            let (_, addrs) = assemble(&build(0, 0), CODE);
            let second = if rng.chance(1, 2) { addrs[5] } else { addrs[6] };
            prog = build(addrs[3], second);
        }
        prog.extend(random_program(&mut rng, plen, true));
        let (code, addrs) = assemble(&prog, CODE);
        // the run usually starts at the first byte of the code; sometimes at a later instruction (the opening trace entry and
        // the outermost call-stack frame name the entry point, not the start of the code)
        let entry = if rng.chance(1, 4) { addrs[rng.below(prog.len() as u64) as usize] } else { CODE };
        out.push(format!("new {} {:x} {:x}", hex(&code), CODE, entry));
        dec_all(&code, CODE, out);
        out.push("trace".into());
        out.push("callstack".into());
        out.push(setregs_at(&mut rng, entry));
        out.push("stack 400".into());
        if rng.chance(1, 5) {
            // the rendered state may contain an empty area (a heap shrunk to nothing, init_stack(0), …)
            out.push(format!("zero {:x} 0 {}", 0x9000 + 0x1000 * rng.below(4), if rng.chance(1, 2) { "empty" } else { "~" }));
        }
        out.push("maxinstr 50".into());
        for _ in 0..40 {
            out.push("step".into());
            out.push("trace".into());
            out.push("callstack".into());
            out.push("render".into());
        }
        out.push("state".into());
    }
}

/// C12: scripted hooks on short programs
pub fn gen_c12(tier: &str, seed: u64, out: &mut Vec<String>) {
    let mut rng = Rng::new(seed ^ 0xC12);
    let n = if tier == "thorough" { 3000 } else { 300 };
    let outcomes = ["unhandled", "unhandled", "handled", "stop", "stophandled", "error", "tryreg", "stoperror", "errorempty", "stoptryreg"];
    for case in 0..n {
        if case % 11 == 9 {
            // registration lists that overlap with what is registered (or with themselves): known entries are skipped, every
            // new one is installed wherever it stands in the list
            let prog = vec![mov_r_imm32(0, 12), mov_r_imm32(7, 0), syscall(), mov_r_imm32(0, 158), mov_r_imm32(7, 0x1003), syscall(), mov_r_imm32(0, 60), syscall(), nop()];
            let (code, _) = assemble(&prog, CODE);
            emit_new(out, &code, CODE);
            out.push(setregs_at(&mut rng, CODE));
            out.push(format!("syscalls {}", *rng.pick(&["60", "158", "60,158", "12"])));
            out.push(format!("syscalls {}", *rng.pick(&["60,12,158", "60,60,12,158", "158,60,12", "12,12,60,158"])));
            out.push("sys".into());
            for _ in 0..9 {
                out.push("step".into());
                out.push("rr 64 RAX".into());
                out.push("state".into());
            }
            out.push("areas".into());
            continue;
        }
        if case % 11 == 10 {
            // a hook tries to register from inside (refused); the same registration made afterwards, outside any hook, works
            // (the instruction that needs a handler varies: without one it fails, refused attempts count for nothing)
            let needy = match rng.below(4) { 0 => ins(&[0xcc]), 1 => ins(&[0xcd, 0x80]), 2 => ins(&[0xf1]), _ => syscall() };
            let is_sys = needy.bytes == vec![0x0f, 0x05];
            let prog = vec![nop(), mov_r_imm32(0, 60), needy, nop()];
            let (code, _) = assemble(&prog, CODE);
            emit_new(out, &code, CODE);
            out.push(setregs_at(&mut rng, CODE));
            out.push(format!("hook {} Nop t tryreg -", rng.pick(&["before", "after"])));
            out.push("step".into());
            out.push("log".into());
            out.push("sys".into());
            if is_sys && rng.chance(1, 2) {
                out.push("syscalls 60".into());
            }
            out.push("hook before Mov late unhandled -".into());
            for _ in 0..3 {
                out.push("step".into());
                out.push("log".into());
                out.push("state".into());
            }
            continue;
        }
        // two program families: straight-line code that ends at the code end or by a hook, and call/ret code on an
        // initialised stack that ends through a top-level RET (the finishing instruction still has after-hooks)
        let callret = case % 3 == 2;
        let mut prog = vec![];
        let plen;
        if callret {
            // 0: call f ; 1..k: filler ; k+1: ret (top level) ; f: filler ; ret
            let k = rng.below(3) as usize;
            let fl = rng.below(3) as usize;
            let f = k + 2;
            prog.push(call(f));
            for _ in 0..k {
                prog.push(if rng.chance(1, 2) { nop() } else { inc_r(rng.below(4) as u8) });
            }
            prog.push(ret());
            for _ in 0..fl {
                prog.push(if rng.chance(1, 2) { nop() } else { mov_r_imm32(rng.below(4) as u8, rng.below(9) as u32) });
            }
            if rng.chance(1, 4) {
                prog.push(push_r(3));
                prog.push(pop_r(1));
            }
            prog.push(ret());
            plen = prog.len();
        } else {
            plen = 2 + rng.below(5) as usize;
            for _ in 0..plen {
                prog.push(match rng.below(10) {
                    0 => nop(),
                    1 => mov_r_imm32(rng.below(4) as u8, rng.below(9) as u32),
                    2 => inc_r(rng.below(4) as u8),
                    3 => ins(&[0xcc]),
                    4 => syscall(),
                    5 => ins(&[0xcd, 0x80]),
                    6 => ins(&[0xf1]),
                    // instructions that fail by themselves (a hook that stopped the run stays obeyed when its instruction fails)
                    7 => ins(&[0x48, 0x8b, 0x04, 0x25, 0x10, 0x00, 0x00, 0x00]), // mov rax, [0x10]: unmapped
                    8 => ins(&[0x48, 0xf7, 0xf6]),                               // div rsi (RSI is set to 0 below)
                    _ => nop(),
                });
            }
        }
        let (code, _) = assemble(&prog, CODE);
        emit_new(out, &code, CODE);
        out.push(setregs_at(&mut rng, CODE));
        if callret {
            out.push("stack 200".into());
        } else {
            out.push("rw 64 RSI 0".into());
        }
        let mns: &[&str] = if callret { &["Call", "Ret", "Ret", "Nop", "Mov", "Inc", "Push", "Pop"] } else { &["Nop", "Mov", "Inc", "Int3", "Syscall", "Int", "Int1", "Div", "Mov"] };
        let nh = rng.below(7);
        for id in 0..nh {
            let phase = if rng.chance(1, 2) { "before" } else { "after" };
            let mn = rng.pick(mns);
            let oc = if callret && rng.chance(1, 2) { &"unhandled" } else { rng.pick(&outcomes) };
            let edit = if rng.chance(1, 3) {
                format!("{}={:x}", rng.pick(&["RAX", "RCX", "RSI", "R9"]), rng.below(100))
            } else {
                "-".to_string()
            };
            out.push(format!("hook {} {} h{} {} {}", phase, mn, id, oc, edit));
            if rng.chance(1, 4) {
                // the very same callback registered once more: other phase (tracer pattern), same phase twice, or another mnemonic —
                // every registration counts, each fires once per instruction and phase it was registered for
                let (p2, m2) = match rng.below(4) {
                    0 | 1 => (if phase == "before" { "after" } else { "before" }, *mn),
                    2 => (phase, *mn),
                    _ => (phase, *rng.pick(mns)),
                };
                out.push(format!("hookdup {} {} h{} {} {} {}", p2, m2, id, phase, oc, edit));
            }
        }
        for k in 0..(plen + 2) {
            out.push("step".into());
            out.push("log".into());
            out.push("state".into());
            if k % 2 == 0 {
                out.push("regs".into());
            }
            if rng.chance(1, 5) {
                // registration between steps must be possible (never blocked by a stale running flag)
                out.push(format!("hook after Nop late{} unhandled -", k));
            }
        }
        out.push("regs".into());
    }
}

/// C13: brk histories interleaved with guest-visible loads/stores (through the API accessors)
pub fn gen_c13(tier: &str, seed: u64, out: &mut Vec<String>) {
    let mut rng = Rng::new(seed ^ 0xC13);
    let n = if tier == "thorough" { 2000 } else { 200 };
    for case in 0..n {
        // code: syscall ; jmp back  (loop forever, every step pair is one brk call)
        let prog = vec![syscall(), jmp(0, false)];
        if case % 10 == 9 {
            // the heap above everything else, and a request no host can satisfy: the call fails, nothing crashes
            let (code, _) = assemble(&prog, 0x1000);
            emit_new(out, &code, 0x1000);
            out.push(setregs_at(&mut rng, 0x1000));
            out.push("syscalls 12".into());
            let huge = *rng.pick(&[1u64 << 40, 1 << 44, 1 << 52, 1 << 60, (1 << 63) - 1, 1 << 63, u64::MAX - 0x1000]);
            // query, data into the heap, a request no host can satisfy, the data again, an ordinary growth, the data again
            for (k, arg) in [0u64, huge, 0, 0].iter().enumerate() {
                out.push("rw 64 RAX c".into());
                if k == 3 {
                    out.push("cpreg RDI R15 1800".into());
                } else {
                    out.push(format!("rw 64 RDI {:x}", arg));
                }
                out.push("step".into());
                out.push("rr 64 RAX".into());
                if k == 0 {
                    // R15 := heap base (break - 0x1000); store through the guest-visible API
                    out.push("cpreg R15 RAX fffffffffffff000".into());
                    out.push("cpreg R14 RAX fffffffffffffff8".into());
                    out.push("stat R15 1234567812345678".into());
                    out.push("stat R14 5678".into());
                }
                out.push("ldat R13 R15".into());
                out.push("ldat R12 R14".into());
                out.push("step".into());
            }
            out.push("areas".into());
            continue;
        }
        // the code is usually far away from where the heap goes; sometimes it is the area at address 0 or right at the start of the search
        let code_at = match case % 10 { 8 => 0u64, 7 => 0x1000, _ => CODE };
        let (code, _) = assemble(&prog, code_at);
        emit_new(out, &code, code_at);
        out.push(setregs_at(&mut rng, code_at));
        // surrounding layout: some areas right where the heap search starts
        let mut neighbours: Vec<(u64, u64)> = vec![];
        for _ in 0..rng.below(4) {
            // page-aligned, or somewhere inside a page (a small area in the middle of an otherwise free page)
            let start = 0x1000 * (1 + rng.below(6)) + if rng.chance(1, 3) { *rng.pick(&[0x800u64, 0x10, 0xff0, 0x7ff]) } else { 0 };
            // also empty areas: they occupy no address but have a start
            let len = if rng.chance(1, 6) { 0 } else if rng.chance(1, 3) { 1 + rng.below(0x20) } else { 1 + rng.below(0x1800) };
            out.push(format!("zero {:x} {:x} ~", start, len));
            neighbours.push((start, len));
        }
        let mut sys = vec!["12"];
        if rng.chance(1, 2) {
            sys.insert(0, "60");
        }
        if rng.chance(1, 4) {
            // registration in two calls whose lists overlap: what is already there is skipped, the rest is installed
            out.push(format!("syscalls {}", *rng.pick(&["60", "60,158", "158"])));
            out.push("syscalls 60,158,12".into());
        } else {
            out.push(format!("syscalls {}", sys.join(",")));
        }
        out.push("areas".into());
        let mut heap_hint: u64 = 0; // filled by reading RAX through `rr`
        let calls = 2 + rng.below(8);
        let first_nonzero = rng.chance(1, 3);
        for c in 0..calls {
            if c == 1 {
                // R15 := the break the first call reported (the heap base: the heap starts empty); R14 follows the latest result
                out.push("cpreg R15 RAX 0".into());
            }
            if c >= 1 {
                out.push("cpreg R14 RAX 0".into());
            }
            out.push("rw 64 RAX c".into());
            if c >= 1 && rng.chance(1, 3) {
                // an argument derived from what the run returned: the current break again, the heap base exactly (shrink to
                // nothing) and a later regrow, one byte around either
                // (R15 is the first reported break, one page above the base of the freshly created heap)
                let (src, delta) = match rng.below(10) {
                    7 => ("R15", 0u64.wrapping_sub(0x1000)),       // the heap base exactly: the heap shrinks to nothing
                    8 => ("R15", 0u64.wrapping_sub(0xfff)),        // base + 1
                    9 => ("R15", 0u64.wrapping_sub(0x1001)),       // base - 1: a query
                    0 | 1 => ("R14", 0u64),
                    2 => ("R15", 0),
                    3 => ("R15", 1 + rng.below(0x800)),
                    4 => ("R14", 1),
                    5 => ("R14", u64::MAX),
                    _ => ("R15", u64::MAX),
                };
                out.push(format!("cpreg RDI {} {:x}", src, delta));
                out.push("step".into());
                out.push("rr 64 RAX".into());
                out.push("sys".into());
                out.push("areas".into());
                out.push("step".into());
                continue;
            }
            // argument: 0 (query), or relative to a plausible heap range
            if c == 0 && first_nonzero {
                // the very first call already moves the break (no query before it)
                heap_hint = 0x1000 * (1 + rng.below(8));
            }
            let arg = if (c == 0 && !first_nonzero) || rng.chance(1, 4) {
                0
            } else {
                match rng.below(9) {
                    0 => heap_hint.wrapping_sub(1 + rng.below(0x10)),  // below the base
                    1 => heap_hint,                                     // shrink to 0
                    2 | 3 | 4 if !neighbours.is_empty() => {
                        // exactly at / around the edges of a neighbouring area: the new break may touch but not enter it
                        let (s, l) = *rng.pick(&neighbours);
                        *rng.pick(&[s.wrapping_sub(1), s, s + 1, s + 2, s + l - 1, s + l, s + l + 1])
                    }
                    _ => heap_hint + rng.below(0x3000),
                }
            };
            out.push(format!("rw 64 RDI {:x}", arg));
            out.push("step".into());
            out.push("rr 64 RAX".into());
            out.push("sys".into());
            out.push("areas".into());
            out.push("step".into()); // the jmp back
            if heap_hint == 0 {
                // the generator cannot see the heap base; probe typical candidates (0x1000-aligned search)
                heap_hint = 0x1000 * (1 + rng.below(8));
            }
            // stores and loads inside / at the edge of the presumed heap
            for _ in 0..rng.below(4) {
                let a = heap_hint + rng.below(0x3000);
                if rng.chance(1, 2) {
                    out.push(format!("mw 8 {:x} {:x}", a, rng.next()));
                } else {
                    out.push(format!("mr 8 {:x}", a));
                }
            }
        }
        out.push("areas".into());
    }
}

/// C14: pipe/read/write histories; descriptors are read back from guest memory with `ldreg`
pub fn gen_c14(tier: &str, seed: u64, out: &mut Vec<String>) {
    let mut rng = Rng::new(seed ^ 0xC14);
    let n = if tier == "thorough" { 2000 } else { 200 };
    const BUF: u64 = 0x20_0000; // fd slots: BUF + 16*k ; data buffers above
    for case in 0..n {
        let prog = vec![syscall(), jmp(0, false)];
        let (code, _) = assemble(&prog, CODE);
        if case % 40 == 39 {
            // a long backlog: hundreds of kilobytes written before anything is read, then read back in other chunk sizes;
            // every chunk starts with its number so that loss or reordering anywhere shows
            emit_new(out, &code, CODE);
            out.push(setregs_at(&mut rng, CODE));
            let big = BUF + 0x1000;
            out.push(format!("zero {:x} 12000 ~", BUF));
            out.push("syscalls 22".into());
            out.push("rw 64 RAX 16".into());
            out.push(format!("rw 64 RDI {:x}", BUF));
            out.push("step".into());
            out.push("step".into());
            let chunk = *rng.pick(&[0x3ff0u64, 0x4000, 0x7ff8, 0x8000]);
            let pattern: Vec<u8> = (0..0x400).map(|k| (k as u8) ^ 0x5a).collect();
            for k in 0..(chunk / 0x400 + 1) {
                out.push(format!("mwb {:x} {}", big + 0x400 * k, hex(&pattern)));
            }
            let writes = 3 + rng.below(8);
            for k in 0..writes {
                out.push(format!("mw 8 {:x} {:x}", big, 0x1111_0000 + k));
                out.push("rw 64 RAX 1".into());
                out.push(format!("ldreg RDI {:x}", BUF + 8));
                out.push(format!("rw 64 RSI {:x}", big));
                out.push(format!("rw 64 RDX {:x}", chunk));
                out.push("step".into());
                out.push("rr 64 RAX".into());
                out.push("step".into());
            }
            let rchunk = *rng.pick(&[0x3000u64, 0x4000, 0x7000, 0x8001]);
            for _ in 0..(writes * chunk / rchunk + 2) {
                out.push("rw 64 RAX 0".into());
                out.push(format!("ldreg RDI {:x}", BUF));
                out.push(format!("rw 64 RSI {:x}", big + 0x8800));
                out.push(format!("rw 64 RDX {:x}", rchunk));
                out.push("step".into());
                out.push("rr 64 RAX".into());
                out.push(format!("mrb {:x} {:x}", big + 0x8800, rchunk));
                out.push("step".into());
            }
            continue;
        }
        emit_new(out, &code, CODE);
        out.push(setregs_at(&mut rng, CODE));
        out.push(format!("zero {:x} 2000 ~", BUF));
        out.push(format!("syscalls {}", if rng.chance(1, 3) { "60,22" } else { "22" }));
        // a trailing user hook sees what the pipe handlers leave unhandled
        out.push("hook before Syscall user handled RAX=7777".into());
        let npipes = 1 + rng.below(3);
        for p in 0..npipes {
            out.push("rw 64 RAX 16".into());
            out.push(format!("rw 64 RDI {:x}", BUF + 16 * p));
            out.push("step".into());
            out.push("rr 64 RAX".into());
            out.push("step".into());
        }
        // pipe() with its descriptor array in awkward places: unmapped, read-only, straddling the end of an area, at the
        // very top of the address space (second slot beyond 2^64); must fail cleanly, and what was created stays consistent
        if rng.chance(1, 4) {
            let ptr = match rng.below(4) {
                0 => 0x9000_0000u64,
                1 => BUF + 0x2000 - 8,
                2 => {
                    out.push("zero fffffffffffffff8 8 ~".into());
                    0xffff_ffff_ffff_fff8
                }
                _ => {
                    out.push("zero 300000 10 ~".into());
                    out.push("prot 300000 1".into());
                    0x30_0000
                }
            };
            out.push("rw 64 RAX 16".into());
            out.push(format!("rw 64 RDI {:x}", ptr));
            out.push("step".into());
            out.push("rr 64 RAX".into());
            out.push("state".into());
        }
        out.push("sys".into());
        let ops = 3 + rng.below(14);
        for _ in 0..ops {
            let p = rng.below(npipes);
            let data = BUF + 0x400 + 0x100 * rng.below(8);
            match rng.below(10) {
                0..=3 => {
                    // write to the write end
                    let len = match rng.below(5) { 0 => 0, 1 => 1, _ => rng.below(0x60) };
                    let bytes: Vec<u8> = (0..len).map(|_| rng.next() as u8).collect();
                    out.push(format!("mwb {:x} {}", data, hex(&bytes)));
                    out.push("rw 64 RAX 1".into());
                    out.push(format!("ldreg RDI {:x}", BUF + 16 * p + 8));
                    out.push(format!("rw 64 RSI {:x}", data));
                    out.push(format!("rw 64 RDX {:x}", len));
                }
                4 if rng.chance(1, 3) => {
                    // a read whose destination cannot take the bytes fails — and the bytes stay in the pipe for the next read
                    let bytes: Vec<u8> = (0..4 + rng.below(0x20)).map(|_| rng.next() as u8).collect();
                    out.push(format!("mwb {:x} {}", data, hex(&bytes)));
                    out.push("rw 64 RAX 1".into());
                    out.push(format!("ldreg RDI {:x}", BUF + 16 * p + 8));
                    out.push(format!("rw 64 RSI {:x}", data));
                    out.push(format!("rw 64 RDX {:x}", bytes.len()));
                    out.push("step".into());
                    out.push("rr 64 RAX".into());
                    out.push("step".into());
                    let bad = match rng.below(3) {
                        0 => 0x9000_0000u64,          // unmapped
                        1 => BUF + 0x2000 - 2,        // runs over the end of the area
                        _ => {
                            out.push("zero 310000 100 ~".into());
                            out.push("prot 310000 1".into());
                            0x31_0000                 // read-only
                        }
                    };
                    out.push("rw 64 RAX 0".into());
                    out.push(format!("ldreg RDI {:x}", BUF + 16 * p));
                    out.push(format!("rw 64 RSI {:x}", bad));
                    out.push(format!("rw 64 RDX {:x}", 3 + rng.below(4)));
                    out.push("step".into());
                    out.push("state".into());
                    out.push("sys".into());
                    // back to the syscall instruction, whatever the failed step did with RIP
                    out.push(format!("rw 64 RIP {:x}", CODE));
                    out.push("rw 64 RAX 0".into());
                    out.push(format!("ldreg RDI {:x}", BUF + 16 * p));
                    out.push(format!("rw 64 RSI {:x}", data));
                    out.push("rw 64 RDX 200".into());
                }
                4 if rng.chance(1, 2) => {
                    // misuse: read from the write end / write to the read end (not this handler's business: falls through)
                    let rd = rng.chance(1, 2);
                    out.push(format!("rw 64 RAX {}", if rd { 0 } else { 1 }));
                    out.push(format!("ldreg RDI {:x}", BUF + 16 * p + if rd { 8 } else { 0 }));
                    out.push(format!("rw 64 RSI {:x}", data));
                    out.push(format!("rw 64 RDX {:x}", *rng.pick(&[0u64, 1, 4, 0x20])));
                }
                4..=7 => {
                    // read from the read end: smaller, equal, larger than what is there
                    // (also counts far beyond anything a pipe holds: what is delivered is min(count, available))
                    let len = match rng.below(7) {
                        0 => 0,
                        1 => 1,
                        2 => 0x200,
                        3 => *rng.pick(&[u64::MAX, 1 << 63, 0u64.wrapping_sub(data), 0u64.wrapping_sub(data).wrapping_sub(1), 1 << 32]),
                        _ => rng.below(0x80),
                    };
                    out.push("rw 64 RAX 0".into());
                    out.push(format!("ldreg RDI {:x}", BUF + 16 * p));
                    out.push(format!("rw 64 RSI {:x}", data));
                    out.push(format!("rw 64 RDX {:x}", len));
                }
                8 => {
                    // wrong end / foreign descriptor: left for the user hook
                    out.push(format!("rw 64 RAX {}", rng.below(2)));
                    match rng.below(4) {
                        0 | 1 => out.push(format!("rw 64 RDI {:x}", rng.below(3))),
                        2 => out.push(format!("ldreg RDI {:x}", BUF + 16 * p + 8 * rng.below(2))),
                        _ => {
                            // a descriptor is the whole 64-bit register: one that equals a pipe end only in its low half is foreign
                            out.push(format!("ldreg RDI {:x}", BUF + 16 * p + 8 * rng.below(2)));
                            out.push(format!("cpreg RDI RDI {:x}", *rng.pick(&[1u64 << 32, 1 << 63, 0xffff_ffff_0000_0000, 1 << 16])));
                        }
                    }
                    // a call that is none of the pipe handler's business is passed on untouched, whatever its buffer looks like
                    // (NULL with a count of 0, unmapped, running over the end of its area)
                    let (bp, cnt) = match rng.below(6) {
                        0 => (0u64, 0u64),
                        1 => (0x9000_0000, 0x10),
                        2 => (BUF + 0x2000 - 4, 0x10),
                        _ => (data, *rng.pick(&[4u64, 0, 0, 1, 0x40])),
                    };
                    out.push(format!("rw 64 RSI {:x}", bp));
                    out.push(format!("rw 64 RDX {:x}", cnt));
                }
                _ => {
                    // unrelated syscall number
                    out.push(format!("rw 64 RAX {:x}", 2 + rng.below(9)));
                }
            }
            out.push("step".into());
            out.push("rr 64 RAX".into());
            out.push(format!("mrb {:x} 80", data));
            out.push("sys".into());
            out.push("log".into());
            out.push("step".into());
        }
    }
}

/// C17: init_stack_program_start over argv/envp shapes, observed by executing POPs
pub fn gen_c17(tier: &str, seed: u64, out: &mut Vec<String>) {
    let mut rng = Rng::new(seed ^ 0xC17);
    let n = if tier == "thorough" { 2000 } else { 250 };
    for _ in 0..n {
        // code: pop rax ; jmp back
        let prog = vec![pop_r(0), jmp(0, false)];
        let base = *rng.pick(&[CODE, 0x1000, 0x1004, 0x2000]);
        let (code, _) = assemble(&prog, base);
        emit_new(out, &code, base);
        out.push(setregs_at(&mut rng, base));
        for _ in 0..rng.below(3) {
            out.push(format!("zero {:x} {:x} ~", 0x1000 * (1 + rng.below(5)) + rng.below(0x20), 1 + rng.below(0x900)));
        }
        let mk = |rng: &mut Rng, cnt: u64| -> String {
            if cnt == 0 {
                return "-".into();
            }
            let mut v: Vec<String> = vec![];
            for _ in 0..cnt {
                // repeated values are common in real argument lists ("-v -v", an argument equal to an environment entry)
                if !v.is_empty() && rng.chance(1, 4) {
                    let d = rng.pick(&v).clone();
                    v.push(d);
                    continue;
                }
                let len = match rng.below(6) { 0 => 0, 1 => 1, 2 => 200, _ => rng.below(24) };
                let s: Vec<u8> = if rng.chance(1, 6) {
                    b"-v".to_vec()
                } else if rng.chance(1, 5) {
                    // arguments are UTF-8 strings, not ASCII: two-, three- and four-byte characters, also ones whose code point
                    // has a zero low byte
                    let chars = ['é', 'ß', 'Ā', 'Ȁ', '€', '日', '本', '𝄞', 'a', '/', '='];
                    let st: String = (0..1 + rng.below(8)).map(|_| *rng.pick(&chars)).collect();
                    st.into_bytes()
                } else if rng.chance(1, 12) {
                    // a Rust string may contain NUL characters; they are copied like any other byte
                    let mut v: Vec<u8> = (0..1 + rng.below(6)).map(|_| b'a' + (rng.below(26) as u8)).collect();
                    let at = rng.below(v.len() as u64 + 1) as usize;
                    v.insert(at, 0);
                    v
                } else {
                    (0..len).map(|_| b'a' + (rng.below(26) as u8)).collect()
                };
                v.push(hex(&s));
            }
            v.join(",")
        };
        let argc = match rng.below(6) { 0 => 0, 1 => 1, 2 => 30, _ => rng.below(6) };
        let envc = match rng.below(6) { 0 => 0, 1 => 1, 2 => 25, _ => rng.below(6) };
        let argv = mk(&mut rng, argc);
        let envp = mk(&mut rng, envc);
        // empty strings serialise as "-" which would read as an empty list: use explicit entry "-"? keep lists of non-empty hex
        let mut len = *rng.pick(&[0u64, 8, 0x28, 0x40, 0x100, 0x1000, 0x1001, 0x2345]);
        if rng.chance(1, 25) {
            // sizes nobody can provide, up to the ones whose frame arithmetic leaves 64 bits: an error, never a crash
            len = *rng.pick(&[u64::MAX, u64::MAX - 15, u64::MAX - 0x47, u64::MAX - 0x1000, 1 << 63, 1 << 52]);
        }
        if rng.chance(1, 8) {
            // the most recently created area lies in the upper half of the address space (a vsyscall page, a mapping at the very
            // top): the searches for the strings and the stack start from the bottom whatever was created last
            out.push(format!("zero {:x} {:x} ~", *rng.pick(&[0xffff_ffff_ff60_0000u64, 0x7fff_ffff_f000, 0xffff_ffff_ffff_f000, 0x8000_0000_0000_0000]), *rng.pick(&[0x1000u64, 1, 0x10])));
        }
        if rng.chance(1, 15) {
            // every candidate of the stack search up to some power of two is taken: the stack lands far up (beyond 4 GiB when
            // all of 2^12 … 2^31 are occupied)
            let upto = *rng.pick(&[20u32, 31, 31, 32, 36]);
            for k in 12..=upto {
                out.push(format!("zero {:x} 1 ~", 1u64 << k));
            }
        }
        // the program start may be set up on a machine that already has a stack (an earlier init_stack, a first program start, or
        // just an area that happens to be called "Stack"): the new frame goes into the new area
        match rng.below(12) {
            0 => out.push(format!("stack {:x}", *rng.pick(&[0u64, 0x100, 0x1000, 0x4000]))),
            1 => out.push(format!("zero {:x} {:x} Stack", *rng.pick(&[0x7000u64, 0x10_0000, 0x7fff_0000_0000]), 1 + rng.below(0x2000))),
            2 => out.push(format!("stackps {:x} {} {}", *rng.pick(&[0x100u64, 0x1000]), mk(&mut rng, 2), "-")),
            _ => {}
        }
        out.push(format!("stackps {:x} {} {}", len, argv, envp));
        out.push("areas".into());
        out.push("state".into());
        out.push("regs".into());
        // pop argc, argv pointers, null, envp pointers, null (+1 beyond)
        for _ in 0..(argc + envc + 3).min(70) {
            out.push("step".into());
            out.push("rr 64 RAX".into());
            out.push("step".into());
        }
        out.push("regs".into());
        out.push("areas".into());
    }
}

/// C03 / C04: multi-instruction programs of calls, returns (matched and unmatched), pushes and pops on an initialised
/// stack, observed after every step (registers, stack memory, call stack). Compared between implementation and model only.
pub fn gen_stack_programs(tier: &str, seed: u64, out: &mut Vec<String>) {
    let mut rng = Rng::new(seed ^ 0x57AC);
    let n = if tier == "thorough" { 1500 } else { 120 };
    for k in 0..n {
        let mut prog: Vec<Ins> = vec![];
        match k % 4 {
            0 => {
                // returns without calls: push code addresses, then return to them one after the other
                let extra = 2 + rng.below(3) as usize;
                let build = |targets: &[u64]| -> Vec<Ins> {
                    let mut p = vec![];
                    for t in targets {
                        p.push(mov_r_imm32(0, *t as u32));
                        p.push(push_r(0));
                    }
                    p.push(ret());
                    for _ in 0..targets.len() {
                        p.push(inc_r(1));
                        p.push(ret());
                    }
                    p.push(nop());
                    p
                };
                let (_, addrs) = assemble(&build(&vec![0; extra]), CODE);
                // the k-th return lands on the k-th `inc; ret` pair
                let first_pair = 2 * extra + 1;
                let targets: Vec<u64> = (0..extra).rev().map(|j| addrs[first_pair + 2 * j]).collect();
                prog = build(&targets);
            }
            1 => {
                // the same function called several times; it returns through a pushed address once
                prog = vec![call(4), call(4), nop(), ret(), inc_r(1), ret()];
            }
            _ => {
                let len = 4 + rng.below(12) as usize;
                prog.extend(random_program(&mut rng, len, true));
            }
        }
        let (code, _) = assemble(&prog, CODE);
        emit_new(out, &code, CODE);
        out.push("nonative".into());
        out.push(setregs_at(&mut rng, CODE));
        out.push(format!("stack {:x}", *rng.pick(&[0x400u64, 0x400, 0x408, 0x1008, 0x3f8, 0x28])));
        out.push("maxinstr 40".into());
        for _ in 0..24 {
            out.push("step".into());
            out.push("regs".into());
            out.push("state".into());
            out.push("callstack".into());
        }
        out.push("areas".into());
        out.push("trace".into());
    }
}
