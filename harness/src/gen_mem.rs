//! Generators for the memory properties C08 (byte store), C09 (permissions), C10 (area layout).
use crate::util::*;

#[derive(Clone)]
struct A {
    start: u64,
    len: u64,
}

const TOP: u64 = u64::MAX;

fn rand_bytes(rng: &mut Rng, n: usize) -> Vec<u8> {
    (0..n).map(|_| if rng.chance(1, 6) { 0 } else { rng.next() as u8 }).collect()
}

/// Emit a layout of 1..5 areas (some abutting, some at the top of the address space); returns extents.
fn layout(rng: &mut Rng, out: &mut Vec<String>) -> Vec<A> {
    let mut areas = vec![A { start: 0x1000, len: 1 }];
    out.push("new".into());
    let n = 1 + rng.below(4);
    let mut next = 0x2000u64;
    for i in 0..n {
        let len = match rng.below(8) {
            0 => 1,
            1 => 16,
            2 => 15,
            3 => 0x100,
            4 => 0,
            _ => 1 + rng.below(0x60),
        };
        let start = match rng.below(7) {
            0 if len > 0 => TOP - len + 1,                // ends exactly at 2^64
            1 if len > 1 => TOP - len,                    // ends at 2^64 - 1
            2 => next,                                    // abutting the previous one
            3 => 0x8000_0000_0000_0000 - (len / 2),       // straddles 2^63
            _ => next + 1 + rng.below(0x40),
        };
        if start < 0x4000_0000 {
            next = start + len;
        }
        let data = rand_bytes(rng, len as usize);
        let name = if rng.chance(1, 3) { format!("a{}", i) } else { "~".to_string() };
        out.push(format!("area {:x} {} {}", start, hex(&data), name));
        areas.push(A { start, len });
    }
    areas
}

fn boundary_addr(rng: &mut Rng, areas: &[A]) -> u64 {
    let a = rng.pick(areas).clone();
    let end = a.start.wrapping_add(a.len);
    match rng.below(26) {
        0 => a.start.wrapping_sub(1),
        1 => a.start,
        2 => a.start.wrapping_add(1),
        3 => end.wrapping_sub(1),
        4 => end,
        5 => end.wrapping_add(1),
        6 => end.wrapping_sub(*rng.pick(&[2u64, 4, 8, 16])),
        7 => end.wrapping_sub(*rng.pick(&[3u64, 5, 9, 17])),
        8 => TOP - rng.below(17),
        9 => 0x8000_0000_0000_0000u64.wrapping_add(rng.below(3)).wrapping_sub(1),
        10 => rng.below(3),
        11 => rng.val(),
        _ => a.start.wrapping_add(rng.below(a.len.max(1))),
    }
}

fn boundary_len(rng: &mut Rng, areas: &[A], addr: u64) -> u64 {
    let a = rng.pick(areas).clone();
    match rng.below(14) {
        0 => 0,
        1 => 1,
        2 => *rng.pick(&[2u64, 4, 8, 16]),
        3 => a.len,
        4 => a.len + 1,
        5 => a.start.wrapping_add(a.len).wrapping_sub(addr),      // exactly to the end of that area
        6 => a.start.wrapping_add(a.len).wrapping_sub(addr).wrapping_add(1),
        7 => TOP,
        8 => 0x8000_0000_0000_0000,
        9 => 0u64.wrapping_sub(addr),                             // address + length = 2^64
        10 => 0u64.wrapping_sub(addr).wrapping_add(1),            // wraps to 1
        _ => rng.below(24),
    }
}

pub fn gen_c08(tier: &str, seed: u64, out: &mut Vec<String>) {
    let mut rng = Rng::new(seed ^ 0xC08);
    let n = if tier == "thorough" { 2500 } else { 350 };
    for _ in 0..n {
        let mut areas = layout(&mut rng, out);
        if rng.chance(1, 4) {
            // make one area read-only / no-access to see the order of checks
            let a = rng.pick(&areas).clone();
            out.push(format!("prot {:x} {:x}", a.start, rng.below(8)));
        }
        let ops = 4 + rng.below(30);
        for _ in 0..ops {
            let addr = boundary_addr(&mut rng, &areas);
            match rng.below(10) {
                0 | 1 => {
                    let len = boundary_len(&mut rng, &areas, addr);
                    out.push(format!("mrb {:x} {:x}", addr, len));
                }
                2 | 3 => {
                    // bounded data length (the data is materialised)
                    let len = match boundary_len(&mut rng, &areas, addr) {
                        l if l <= 0x140 => l,
                        _ => rng.below(20),
                    };
                    out.push(format!("mwb {:x} {}", addr, hex(&rand_bytes(&mut rng, len as usize))));
                }
                4 | 5 => {
                    let n = *rng.pick(&[1u32, 2, 4, 8, 16]);
                    out.push(format!("mr {} {:x}", n, addr));
                }
                6 | 7 => {
                    let n = *rng.pick(&[1u32, 2, 4, 8, 16]);
                    if n == 16 {
                        let v = ((rng.val() as u128) << 64) | rng.val() as u128;
                        out.push(format!("mw 16 {:x} {:x}", addr, v));
                    } else {
                        // sometimes a value that does not fit the width
                        let v = if rng.chance(1, 6) { rng.val() } else { rng.val_w(8 * n) };
                        out.push(format!("mw {} {:x} {:x}", n, addr, v));
                    }
                }
                8 => {
                    // read back around the last address with byte reads
                    for k in 0..4u64 {
                        out.push(format!("mr 1 {:x}", addr.wrapping_add(k)));
                    }
                }
                _ => out.push("areas".into()),
            }
            if rng.chance(1, 25) {
                // shrink, then grow again within the old extent: the bytes that come back are zeros, not what was cut off
                let k = rng.below(areas.len() as u64) as usize;
                let a = areas[k].clone();
                if a.len >= 2 && a.start != 0x1000 {
                    let n1 = rng.below(a.len);
                    let n2 = n1 + 1 + rng.below(a.len - n1);
                    out.push(format!("mrb {:x} {:x}", a.start, a.len.min(0x140)));
                    out.push(format!("resize {:x} {:x}", a.start, n1));
                    out.push(format!("mr 1 {:x}", a.start.wrapping_add(n1)));
                    out.push(format!("resize {:x} {:x}", a.start, n2));
                    out.push(format!("mrb {:x} {:x}", a.start, n2.min(0x140)));
                    out.push(format!("mr 1 {:x}", a.start.wrapping_add(n2)));
                    areas[k].len = n2;
                }
            }
            if rng.chance(1, 25) {
                // grow towards the area that follows: up to its first byte is fine, one byte further is not
                let k = rng.below(areas.len() as u64) as usize;
                let a = areas[k].clone();
                let next = areas.iter().filter(|b| b.start > a.start).map(|b| b.start).min();
                if let Some(ns) = next {
                    if ns - a.start <= 0x4000 && a.start != 0x1000 {
                        let delta = *rng.pick(&[0i64, 1, 1, 2, -1]);
                        let nl = ((ns - a.start) as i64 + delta).max(0) as u64;
                        out.push(format!("resize {:x} {:x}", a.start, nl));
                        out.push(format!("mr 1 {:x}", ns));
                        out.push(format!("mr 8 {:x}", ns.wrapping_sub(4)));
                        out.push(format!("mw 2 {:x} 1234", ns.wrapping_sub(1)));
                        out.push(format!("mr 2 {:x}", ns.wrapping_sub(1)));
                        out.push(format!("mr 1 {:x}", ns));
                        out.push("areas".into());
                        if delta <= 0 {
                            areas[k].len = nl;
                        }
                    }
                }
            }
            if rng.chance(1, 40) {
                // a resize no host can satisfy fails and leaves the byte store as it was: the bounds at the old end still hold
                let a = rng.pick(&areas).clone();
                let huge = *rng.pick(&[1u64 << 60, 1 << 52, (1 << 63) - 1]);
                out.push(format!("resize {:x} {:x}", a.start, huge));
                let end = a.start.wrapping_add(a.len);
                out.push(format!("mrb {:x} 1", end));
                out.push(format!("mr 8 {:x}", end.wrapping_sub(4)));
                out.push(format!("mw 1 {:x} 5a", end));
                out.push(format!("mrb {:x} {:x}", a.start, a.len.min(0x40)));
            }
        }
        out.push("areas".into());
    }
}

pub fn gen_c09(tier: &str, seed: u64, out: &mut Vec<String>) {
    let mut rng = Rng::new(seed ^ 0xC09);
    let reps = if tier == "thorough" { 40 } else { 4 };
    for _ in 0..reps {
        // all 8 masks x {read, write, fetch} x API accessors, two areas so "first area" bugs show
        for mask in 0..8u64 {
            for other in [3u64, 0, 7] {
                out.push("new".into());
                let d1 = rand_bytes(&mut rng, 0x30);
                let d2 = rand_bytes(&mut rng, 0x30);
                out.push(format!("area 2000 {} ~", hex(&d1)));
                out.push(format!("area 3000 {} named", hex(&d2)));
                out.push(format!("prot 3000 {:x}", mask));
                out.push(format!("prot 2000 {:x}", other));
                out.push("areas".into());
                for base in [0x3000u64, 0x2000] {
                    let off = rng.below(0x20);
                    out.push(format!("mrb {:x} {:x}", base + off, 1 + rng.below(8)));
                    out.push(format!("mr {} {:x}", rng.pick(&[1u32, 2, 4, 8, 16]), base + off));
                    out.push(format!("mrx {:x}", base + off));
                    out.push(format!("mrx {:x}", base + 0x30 - 1 - rng.below(14)));
                    let wl = 1 + rng.below(8) as usize;
                    out.push(format!("mwb {:x} {}", base + off, hex(&rand_bytes(&mut rng, wl))));
                    out.push(format!("mw {} {:x} {:x}", 4, base + off, rng.val_w(32)));
                    out.push("areas".into());
                    out.push(format!("mrb {:x} 30", base));
                }
                // invalid masks are rejected
                out.push(format!("prot 3000 {:x}", 8 + rng.below(0x40)));
                out.push("areas".into());
                // permissions survive a resize (grow or shrink) of the area; accesses are judged by the same mask afterwards
                let nl = *rng.pick(&[0x10u64, 0x30, 0x48, 0x100]);
                out.push(format!("resize 3000 {:x}", nl));
                out.push("areas".into());
                let off = rng.below(nl.min(0x30) - 8);
                out.push(format!("mrb {:x} {:x}", 0x3000 + off, 1 + rng.below(8)));
                out.push(format!("mrx {:x}", 0x3000 + off));
                out.push(format!("mwb {:x} {}", 0x3000 + off, hex(&rand_bytes(&mut rng, 4))));
                out.push(format!("mw {} {:x} {:x}", 8, 0x3000 + off, rng.val_w(64)));
                out.push("areas".into());
                out.push(format!("mrb 3000 {:x}", nl));
            }
        }
        // the permission of the code area is consulted on every fetch: a running program loses the right to execute an area
        // the moment its mask changes, and regains it when the mask is restored (no stale decision survives a mem_prot)
        for mask in [1u64, 3, 0, 2, 6, 7, 4] {
            let code = vec![0x90u8; 8];
            out.push(format!("new {} {:x} {:x}", hex(&code), 0x40_0000, 0x40_0000));
            for off in 0..8u64 {
                out.push(format!("dec {:x} {} code=Nopd mn=Nop len=1 next={:x} nb=0 nb64=0 ops=- base=- index=- scale=1 disp=0 seg=DS", 0x40_0000 + off, hex(&code[off as usize..]), 0x40_0001 + off));
            }
            out.push("setregs 0,0,0,0,0,0,0,0,0,0,0,0,0,0,0,0,400000".into());
            out.push("step".into());
            out.push("step".into());
            out.push(format!("prot 400000 {:x}", mask));
            out.push("step".into());
            out.push("state".into());
            out.push("prot 400000 5".into());
            out.push("step".into());
            out.push("state".into());
            out.push(format!("prot 400000 {:x}", mask));
            out.push("mrx 400004".into());
            out.push("step".into());
            out.push("state".into());
        }
        // a fetch ends where the executable area ends: an instruction whose bytes continue in an adjacent area — whatever that
        // area's mask — is truncated (a decode error), never completed from the neighbour
        for full in [vec![0x48u8, 0xc7, 0xc0, 0x2a, 0, 0, 0], vec![0xb8, 1, 0, 0, 0], vec![0x48, 0x89, 0xd8], vec![0x0f, 0x1f, 0x44, 0x00, 0x00]] {
            for cut in 1..full.len() {
                if !rng.chance(1, 2) {
                    continue;
                }
                let head = full[..cut].to_vec();
                let mut tail = full[cut..].to_vec();
                tail.resize(16, 0x90);
                out.push(format!("new {} {:x} {:x}", hex(&head), 0x40_0000, 0x40_0000));
                crate::decode::dec_all(&head, 0x40_0000, out);
                out.push(format!("area {:x} {} ~", 0x40_0000 + cut as u64, hex(&tail)));
                out.push(format!("prot {:x} {:x}", 0x40_0000 + cut as u64, *rng.pick(&[3u64, 0, 7, 5, 1])));
                out.push("setregs 1111,0,0,2222,0,0,0,0,0,0,0,0,0,0,0,0,400000".into());
                out.push("areas".into());
                out.push("step".into());
                out.push("regs".into());
                out.push("state".into());
            }
        }
        // stores made on behalf of the guest by the built-in syscall handlers are stores: pipe read() into memory that may not
        // be written is denied and leaves it unchanged (the bytes stay in the pipe)
        for target_mask in [5u64, 1, 0, 4] {
            // syscall ; jmp back
            let code = vec![0x0fu8, 0x05, 0xeb, 0xfc, 0x90, 0x90, 0x90, 0x90, 0x90, 0x90, 0x90, 0x90, 0x90, 0x90, 0x90, 0x90];
            out.push(format!("new {} {:x} {:x}", hex(&code), 0x40_0000, 0x40_0000));
            crate::decode::dec_all(&code, 0x40_0000, out);
            out.push("setregs 0,0,0,0,0,0,0,0,0,0,0,0,0,0,0,0,400000".into());
            out.push("zero 200000 100 ~".into());
            out.push(format!("area 300000 {} ~", hex(&rand_bytes(&mut rng, 0x20))));
            out.push(format!("prot 300000 {:x}", target_mask));
            out.push("syscalls 22".into());
            out.push("rw 64 RAX 16".into());
            out.push("rw 64 RDI 200000".into());
            out.push("step".into());
            out.push("step".into());
            out.push(format!("mwb 200040 {}", hex(&rand_bytes(&mut rng, 8))));
            out.push("rw 64 RAX 1".into());
            out.push("ldreg RDI 200008".into());
            out.push("rw 64 RSI 200040".into());
            out.push("rw 64 RDX 8".into());
            out.push("step".into());
            out.push("rr 64 RAX".into());
            out.push("step".into());
            // read into the non-writable area / into the code area itself
            let dst = if rng.chance(1, 2) { 0x30_0008u64 } else { 0x40_0006 };
            out.push("rw 64 RAX 0".into());
            out.push("ldreg RDI 200000".into());
            out.push(format!("rw 64 RSI {:x}", dst));
            out.push("rw 64 RDX 8".into());
            out.push("step".into());
            out.push("state".into());
            out.push("areas".into());
            out.push(format!("rw 64 RIP {:x}", 0x40_0000));
            // the bytes are still there for a read into writable memory
            out.push("rw 64 RAX 0".into());
            out.push("ldreg RDI 200000".into());
            out.push("rw 64 RSI 200080".into());
            out.push("rw 64 RDX 8".into());
            out.push("step".into());
            out.push("rr 64 RAX".into());
            out.push("mrb 200080 8".into());
            out.push("areas".into());
        }
        // the constructor's code area is R+X: not writable, fetchable
        out.push(format!("new {} {:x} {:x}", hex(&rand_bytes(&mut rng, 20)), 0x40_0000, 0x40_0000));
        out.push("areas".into());
        out.push("mrx 400000".into());
        out.push("mrx 400010".into());
        out.push("mwb 400000 00".into());
        out.push("mrb 400000 14".into());
        out.push("mrx 400014".into());
        // … also after the code area has been resized
        out.push(format!("resize 400000 {:x}", 8 + rng.below(0x30)));
        out.push("areas".into());
        out.push("mwb 400000 00".into());
        out.push("mw 8 400000 0".into());
        out.push("mrx 400000".into());
        out.push("mrb 400000 8".into());
    }
}

/// stack allocation next to existing areas: the search must skip a slot whose extent (length + entry frame) is not free
fn stackps_op(rng: &mut Rng, out: &mut Vec<String>) {
    fn mk(rng: &mut Rng, n: u64) -> String {
        if n == 0 {
            return "-".into();
        }
        let mut v = vec![];
        for _ in 0..n {
            let len = 1 + rng.below(6) as usize;
            let s: Vec<u8> = (0..len).map(|_| b'a' + rng.below(26) as u8).collect();
            v.push(hex(&s));
        }
        v.join(",")
    }
    let argc = rng.below(4);
    let envc = rng.below(3);
    let argv = mk(rng, argc);
    let envp = mk(rng, envc);
    let len = *rng.pick(&[0x1000u64, 0x800, 0x2000, 0x40]);
    out.push(format!("stackps {:x} {} {}", len, argv, envp));
    out.push("areas".into());
}

pub fn gen_c10(tier: &str, seed: u64, out: &mut Vec<String>) {
    let mut rng = Rng::new(seed ^ 0xC10);
    let n = if tier == "thorough" { 3000 } else { 400 };
    for _ in 0..n {
        let mut areas = layout(&mut rng, out);
        out.push("areas".into());
        let ops = 3 + rng.below(14);
        for _ in 0..ops {
            let a = rng.pick(&areas).clone();
            let end = a.start.wrapping_add(a.len);
            // a start/len positioned relative to an existing area
            let len = match rng.below(8) {
                0 => 0,
                1 => 1,
                2 => a.len,
                3 => a.len + 2,
                4 => 0x20,
                _ => rng.below(0x50),
            };
            let start = match rng.below(12) {
                0 => a.start.wrapping_sub(len),                       // abutting below
                1 => a.start.wrapping_sub(len).wrapping_add(1),       // runs one byte into it
                2 => a.start.wrapping_sub(1),                         // starts just below (enclosing if long)
                3 => a.start,                                         // same start
                4 => a.start.wrapping_add(a.len / 2),                 // inside
                5 => end.wrapping_sub(1),                             // last byte
                6 => end,                                             // abutting above
                7 => end.wrapping_add(1),
                8 => TOP - len.wrapping_sub(1),                       // ends at 2^64
                9 => TOP - len.wrapping_sub(2),                       // would end past 2^64
                10 => rng.val(),
                _ => 0x5000 + rng.below(0x200),
            };
            match rng.below(12) {
                0..=3 => {
                    let data = rand_bytes(&mut rng, len as usize);
                    out.push(format!("area {:x} {} {}", start, hex(&data), if rng.chance(1, 2) { "x" } else { "~" }));
                    areas.push(A { start, len });
                }
                4 => {
                    out.push(format!("zero {:x} {:x} {}", start, len, if rng.chance(1, 2) { "z" } else { "~" }));
                    areas.push(A { start, len });
                }
                5 | 6 => {
                    // resize an existing area (or a bogus start): shrink, grow into neighbours, to 0, past 2^64
                    let target = if rng.chance(1, 8) { start } else { a.start };
                    let nl = match rng.below(8) {
                        0 => 0,
                        1 => a.len / 2,
                        2 => a.len + 1,
                        3 => a.len + 0x40,
                        4 => 0u64.wrapping_sub(a.start),                  // to exactly 2^64
                        5 => 0u64.wrapping_sub(a.start).wrapping_add(1),  // one past
                        _ => rng.below(0x120),
                    };
                    // keep allocations small: only lengths that are cheap or that must be rejected early
                    let nl = if nl > 0x10000 && !(rng.chance(1, 2) && a.start > TOP - 0x10000) { rng.below(0x200) } else { nl };
                    if rng.chance(1, 10) {
                        // a size no host can provide: the call fails and the area stays exactly as it was
                        let huge = *rng.pick(&[1u64 << 60, 1 << 52, (1 << 63) - 1]);
                        out.push(format!("resize {:x} {:x}", a.start, huge));
                        out.push("areas".into());
                        out.push(format!("mrb {:x} 1", a.start.wrapping_add(a.len)));
                        out.push(format!("mrb {:x} 8", a.start.wrapping_add(a.len).wrapping_sub(4)));
                        out.push(format!("mwb {:x} 5a", a.start.wrapping_add(a.len)));
                        out.push(format!("mrb {:x} {:x}", a.start, a.len.min(0x40)));
                    }
                    out.push(format!("resize {:x} {:x}", target, nl));
                    out.push(format!("mrb {:x} {:x}", target, nl.min(0x200)));
                }
                7 => {
                    out.push(format!("anyz {:x}", if rng.chance(1, 4) { 0 } else { rng.below(0x3000) }));
                }
                8 => {
                    let dl = if rng.chance(1, 5) { 0 } else { rng.below(0x40) as usize };
                    let data = rand_bytes(&mut rng, dl);
                    out.push(format!("any {} {}", hex(&data), if rng.chance(1, 2) { "arg0" } else { "~" }));
                }
                9 => {
                    out.push(format!("prot {:x} {:x}", if rng.chance(1, 6) { start } else { a.start }, rng.below(9)));
                }
                10 if rng.chance(1, 2) => stackps_op(&mut rng, out),
                _ => {
                    out.push(format!("mrb {:x} {:x}", start, len.min(0x40)));
                }
            }
            out.push("areas".into());
        }
    }
}
