//! C07 generator: histories of register-API calls.
use crate::util::*;
use ax_x86::state::registers::SupportedRegister as R;

fn setregs_line(rng: &mut Rng) -> String {
    let vals: Vec<String> = (0..17).map(|_| format!("{:x}", rng.val())).collect();
    format!("setregs {}", vals.join(","))
}

/// value for a write of API width `w`: mostly in range, sometimes just out of range or huge
fn wr_val(rng: &mut Rng, w: u32) -> u64 {
    if w == 64 {
        return rng.val();
    }
    match rng.below(8) {
        0 => 1u64 << w,                 // just out of range
        1 => (1u64 << w) + rng.below(3), // out of range
        2 => rng.val(),                 // anything (often out of range)
        _ => rng.val_w(w),
    }
}

pub fn gen(tier: &str, seed: u64, out: &mut Vec<String>) {
    let mut rng = Rng::new(seed ^ 0xC07);
    let views = all_views();
    let mut wrong: Vec<R> = vec![R::RIP, R::EIP];
    wrong.extend(XMM.iter().take(3));
    let widths = [8u32, 16, 32, 64];

    // (a) exhaustive: write one view, read every view (68 x 68) with a boundary value
    let exhaustive_vals: &[u64] = if tier == "thorough" {
        &[0, 1, 0x7f, 0x80, 0xff, 0x1234, 0x8000, 0xffff, 0x8000_0000, 0xffff_ffff, 0x1_0000_0000, u64::MAX]
    } else {
        &[0xa5, 0xffff_ffff]
    };
    for (wr, ww) in views.iter() {
        for v in exhaustive_vals {
            let m = if *ww == 64 { u64::MAX } else { (1u64 << ww) - 1 };
            out.push("new".into());
            out.push(setregs_line(&mut rng));
            out.push(format!("rw {} {:?} {:x}", ww, wr, v & m));
            for (rr, rw) in views.iter() {
                out.push(format!("rr {} {:?}", rw, rr));
            }
            out.push("regs".into());
        }
    }

    // (b) every register (incl. RIP, EIP, XMM) through every API width: rejection without damage
    for r in all_regs() {
        for w in widths {
            out.push("new".into());
            out.push(setregs_line(&mut rng));
            out.push(format!("rr {} {:?}", w, r));
            out.push(format!("rw {} {:?} {:x}", w, r, rng.val_w(w.min(8))));
            out.push(format!("rw {} {:?} {:x}", w, r, wr_val(&mut rng, w)));
            out.push("regs".into());
        }
    }

    // (c) random histories
    let n_hist = if tier == "thorough" { 4000 } else { 300 };
    for _ in 0..n_hist {
        out.push("new".into());
        out.push(setregs_line(&mut rng));
        let len = 1 + rng.below(60);
        for _ in 0..len {
            let (r, w) = if rng.chance(1, 10) {
                (*rng.pick(&wrong), *rng.pick(&widths))
            } else if rng.chance(1, 8) {
                // right register, wrong API width
                (rng.pick(&views).0, *rng.pick(&widths))
            } else {
                *rng.pick(&views)
            };
            if rng.chance(1, 2) {
                out.push(format!("rw {} {:?} {:x}", w, r, wr_val(&mut rng, w)));
            } else {
                out.push(format!("rr {} {:?}", w, r));
            }
            if rng.chance(1, 6) {
                out.push("regs".into());
            }
        }
        out.push("regs".into());
    }
}
