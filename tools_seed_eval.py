#!/usr/bin/env python3
"""Confirm seeded changes (produced by sub-agents that saw only a property text) and run the checks against them.

  tools_seed_eval.py confirm <dir>...   in a scratch worktree of /repo: patch applies, demo passes on the clean tree and fails on the
                                        changed one, the whole pinned suite still passes on the changed tree
  tools_seed_eval.py detect  <dir>...   apply to /repo, run ./check <prop> --tier quick (plus related checks), undo; record outcome

Each <dir> holds patch.diff, demo.rs|demo.md, meta.json; results are written back into meta.json.
Scratch worktrees live under /tmp and are removed afterwards; nothing registered in MANIFEST.json depends on this tool.
"""
import json, os, subprocess, sys, shutil, re

ENV = dict(os.environ, CARGO_NET_OFFLINE="true")
WT = "/tmp/wt_eval"
RELATED = {  # a change aimed at one property is usually visible to neighbours that watch the same code
    "C01": ["C01"], "C02": ["C02"], "C03": ["C03"], "C04": ["C04"], "C05": ["C05"], "C06": ["C06"],
}


def sh(cmd, cwd=None, timeout=3600):
    r = subprocess.run(cmd, shell=True, cwd=cwd, env=ENV, capture_output=True, text=True, timeout=timeout)
    return r.returncode, r.stdout + r.stderr


def summary(out):
    tot_p = tot_f = 0
    for m in re.finditer(r"test result: \w+\. (\d+) passed; (\d+) failed", out):
        tot_p += int(m.group(1)); tot_f += int(m.group(2))
    return tot_p, tot_f


def confirm(dirs):
    sh(f"git -C /repo worktree remove --force {WT}")
    rc, out = sh(f"git -C /repo worktree add --detach -f {WT} HEAD")
    assert rc == 0, out
    try:
        for d in dirs:
            meta = json.load(open(os.path.join(d, "meta.json")))
            res = {}
            sh("git checkout -- . && rm -f tests/demo.rs", cwd=WT)
            demo = os.path.join(d, "demo.rs")
            has_demo = os.path.exists(demo)
            if has_demo:
                os.makedirs(os.path.join(WT, "tests"), exist_ok=True)
                shutil.copy(demo, os.path.join(WT, "tests", "demo.rs"))
                rc, out = sh("cargo test --offline --test demo 2>&1 | tail -30", cwd=WT)
                p, f = summary(out)
                res["demo_clean_tree"] = f"{p} passed; {f} failed"
                res["demo_passes_on_clean_tree"] = (p > 0 and f == 0)
            rc, out = sh(f"git apply --check {os.path.abspath(d)}/patch.diff && git apply {os.path.abspath(d)}/patch.diff", cwd=WT)
            res["patch_applies"] = rc == 0
            if rc != 0:
                res["apply_log"] = out[-500:]
            else:
                if has_demo:
                    rc, out = sh("cargo test --offline --test demo 2>&1 | tail -60", cwd=WT)
                    p, f = summary(out)
                    res["demo_changed_tree"] = f"{p} passed; {f} failed"
                    res["demo_fails_on_changed_tree"] = f > 0
                    os.remove(os.path.join(WT, "tests", "demo.rs"))
                rc, out = sh("cargo test --workspace --no-fail-fast --offline 2>&1 | tail -400", cwd=WT)
                p, f = summary(out)
                res["suite_changed_tree"] = f"{p} passed; {f} failed"
                res["suite_passes"] = (f == 0 and p >= 2300)
            meta["confirmed"] = res
            json.dump(meta, open(os.path.join(d, "meta.json"), "w"), indent=1)
            print(d, json.dumps(res))
            sys.stdout.flush()
    finally:
        sh(f"git -C /repo worktree remove --force {WT}")
        sh("git -C /repo worktree prune")


def detect(dirs, extra_checks=()):
    rc, out = sh("git -C /repo status --porcelain")
    assert out.strip() == "", "/repo is not clean: " + out
    for d in dirs:
        meta = json.load(open(os.path.join(d, "meta.json")))
        pid = meta["property"]
        rc, out = sh(f"git -C /repo apply {os.path.abspath(d)}/patch.diff")
        if rc != 0:
            print(d, "patch does not apply", out[-300:])
            continue
        det = {}
        try:
            for chk in [pid] + [c for c in extra_checks if c != pid]:
                rc, out = sh(f"./check {chk} --tier quick", cwd="/verif", timeout=3600)
                lines = [l for l in out.splitlines() if l.startswith(("VIOLATION", "CHECK-ERROR"))]
                det[chk] = {"exit": rc, "lines": lines[:5]}
                for l in lines[:2]:
                    m = re.search(r"replay=(\S+)", l)
                    if m and os.path.exists(os.path.join("/verif", m.group(1))):
                        rp = json.load(open(os.path.join("/verif", m.group(1))))
                        det[chk].setdefault("replays", []).append({"kind": rp.get("kind"), "aspect": rp.get("aspect") or rp.get("oracle_messages"),
                                                                   "commands": [c for c in rp.get("commands", []) if not c.startswith("dec ")][:8]})
        finally:
            sh("git -C /repo checkout -- .")
        meta["detected"] = det
        json.dump(meta, open(os.path.join(d, "meta.json"), "w"), indent=1)
        print(d, {k: (v["exit"], v["lines"][:1]) for k, v in det.items()})
        sys.stdout.flush()
    rc, out = sh("git -C /repo status --porcelain")
    assert out.strip() == "", "/repo left dirty: " + out


if __name__ == "__main__":
    mode, dirs = sys.argv[1], sys.argv[2:]
    extra = []
    if "--also" in dirs:
        k = dirs.index("--also")
        extra = dirs[k + 1].split(",")
        dirs = dirs[:k] + dirs[k + 2:]
    if mode == "confirm":
        confirm(dirs)
    else:
        detect(dirs, extra)
