#!/bin/sh
# Build the framework from files on disk only (offline): Lean project, harness, native oracle.
set -e
cd "$(dirname "$0")"
export CARGO_NET_OFFLINE=true
(cd lean && lake build)
(cd harness && cargo build --release --offline)
if [ -f native/nx.c ]; then cc -O1 -fno-stack-protector -o native/nx native/nx.c; fi
echo setup done
